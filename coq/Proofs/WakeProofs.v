(** Proofs about Model/Wake.v (property C11). *)
From A10 Require Import Base.Word Base.Run Gen.Consts Model.Wake.
From Coq Require Import ZifyN ZifyBool ZifyNat.
Ltac Zify.zify_post_hook ::= Z.div_mod_to_equations.

(** ** Statements (proved below). *)

(** Which events the scheduler / kernel can actually produce in a state. *)
Definition all_wakers_finished (s : st) : Prop :=
  Forall (fun w => wp w = WIdle /\ calls w = O) (wakers s).

Definition ev_ok (s : st) (e : ev) : Prop :=
  match e with
  | P => pp s = PInKernel -> (0 < cq s \/ (md s = KernelThread /\ sqh s < sqt s))
      (* a blocked poller is resumed only when something arrived *)
  | W i => (i < length (wakers s))%nat
  | Stuck => pp s = PInKernel /\ cq s = 0 /\ sqh s = sqt s /\ all_wakers_finished s
      (* nobody left who could post anything *)
  | PI => True
      (* a signal can arrive at any time: at the enter call, while blocked (then the poller is
         resumed although nothing arrived), and anywhere else it changes nothing *)
  | Timeout => pp s = PInKernel /\ timed s = true
               /\ cq s = 0 /\ sqh s = sqt s /\ all_wakers_finished s
      (* the precondition of [Stuck], for a wait with the caller's finite timeout: the duration is
         never waited for, the timeout expires when nobody is left who could post anything *)
  end.

Inductive valid : st -> list ev -> Prop :=
  | valid_nil s : valid s []
  | valid_cons s e es : ev_ok s e -> valid (fst (step s e)) es -> valid s (e :: es).

(** C11 main: whatever the ring mode, the size [c] of the submission queue, the number [prefill]
    of unrelated entries queued (and never completing) when the race starts, the number of polls,
    which of them are called with a finite timeout ([tm]: any list), the number of wakers and of
    their calls, and the interleaving: the poller never blocks for ever while a wake-up is owed,
    and no poll with a finite timeout sleeps its whole timeout while a wake-up is owed ([lost] is
    set by [Stuck] and by [Timeout] when something is owed). (No relation between [c] and [prefill] is needed: with [c = 0]
    every [add] fails and the wakers retry for ever, which is "inside the call"; safety only,
    termination of the retry loop of [Submissions::wake] is not claimed.) *)
Definition no_lost_ring_wakeup : Prop :=
  forall m c prefill nparked npolls tm wcalls es, valid (init m c prefill nparked npolls tm wcalls) es ->
    lost (fst (run step (init m c prefill nparked npolls tm wcalls) es)) = false.

(** The invariant behind it, as a statement of its own: whenever the poller is blocked in the
    kernel and a wake-up is owed, something is on its way. *)
Definition wake_is_on_its_way : Prop :=
  forall m c prefill nparked npolls tm wcalls es, valid (init m c prefill nparked npolls tm wcalls) es ->
    let s := fst (run step (init m c prefill nparked npolls tm wcalls) es) in
    pp s = PInKernel -> owed s = true ->
      0 < cq s \/ sqh s < sqt s \/ exists i w, nth_error (wakers s) i = Some w /\ wp w <> WIdle.

(** An awoken bit set while no poll is blocked makes the next poll use a zero timeout. *)
Definition awoken_bit_makes_next_poll_prompt : Prop :=
  forall s, pp s = PSetPolling -> N.testbit (pstate s) 1 = true ->
    let s' := pstep s in aw s' = true /\ pstate s' = IS_POLLING.

(** Extra (not needed for the above, closes the gap left by the [sqh < sqt] disjunct): a wake
    message that is published and not consumed ([sqo] of the pending entries, at the front, are
    not wake messages) always has somebody who will submit it: the kernel thread, or a waker
    that is about to call [enter] and whose [to_submit] covers it (the kernel consumes from the
    head, the other entries first; [to_submit] is computed from a head loaded earlier, so it
    covers everything pending). No assumption on the schedule. *)
Definition pending_message_has_a_submitter : Prop :=
  forall m c prefill nparked npolls tm wcalls es,
    let s := fst (run step (init m c prefill nparked npolls tm wcalls) es) in
    sqh s + sqo s < sqt s ->
      md s = KernelThread
      \/ exists i w, nth_error (wakers s) i = Some w /\ (wp w = WEnterH \/ wp w = WEnterT).

(** Extra, the two combined: a blocked poller that is owed a wake-up can be resumed at once, or
    some waker has not finished its call (and, finishing it, will post the message). In the
    kernel-thread case a wake message is among what the kernel thread will take. *)
Definition owed_poller_is_resumable_or_a_waker_is_running : Prop :=
  forall m c prefill nparked npolls tm wcalls es, valid (init m c prefill nparked npolls tm wcalls) es ->
    let s := fst (run step (init m c prefill nparked npolls tm wcalls) es) in
    pp s = PInKernel -> owed s = true ->
      0 < cq s \/ (md s = KernelThread /\ sqh s + sqo s < sqt s)
      \/ exists i w, nth_error (wakers s) i = Some w /\ wp w <> WIdle.

(** ** Classes of program counters *)

(** [set_polling(true)] done, [set_polling(false)] not yet: bit 0 of the state is set. *)
Definition polling_pc (p : ppc) : bool :=
  match p with
  | PEnterH | PEnterT | PEnterFlags | PInKernel | PWbH | PWbT | PWbTry _ | PWbLock _ _ | PClearPolling
  | PClearPollingIntr => true
  | _ => false
  end.
(** ... and [enter] has not returned. *)
Definition entering_pc (p : ppc) : bool :=
  match p with PEnterH | PEnterT | PEnterFlags | PInKernel => true | _ => false end.
(** The previous poll has returned (or none was made), [set_polling(true)] not yet done. At the
    remaining points (PLoadCqT2, PStoreHead, PEndWbH, PEndWbT, PEndWbTry, PEndWbLock: bit 0 already cleared,
    the poll not yet returned) a wake-up may be owed whatever the state word is. *)
Definition before_pc (p : ppc) : bool :=
  match p with PIdle | PLoadCqT | PSetPolling => true | _ => false end.
(** A waker whose [fetch_or] saw "polling, not awoken" and that has not published its message:
    inside [add], or between an [add] that failed on a full queue and the retry. *)
Definition committed (w : waker) : bool :=
  match wp w with
  | WIdle => false
  | WAddH1 | WAddT1 | WAddLock | WAddSpin | WAddH2 | WAddT2 | WAddFill | WAddStore => true
  | WEnterH | WEnterT | WEnterFlags | WWbH | WWbT | WWbTry _ | WWbLock _ _ => negb (wok w)
  end.
(** A waker that is about to [enter] (after a successful or a failed [add]) with a [to_submit]
    computed from a head it (will have) loaded after its own store. *)
Definition submitter (w : waker) : bool :=
  match wp w with WEnterH | WEnterT => true | _ => false end.

Definition some_waker (f : waker -> bool) (l : list waker) : Prop :=
  exists i w, nth_error l i = Some w /\ f w = true.

(** ** The invariant *)
Definition Inv (s : st) : Prop :=
  sqh s + sqo s <= sqt s
  /\ pstate s < 4
  /\ N.testbit (pstate s) 0 = polling_pc (pp s)
  /\ (pp s = PInKernel -> aw s = false)
  (* a wake since the last poll return happened before this poll's swap (then [aw]) or after it
     (then the bit is still set: only the poller clears it, after [enter]) *)
  /\ (owed s = true -> entering_pc (pp s) = true -> aw s = true \/ N.testbit (pstate s) 1 = true)
  /\ (owed s = true -> before_pc (pp s) = true -> N.testbit (pstate s) 1 = true)
  (* after this poll's swap the awoken bit can only have been set by a waker that saw
     "polling, not awoken": it is committed to post (possibly retrying), or a message is
     published, or the message's completion is in the queue (nothing is released before [enter]
     returns) *)
  /\ (entering_pc (pp s) = true -> N.testbit (pstate s) 1 = true -> aw s = false ->
        0 < cq s \/ sqh s + sqo s < sqt s \/ some_waker committed (wakers s))
  /\ lost s = false.

(** Second invariant (no assumption on the schedule): every head anybody has loaded is an old
    head, so every [enter] of the default mode submits all that is published; a published
    message has a submitter. *)
Definition Inv2 (s : st) : Prop :=
  sqh s + sqo s <= sqt s
  /\ lh s <= sqh s
  /\ Forall (fun v => v <= sqh s) (wlh s)
  /\ (sqh s + sqo s < sqt s -> md s = KernelThread \/ some_waker submitter (wakers s)).

(** ** The state word *)
Lemma four_cases p : p < 4 -> p = 0 \/ p = 1 \/ p = 2 \/ p = 3.
Proof. lia. Qed.

Lemma lor_awoken_lt p : p < 4 -> N.lor p IS_AWOKEN < 4.
Proof.
  intros H. destruct (four_cases p H) as [-> | [-> | [-> | ->]]]; vm_compute; reflexivity.
Qed.

Lemma lor_awoken_bit0 p : N.testbit (N.lor p IS_AWOKEN) 0 = N.testbit p 0.
Proof. rewrite N.lor_spec. change (N.testbit IS_AWOKEN 0) with false. apply orb_false_r. Qed.

Lemma lor_awoken_bit1 p : N.testbit (N.lor p IS_AWOKEN) 1 = true.
Proof. rewrite N.lor_spec. change (N.testbit IS_AWOKEN 1) with true. apply orb_true_r. Qed.

Lemma polling_not_awoken p :
  p < 4 -> N.testbit p 0 = true -> N.testbit p 1 = false -> p = IS_POLLING.
Proof.
  intros H. destruct (four_cases p H) as [-> | [-> | [-> | ->]]]; vm_compute; intros; congruence.
Qed.

(** ** Lists: replacing the [i]-th waker *)
Lemma nth_error_upd {A} (x : A) : forall (l : list A) i j, (i < length l)%nat ->
  nth_error (firstn i l ++ x :: skipn (S i) l) j = if Nat.eqb j i then Some x else nth_error l j.
Proof.
  induction l as [|a l IH]; intros i j Hi; cbn [length] in Hi; [lia|].
  destruct i as [|i].
  - cbn [firstn skipn app]. destruct j; reflexivity.
  - change (firstn (S i) (a :: l)) with (a :: firstn i l).
    change (skipn (S (S i)) (a :: l)) with (skipn (S i) l).
    destruct j as [|j]; cbn [app nth_error Nat.eqb]; [reflexivity|]. apply IH. lia.
Qed.

Lemma upd_length {A} (x : A) (l : list A) i : (i < length l)%nat ->
  length (firstn i l ++ x :: skipn (S i) l) = length l.
Proof.
  intros H. rewrite app_length, firstn_length. cbn [length]. rewrite skipn_length. lia.
Qed.

Lemma Forall_upd {A} (f : A -> Prop) (x : A) : forall (l : list A) i,
  Forall f l -> f x -> Forall f (firstn i l ++ x :: skipn (S i) l).
Proof.
  induction l as [|a l IH]; intros i Hl Hx.
  - destruct i; cbn [firstn skipn app]; constructor; auto.
  - inversion Hl as [|a' l' Ha Hl']; subst. destruct i as [|i].
    + cbn [firstn skipn app]. constructor; assumption.
    + change (firstn (S i) (a :: l)) with (a :: firstn i l).
      change (skipn (S (S i)) (a :: l)) with (skipn (S i) l).
      cbn [app]. constructor; [assumption|]. apply IH; assumption.
Qed.

Lemma Forall_nth_default {A} (f : A -> Prop) (d : A) (l : list A) i :
  Forall f l -> f d -> f (nth i l d).
Proof.
  intros Hl Hd. destruct (nth_in_or_default i l d) as [Hin| ->]; [|exact Hd].
  rewrite Forall_forall in Hl. apply Hl. exact Hin.
Qed.

Lemma some_waker_self f (l : list waker) i w' :
  (i < length l)%nat -> f w' = true ->
  some_waker f (firstn i l ++ w' :: skipn (S i) l).
Proof.
  intros Hi Hf. exists i, w'. rewrite nth_error_upd by exact Hi. rewrite Nat.eqb_refl.
  split; [reflexivity|exact Hf].
Qed.

(** Replacing a waker that is not the witness, or by one that is a witness too. *)
Lemma some_waker_upd f (l : list waker) i w w' :
  nth_error l i = Some w -> (f w = true -> f w' = true) ->
  some_waker f l -> some_waker f (firstn i l ++ w' :: skipn (S i) l).
Proof.
  intros Hi Hf (j & wj & Hj & Hfj).
  assert (Hil : (i < length l)%nat) by (apply nth_error_Some; congruence).
  destruct (Nat.eqb_spec j i) as [->|Hne].
  - apply some_waker_self; [exact Hil|]. apply Hf. congruence.
  - exists j, wj. rewrite nth_error_upd by exact Hil.
    destruct (Nat.eqb_spec j i); [contradiction|]. split; assumption.
Qed.

(** ** One step at a time *)
Ltac proj :=
  cbn [md pstate cap sqh sqt sqo cq holder pp polls aw lh seen wakers wlh psub parked owed tmos lost
       set_p set_lh set_w set_wlh set_holder set_psub set_parked wbf_putback clear_polling consume consume_all
       poll_return at_pc at_pc_ok call_done wp calls wok
       after_enter_ok pstuck ptimeout
       polling_pc entering_pc before_pc] in *.
Ltac inv_destruct H := destruct H as (Hle & Hps & Hb0 & Hik & How & Hbe & Hres & Hlost).
Ltac splits := repeat match goal with |- _ /\ _ => split end.

(** The kernel consuming submissions keeps "a completion is there or a message is pending". *)
Lemma Inv_consume s k : Inv s -> Inv (consume s k).
Proof.
  intros HI. inv_destruct HI. unfold Inv; proj.
  set (k' := N.min k (sqt s - sqh s)) in *.
  assert (Hk : k' <= sqt s - sqh s) by (unfold k'; lia).
  set (o := N.min k' (sqo s)) in *.
  assert (Ho : o <= k' /\ o <= sqo s /\ (o = k' \/ o = sqo s)) by (unfold o; lia).
  splits; try assumption; try lia.
  intros A B C. destruct (Hres A B C) as [H|[H|H]].
  - left. lia.
  - destruct (N.eq_dec (k' - o) 0) as [E|E]; [right; left; lia|left; lia].
  - right; right. exact H.
Qed.

Lemma Inv_syscall_submit s k : Inv s -> Inv (syscall_submit s k).
Proof.
  intros HI. unfold syscall_submit, consume_all. destruct (md s); apply Inv_consume; exact HI.
Qed.

Lemma syscall_submit_pp s k : pp (syscall_submit s k) = pp s.
Proof. unfold syscall_submit, consume_all. destruct (md s); reflexivity. Qed.
Lemma syscall_submit_wakers s k : wakers (syscall_submit s k) = wakers s.
Proof. unfold syscall_submit, consume_all. destruct (md s); reflexivity. Qed.
Lemma syscall_submit_md s k : md (syscall_submit s k) = md s.
Proof. unfold syscall_submit, consume_all. destruct (md s) eqn:E; cbn [md consume]; exact E. Qed.
Lemma syscall_submit_lh s k : lh (syscall_submit s k) = lh s.
Proof. unfold syscall_submit, consume_all. destruct (md s); reflexivity. Qed.
Lemma syscall_submit_wlh s k : wlh (syscall_submit s k) = wlh s.
Proof. unfold syscall_submit, consume_all. destruct (md s); reflexivity. Qed.

(** [enter] with [min_complete = 1]: blocks only when not awoken. *)
Lemma Inv_enter_wait s n : Inv s -> entering_pc (pp s) = true -> Inv (enter_wait s n).
Proof.
  intros HI He. inv_destruct HI. unfold enter_wait.
  destruct (0 <? cq s); [|destruct (aw s) eqn:Eaw; [destruct (0 <? n)|]];
    unfold Inv; proj; destruct (pp s); try discriminate He; proj; try rewrite Eaw;
    splits; try assumption; try discriminate; try reflexivity; try (intros; discriminate);
    auto.
Qed.

Lemma Inv_pstep s : Inv s -> Inv (pstep s).
Proof.
  intros HI. unfold pstep. destruct (pp s) eqn:Epp.
  - (* PIdle *)
    destruct (polls s); [exact HI|]. inv_destruct HI. rewrite Epp in *.
    unfold Inv; proj. splits; try assumption; intros; discriminate.
  - (* PLoadCqT *)
    inv_destruct HI. rewrite Epp in *.
    destruct (0 <? cq s); unfold Inv; proj; splits; try assumption; intros; discriminate.
  - (* PSetPolling: swap(POLLING), remembering the awoken bit *)
    inv_destruct HI. rewrite Epp in *. unfold Inv; proj.
    change (N.testbit IS_POLLING 1) with false. change (N.testbit IS_POLLING 0) with true.
    splits; try assumption.
    + unfold IS_POLLING. lia.
    + destruct (md s); reflexivity.
    + destruct (md s); discriminate.
    + intros A _. left. apply Hbe; [exact A|reflexivity].
    + intros _ B. destruct (md s); discriminate B.
    + intros _ B. discriminate B.
  - (* PEnterH *)
    inv_destruct HI. rewrite Epp in *. unfold Inv; proj. splits; try assumption.
    discriminate.
  - (* PEnterT *)
    apply Inv_enter_wait; [apply Inv_syscall_submit; exact HI|].
    rewrite syscall_submit_pp, Epp. reflexivity.
  - (* PEnterFlags *)
    apply Inv_enter_wait; [apply Inv_syscall_submit; exact HI|].
    rewrite syscall_submit_pp, Epp. reflexivity.
  - (* PInKernel *)
    assert (HI1 : Inv (match md s with KernelThread => consume_all s | _ => s end))
      by (destruct (md s); [exact HI|exact HI|apply Inv_consume; exact HI]).
    assert (Epp1 : pp (match md s with KernelThread => consume_all s | _ => s end) = PInKernel)
      by (destruct (md s); exact Epp).
    set (s1 := match md s with KernelThread => consume_all s | _ => s end) in *. clearbody s1.
    destruct (0 <? cq s1); [|exact HI1].
    inv_destruct HI1. rewrite Epp1 in *. unfold Inv; proj.
    splits; try assumption; intros; discriminate.
  - (* PWbH *)
    inv_destruct HI. rewrite Epp in *. unfold Inv; proj.
    splits; try assumption; intros; discriminate.
  - (* PWbT *)
    inv_destruct HI. rewrite Epp in *.
    destruct (sq_full s (lh s)); unfold Inv; proj;
      splits; try assumption; intros; discriminate.
  - (* PWbTry: takes the list (or finds it empty) *)
    inv_destruct HI. rewrite Epp in *.
    destruct (parked s =? 0); unfold Inv; proj;
      splits; try assumption; intros; discriminate.
  - (* PWbLock: puts the rest back *)
    inv_destruct HI. rewrite Epp in *. unfold Inv; proj.
    splits; try assumption; intros; discriminate.
  - (* PClearPolling: swap(NOT_POLLING) *)
    inv_destruct HI. rewrite Epp in *. unfold Inv; proj.
    splits; try assumption; try (intros; discriminate).
    + unfold NOT_POLLING. lia.
    + reflexivity.
  - (* PClearPollingIntr: the same swap, after an interrupted enter *)
    inv_destruct HI. rewrite Epp in *. unfold Inv; proj.
    splits; try assumption; try (intros; discriminate).
    + unfold NOT_POLLING. lia.
    + reflexivity.
  - (* PLoadCqT2 *)
    inv_destruct HI. rewrite Epp in *. unfold Inv; proj.
    splits; try assumption; intros; discriminate.
  - (* PStoreHead *)
    inv_destruct HI. rewrite Epp in *. unfold Inv; proj.
    splits; try assumption; intros; discriminate.
  - (* PEndWbH *)
    inv_destruct HI. rewrite Epp in *. unfold Inv; proj.
    splits; try assumption; intros; discriminate.
  - (* PEndWbT *)
    inv_destruct HI. rewrite Epp in *.
    destruct (sq_full s (lh s)); unfold Inv; proj;
      splits; try assumption; intros; discriminate.
  - (* PEndWbTry: the poll returns, nothing is owed any more (or the list is taken) *)
    inv_destruct HI. rewrite Epp in *.
    destruct (parked s =? 0); unfold Inv; proj;
      splits; try assumption; intros; discriminate.
  - (* PEndWbLock: puts the rest back; the poll returns *)
    inv_destruct HI. rewrite Epp in *. unfold Inv; proj.
    splits; try assumption; intros; discriminate.
Qed.

(** A waker step that changes only the waker's own record, the lock and its local head. *)
Lemma Inv_waker_local s s' i w w' :
  Inv s -> nth_error (wakers s) i = Some w ->
  pstate s' = pstate s -> sqh s' = sqh s -> sqt s' = sqt s -> sqo s' = sqo s -> cq s' = cq s ->
  pp s' = pp s -> aw s' = aw s -> owed s' = owed s -> lost s' = lost s ->
  wakers s' = firstn i (wakers s) ++ w' :: skipn (S i) (wakers s) ->
  (committed w = true -> committed w' = true) ->
  Inv s'.
Proof.
  intros HI Hi E1 E2 E3 E0 E4 E5 E6 E7 E8 E9 Hc. inv_destruct HI.
  unfold Inv. rewrite E1, E2, E3, E0, E4, E5, E6, E7, E8, E9.
  splits; try assumption.
  intros A B C. destruct (Hres A B C) as [H|[H|H]]; [left; exact H|right; left; exact H|].
  right; right. apply (some_waker_upd committed _ i w w'); assumption.
Qed.

(** Leaving the [wake_blocked_futures] of the waker's [enter]: a waker whose add had failed goes
    back to the add (still committed), one whose add had succeeded is done. *)
Lemma committed_after_wbf w :
  match wp w with WWbT | WWbTry _ | WWbLock _ _ => True | _ => False end ->
  committed w = true -> committed (after_wbf w) = true.
Proof.
  unfold committed, after_wbf. destruct (wp w); try contradiction; intros _;
    destruct (wok w); cbn [negb]; intros H; try discriminate H; reflexivity.
Qed.

(** The waker's side condition of [Inv_waker_local], by computation from its pc and [wok]. *)
Ltac cm Epc :=
  unfold committed; rewrite ?Epc;
  unfold after_wbf;
  repeat match goal with |- context [if wok ?w then _ else _] => destruct (wok w) eqn:?Ewok end;
  cbn [at_pc at_pc_ok call_done wp wok negb];
  repeat match goal with |- context [match md ?s with _ => _ end] => destruct (md s) end;
  cbn [negb]; intros; try assumption; try reflexivity; try discriminate.
Ltac wl s i w w' Epc :=
  apply (Inv_waker_local s _ i w w'); try reflexivity; try assumption; cm Epc.

Lemma Inv_wstep s i : Inv s -> Inv (wstep s i).
Proof.
  intros HI. unfold wstep.
  destruct (nth_error (wakers s) i) as [w|] eqn:Hi; [|exact HI].
  assert (Hil : (i < length (wakers s))%nat) by (apply nth_error_Some; congruence).
  destruct (wp w) eqn:Epc.
  - (* WIdle: the fetch_or *)
    destruct (calls w); [exact HI|]. inv_destruct HI.
    pose proof (lor_awoken_lt _ Hps) as L4.
    pose proof (lor_awoken_bit0 (pstate s)) as L0.
    pose proof (lor_awoken_bit1 (pstate s)) as L1.
    destruct (N.eqb_spec (pstate s) IS_POLLING) as [Eold|Eold]; [destruct (md s) eqn:Emd|].
    + (* saw "polling, not awoken": commits to post *)
      unfold Inv; proj. rewrite L0, L1. splits; try assumption; auto.
      intros _ _ _. right; right. apply some_waker_self; [exact Hil|reflexivity].
    + (* single issuer: posted at once *)
      unfold Inv; proj. rewrite L0, L1. splits; try assumption; auto.
      intros _ _ _. left. lia.
    + unfold Inv; proj. rewrite L0, L1. splits; try assumption; auto.
      intros _ _ _. right; right. apply some_waker_self; [exact Hil|reflexivity].
    + (* somebody else set the bit already, or nobody is polling *)
      unfold Inv; proj. rewrite L0, L1. splits; try assumption; auto.
      intros A _ C.
      destruct (N.testbit (pstate s) 1) eqn:B1.
      * destruct (Hres A eq_refl C) as [H|[H|H]]; [left; exact H|right; left; exact H|].
        right; right. apply (some_waker_upd committed _ i w); try assumption.
        unfold committed at 1. rewrite Epc. discriminate.
      * exfalso. apply Eold. apply polling_not_awoken; try assumption.
        rewrite Hb0. destruct (pp s); try discriminate A; reflexivity.
  - (* WAddH1 *) wl s i w (at_pc w WAddT1) Epc.
  - (* WAddT1: a full queue makes the add fail; the waker stays committed *)
    destruct (sq_full s (nth i (wlh s) 0)).
    + wl s i w (at_pc_ok w (match md s with KernelThread => WEnterFlags | _ => WEnterH end) false) Epc.
    + wl s i w (at_pc w WAddLock) Epc.
  - (* WAddLock *)
    destruct (holder s).
    + wl s i w (at_pc w WAddSpin) Epc.
    + wl s i w (at_pc w WAddH2) Epc.
  - (* WAddSpin *)
    destruct (holder s).
    + wl s i w (at_pc w WAddSpin) Epc.
    + wl s i w (at_pc w WAddH2) Epc.
  - (* WAddH2 *) wl s i w (at_pc w WAddT2) Epc.
  - (* WAddT2 *)
    destruct (sq_full s (nth i (wlh s) 0)).
    + wl s i w (at_pc_ok w (match md s with KernelThread => WEnterFlags | _ => WEnterH end) false) Epc.
    + wl s i w (at_pc w WAddFill) Epc.
  - (* WAddFill *) wl s i w (at_pc w WAddStore) Epc.
  - (* WAddStore: publishes a message *)
    inv_destruct HI. unfold Inv; proj. splits; try assumption; lia.
  - (* WEnterH *) wl s i w (at_pc w WEnterT) Epc.
  - (* WEnterT: its own enter *)
    apply (Inv_waker_local (syscall_submit s (sqt s - nth i (wlh s) 0)) _ i w (at_pc w WWbH));
      try reflexivity.
    + apply Inv_syscall_submit; exact HI.
    + rewrite syscall_submit_wakers. exact Hi.
    + cm Epc.
  - (* WEnterFlags *)
    apply (Inv_waker_local (syscall_submit s 0) _ i w (at_pc w WWbH)); try reflexivity.
    + apply Inv_syscall_submit; exact HI.
    + rewrite syscall_submit_wakers. exact Hi.
    + cm Epc.
  - (* WWbH *) wl s i w (at_pc w WWbT) Epc.
  - (* WWbT: done when the add had succeeded, else back to the add *)
    destruct (sq_full s (nth i (wlh s) 0)).
    + apply (Inv_waker_local s _ i w (after_wbf w)); try reflexivity; try assumption.
      apply (committed_after_wbf w); rewrite Epc; reflexivity.
    + wl s i w (at_pc w (WWbTry (wbf_available s (nth i (wlh s) 0)))) Epc.
  - (* WWbTry *)
    destruct (parked s =? 0).
    + apply (Inv_waker_local s _ i w (after_wbf w)); try reflexivity; try assumption.
      apply (committed_after_wbf w); rewrite Epc; reflexivity.
    + apply (Inv_waker_local s _ i w (at_pc w (WWbLock (wbf_rest avail (parked s)) (wbf_left avail (parked s)))));
        try reflexivity; try assumption. cm Epc.
  - (* WWbLock *)
    apply (Inv_waker_local s _ i w (after_wbf w)); try reflexivity; try assumption.
    apply (committed_after_wbf w); rewrite Epc; reflexivity.
Qed.

(** What the invariant says about a blocked poller that is owed a wake-up. *)
Lemma Inv_blocked_owed s :
  Inv s -> pp s = PInKernel -> owed s = true ->
  0 < cq s \/ sqh s + sqo s < sqt s \/ some_waker committed (wakers s).
Proof.
  intros HI Epp Ho. inv_destruct HI. rewrite Epp in *. proj.
  specialize (Hik eq_refl).
  destruct (How Ho eq_refl) as [H|H]; [congruence|].
  apply Hres; [reflexivity|exact H|exact Hik].
Qed.

Lemma finished_no_committed s :
  all_wakers_finished s -> ~ some_waker committed (wakers s).
Proof.
  intros Hall (i & w & Hi & Hw). unfold all_wakers_finished in Hall.
  rewrite Forall_forall in Hall. destruct (Hall w (nth_error_In _ _ Hi)) as [E _].
  unfold committed in Hw. rewrite E in Hw. discriminate Hw.
Qed.

(** Nobody left who could post anything: nothing is owed to a blocked poller. *)
Lemma Inv_nobody_left s :
  Inv s -> pp s = PInKernel -> cq s = 0 -> sqh s = sqt s -> all_wakers_finished s -> owed s = false.
Proof.
  intros HI Epp Hcq Hsq Hall.
  destruct (owed s) eqn:Ho; [|reflexivity]. exfalso.
  destruct (Inv_blocked_owed s HI Epp Ho) as [H|[H|H]]; [lia|lia|].
  apply (finished_no_committed s Hall H).
Qed.

Lemma Inv_pstuck s : Inv s -> pp s = PInKernel -> owed s = false -> Inv (pstuck s).
Proof.
  intros HI Epp Ho. inv_destruct HI. rewrite Epp in *. unfold Inv; proj.
  destruct (psub s =? 0); proj;
    (splits; try assumption; try (intros; discriminate); rewrite Hlost, Ho; reflexivity).
Qed.

(** The scheduler reports "stuck" only when nothing is owed. *)
Lemma Inv_stuck s : Inv s -> ev_ok s Stuck -> Inv (fst (step s Stuck)).
Proof.
  intros HI (Epp & Hcq & Hsq & Hall). cbn [step fst]. rewrite Epp.
  apply Inv_pstuck; [exact HI|exact Epp|]. apply Inv_nobody_left; assumption.
Qed.

(** ... and a timeout expires only when nothing is owed. *)
Lemma Inv_timeout s : Inv s -> ev_ok s Timeout -> Inv (fst (step s Timeout)).
Proof.
  intros HI (Epp & Htm & Hcq & Hsq & Hall). cbn [step fst]. rewrite Epp, Htm. unfold ptimeout.
  apply Inv_pstuck; [exact HI|exact Epp|]. apply Inv_nobody_left; assumption.
Qed.

(** The interrupted enter: the submission work keeps the invariant, and the poller is past its
    [enter] (nothing is claimed about a poller that is neither before its swap nor entering). *)
Lemma Inv_pintr s : Inv s -> Inv (pintr s).
Proof.
  intros HI. unfold pintr. destruct (pp s) eqn:Epp; try (apply Inv_pstep; exact HI).
  - (* PEnterT *)
    pose proof (Inv_syscall_submit s (sqt s - lh s) HI) as HI1.
    pose proof (syscall_submit_pp s (sqt s - lh s)) as Epp1. rewrite Epp in Epp1.
    set (s1 := syscall_submit s (sqt s - lh s)) in *. clearbody s1.
    inv_destruct HI1. rewrite Epp1 in *. unfold Inv; proj.
    splits; try assumption; intros; discriminate.
  - (* PEnterFlags *)
    pose proof (Inv_syscall_submit s 0 HI) as HI1.
    pose proof (syscall_submit_pp s 0) as Epp1. rewrite Epp in Epp1.
    set (s1 := syscall_submit s 0) in *. clearbody s1.
    inv_destruct HI1. rewrite Epp1 in *. unfold Inv; proj.
    splits; try assumption; intros; discriminate.
  - (* PInKernel *)
    assert (HI1 : Inv (match md s with KernelThread => consume_all s | _ => s end))
      by (destruct (md s); [exact HI|exact HI|apply Inv_consume; exact HI]).
    assert (Epp1 : pp (match md s with KernelThread => consume_all s | _ => s end) = PInKernel)
      by (destruct (md s); exact Epp).
    set (s1 := match md s with KernelThread => consume_all s | _ => s end) in *. clearbody s1.
    inv_destruct HI1. rewrite Epp1 in *.
    destruct (0 <? cq s1); [|destruct (psub s =? 0)]; unfold Inv; proj;
      splits; try assumption; intros; discriminate.
Qed.

Lemma Inv_step s e : Inv s -> ev_ok s e -> Inv (fst (step s e)).
Proof.
  intros HI Hok. destruct e as [|i| | |].
  - apply Inv_pstep; exact HI.
  - apply Inv_wstep; exact HI.
  - apply Inv_stuck; assumption.
  - apply Inv_pintr; exact HI.
  - apply Inv_timeout; assumption.
Qed.

Lemma Inv_init m c prefill nparked npolls tm wcalls : Inv (init m c prefill nparked npolls tm wcalls).
Proof.
  unfold Inv, init; proj. splits; try reflexivity; try lia; intros; discriminate.
Qed.

(** Invariant lifting along valid schedules. *)
Lemma run_valid_invariant (I : st -> Prop) :
  (forall s e, I s -> ev_ok s e -> I (fst (step s e))) ->
  forall es s, valid s es -> I s -> I (fst (run step s es)).
Proof.
  intros Hstep es; induction es as [|e es IH]; intros s Hv Hs; cbn [run]; [exact Hs|].
  inversion Hv as [|s0 e0 es0 Hok Hv']; subst.
  specialize (Hstep s e Hs Hok). specialize (IH _ Hv' Hstep).
  destruct (step s e) as [s1 o1]. cbn [fst] in *.
  destruct (run step s1 es) as [s2 o2]. exact IH.
Qed.

Lemma run_Inv m c prefill nparked npolls tm wcalls es :
  valid (init m c prefill nparked npolls tm wcalls) es ->
  Inv (fst (run step (init m c prefill nparked npolls tm wcalls) es)).
Proof. intros Hv. apply (run_valid_invariant Inv Inv_step); [exact Hv|apply Inv_init]. Qed.

(** ** The second invariant *)
Ltac inv2_destruct H := destruct H as (Hle & Hlh & Hwl & Hsub).

Lemma Inv2_consume_some s k : Inv2 s -> Inv2 (consume s k).
Proof.
  intros HI. inv2_destruct HI. unfold Inv2; proj.
  set (k' := N.min k (sqt s - sqh s)) in *.
  assert (Hk : k' <= sqt s - sqh s) by (unfold k'; lia).
  set (o := N.min k' (sqo s)) in *.
  assert (Ho : o <= k' /\ o <= sqo s /\ (o = k' \/ o = sqo s)) by (unfold o; lia).
  splits; try lia.
  - eapply Forall_impl; [|exact Hwl]. cbv beta. intros; lia.
  - intros H. apply Hsub. lia.
Qed.

(** Submitting at least what is pending empties the submission queue. *)
Lemma consume_all_drains s k : sqh s + sqo s <= sqt s -> sqt s - sqh s <= k ->
  sqh (consume s k) = sqt (consume s k).
Proof. intros H1 H2. proj. lia. Qed.

Lemma Inv2_syscall_submit s k : Inv2 s -> Inv2 (syscall_submit s k).
Proof.
  intros HI. unfold syscall_submit, consume_all. destruct (md s); apply Inv2_consume_some; exact HI.
Qed.

(** A syscall with [to_submit] computed from an old head: nothing stays pending (in the
    kernel-thread mode the kernel thread has taken everything anyway). *)
Lemma syscall_submit_drains s v :
  sqh s + sqo s <= sqt s -> v <= sqh s ->
  sqh (syscall_submit s (sqt s - v)) = sqt (syscall_submit s (sqt s - v)).
Proof.
  intros H1 H2. unfold syscall_submit, consume_all.
  destruct (md s); apply consume_all_drains; lia.
Qed.

Lemma Inv2_enter_wait s n : Inv2 s -> Inv2 (enter_wait s n).
Proof.
  intros HI. unfold enter_wait.
  destruct (0 <? cq s); [|destruct (aw s); [destruct (0 <? n)|]]; exact HI.
Qed.

Lemma Inv2_pstep s : Inv2 s -> Inv2 (pstep s).
Proof.
  intros HI. unfold pstep. destruct (pp s) eqn:Epp;
    try exact HI;
    try (destruct (sq_full s (lh s)); exact HI);
    try (destruct (parked s =? 0); exact HI);
    try (inv2_destruct HI; unfold Inv2; proj; splits; try assumption; lia).
  - destruct (polls s); exact HI.
  - destruct (0 <? cq s); exact HI.
  - apply Inv2_enter_wait, Inv2_syscall_submit; exact HI.
  - apply Inv2_enter_wait, Inv2_syscall_submit; exact HI.
  - assert (HI1 : Inv2 (match md s with KernelThread => consume_all s | _ => s end))
      by (destruct (md s); [exact HI|exact HI|apply Inv2_consume_some; exact HI]).
    destruct (0 <? cq _); exact HI1.
Qed.

Lemma Inv2_waker_local s s' i w w' :
  Inv2 s -> nth_error (wakers s) i = Some w ->
  md s' = md s -> sqh s' = sqh s -> sqt s' = sqt s -> sqo s' = sqo s -> lh s' = lh s ->
  (wlh s' = wlh s \/ wlh s' = firstn i (wlh s) ++ sqh s :: skipn (S i) (wlh s)) ->
  wakers s' = firstn i (wakers s) ++ w' :: skipn (S i) (wakers s) ->
  (submitter w = true -> submitter w' = true) ->
  Inv2 s'.
Proof.
  intros HI Hi E1 E2 E3 E0 E4 E5 E6 Hc. inv2_destruct HI.
  unfold Inv2. rewrite E1, E2, E3, E0, E4, E6. splits; try assumption.
  - destruct E5 as [->| ->]; [exact Hwl|]. apply Forall_upd; [exact Hwl|lia].
  - intros A. destruct (Hsub A) as [H|H]; [left; exact H|right].
    apply (some_waker_upd submitter _ i w w'); assumption.
Qed.

(** The waker's side condition of [Inv2_waker_local]. *)
Ltac sm Epc :=
  unfold submitter; rewrite ?Epc; unfold after_wbf;
  repeat match goal with |- context [if wok ?w then _ else _] => destruct (wok w) end;
  cbn [at_pc at_pc_ok call_done wp wok];
  intros; try assumption; try reflexivity; try discriminate.
Ltac wl2 s i w w' Epc :=
  apply (Inv2_waker_local s _ i w w');
    try reflexivity; try assumption; try (left; reflexivity); try (right; reflexivity); sm Epc.

Lemma Inv2_wstep s i : Inv2 s -> Inv2 (wstep s i).
Proof.
  intros HI. unfold wstep.
  destruct (nth_error (wakers s) i) as [w|] eqn:Hi; [|exact HI].
  assert (Hil : (i < length (wakers s))%nat) by (apply nth_error_Some; congruence).
  destruct (wp w) eqn:Epc.
  - (* WIdle *)
    destruct (calls w); [exact HI|].
    destruct (pstate s =? IS_POLLING).
    + assert (Hgen : forall s', md s' = md s -> sqh s' = sqh s -> sqt s' = sqt s ->
                sqo s' = sqo s -> lh s' = lh s -> wlh s' = wlh s ->
                (exists w', wakers s' = firstn i (wakers s) ++ w' :: skipn (S i) (wakers s)) ->
                Inv2 s').
      { intros s' E1 E2 E3 E0 E4 E5 (w' & E6).
        apply (Inv2_waker_local s s' i w w'); try assumption; [left; exact E5|].
        unfold submitter at 1. rewrite Epc. discriminate. }
      destruct (md s); apply Hgen; try reflexivity; eexists; reflexivity.
    + wl2 s i w (call_done w) Epc.
  - (* WAddH1 *) wl2 s i w (at_pc w WAddT1) Epc.
  - (* WAddT1 *)
    destruct (sq_full s (nth i (wlh s) 0)).
    + wl2 s i w (at_pc_ok w (match md s with KernelThread => WEnterFlags | _ => WEnterH end) false) Epc.
    + wl2 s i w (at_pc w WAddLock) Epc.
  - destruct (holder s).
    + wl2 s i w (at_pc w WAddSpin) Epc.
    + wl2 s i w (at_pc w WAddH2) Epc.
  - destruct (holder s).
    + wl2 s i w (at_pc w WAddSpin) Epc.
    + wl2 s i w (at_pc w WAddH2) Epc.
  - (* WAddH2 *) wl2 s i w (at_pc w WAddT2) Epc.
  - (* WAddT2 *)
    destruct (sq_full s (nth i (wlh s) 0)).
    + wl2 s i w (at_pc_ok w (match md s with KernelThread => WEnterFlags | _ => WEnterH end) false) Epc.
    + wl2 s i w (at_pc w WAddFill) Epc.
  - (* WAddFill *) wl2 s i w (at_pc w WAddStore) Epc.
  - (* WAddStore: publishes; in the default mode the publisher is the submitter *)
    inv2_destruct HI. unfold Inv2; proj. splits; try assumption; try lia.
    intros _. destruct (md s) eqn:Emd.
    + right. apply some_waker_self; [exact Hil|reflexivity].
    + right. apply some_waker_self; [exact Hil|reflexivity].
    + left. reflexivity.
  - (* WEnterH: loads the head, after its own store *)
    wl2 s i w (at_pc w WEnterT) Epc.
  - (* WEnterT: submits everything published *)
    assert (Hv : nth i (wlh s) 0 <= sqh s).
    { inv2_destruct HI. apply (Forall_nth_default (fun v => v <= sqh s)); [exact Hwl|lia]. }
    pose proof (syscall_submit_drains s _ (proj1 HI) Hv) as Hd.
    pose proof (Inv2_syscall_submit s (sqt s - nth i (wlh s) 0) HI) as HI1.
    set (s1 := syscall_submit s (sqt s - nth i (wlh s) 0)) in *.
    assert (Hw1 : wakers s1 = wakers s) by apply syscall_submit_wakers. clearbody s1.
    inv2_destruct HI1. unfold Inv2; proj. splits; try assumption. intros A. lia.
  - (* WEnterFlags *)
    apply (Inv2_waker_local (syscall_submit s 0) _ i w (at_pc w WWbH)); try reflexivity.
    + apply Inv2_syscall_submit; exact HI.
    + rewrite syscall_submit_wakers. exact Hi.
    + left; reflexivity.
    + sm Epc.
  - (* WWbH *) wl2 s i w (at_pc w WWbT) Epc.
  - (* WWbT *)
    destruct (sq_full s (nth i (wlh s) 0)).
    + wl2 s i w (after_wbf w) Epc.
    + wl2 s i w (at_pc w (WWbTry (wbf_available s (nth i (wlh s) 0)))) Epc.
  - (* WWbTry *)
    destruct (parked s =? 0).
    + wl2 s i w (after_wbf w) Epc.
    + wl2 s i w (at_pc w (WWbLock (wbf_rest avail (parked s)) (wbf_left avail (parked s)))) Epc.
  - (* WWbLock *)
    wl2 s i w (after_wbf w) Epc.
Qed.

Lemma Inv2_set_p s p : Inv2 s -> Inv2 (set_p s p).
Proof. intros HI. exact HI. Qed.

Lemma Inv2_pintr s : Inv2 s -> Inv2 (pintr s).
Proof.
  intros HI. unfold pintr. destruct (pp s) eqn:Epp; try (apply Inv2_pstep; exact HI).
  - apply Inv2_set_p, Inv2_syscall_submit; exact HI.
  - apply Inv2_set_p, Inv2_syscall_submit; exact HI.
  - assert (HI1 : Inv2 (match md s with KernelThread => consume_all s | _ => s end))
      by (destruct (md s); [exact HI|exact HI|apply Inv2_consume_some; exact HI]).
    destruct (0 <? cq _); [|destruct (psub s =? 0)]; exact HI1.
Qed.

Lemma Inv2_step s e : Inv2 s -> Inv2 (fst (step s e)).
Proof.
  intros HI. destruct e as [|i| | |]; cbn [step fst].
  - apply Inv2_pstep; exact HI.
  - apply Inv2_wstep; exact HI.
  - destruct (pp s); exact HI.
  - apply Inv2_pintr; exact HI.
  - destruct (pp s); try exact HI. destruct (timed s); exact HI.
Qed.

Lemma Inv2_init m c prefill nparked npolls tm wcalls : Inv2 (init m c prefill nparked npolls tm wcalls).
Proof.
  unfold Inv2, init; proj. splits; try lia.
  apply Forall_forall. intros v Hin. apply in_map_iff in Hin. destruct Hin as (x & <- & _). lia.
Qed.

Lemma run_Inv2 m c prefill nparked npolls tm wcalls es :
  Inv2 (fst (run step (init m c prefill nparked npolls tm wcalls) es)).
Proof. apply (run_invariant step Inv2 Inv2_step). apply Inv2_init. Qed.

(** ** The statements *)
Lemma no_lost_ring_wakeup_holds : no_lost_ring_wakeup.
Proof.
  intros m c prefill nparked npolls tm wcalls es Hv.
  pose proof (run_Inv m c prefill nparked npolls tm wcalls es Hv) as HI.
  inv_destruct HI. exact Hlost.
Qed.

Lemma committed_not_idle l :
  some_waker committed l -> exists i w, nth_error l i = Some w /\ wp w <> WIdle.
Proof.
  intros (i & w & Hi & Hc). exists i, w. split; [exact Hi|]. intros E.
  unfold committed in Hc. rewrite E in Hc. discriminate Hc.
Qed.

Lemma wake_is_on_its_way_holds : wake_is_on_its_way.
Proof.
  intros m c prefill nparked npolls tm wcalls es Hv. cbv zeta. intros Epp Ho.
  pose proof (run_Inv m c prefill nparked npolls tm wcalls es Hv) as HI.
  destruct (Inv_blocked_owed _ HI Epp Ho) as [H|[H|H]]; [left; exact H|right; left; lia|].
  right; right. apply committed_not_idle. exact H.
Qed.

Lemma awoken_bit_makes_next_poll_prompt_holds : awoken_bit_makes_next_poll_prompt.
Proof.
  intros s Epp Hb. cbv zeta. unfold pstep. rewrite Epp. proj. split; [exact Hb|reflexivity].
Qed.

Lemma pending_message_has_a_submitter_holds : pending_message_has_a_submitter.
Proof.
  intros m c prefill nparked npolls tm wcalls es. cbv zeta. intros Hlt.
  pose proof (run_Inv2 m c prefill nparked npolls tm wcalls es) as HI. inv2_destruct HI.
  destruct (Hsub Hlt) as [H|(i & w & Hi & Hw)]; [left; exact H|right].
  exists i, w. split; [exact Hi|]. unfold submitter in Hw.
  destruct (wp w); try discriminate Hw; auto.
Qed.

Lemma owed_poller_is_resumable_or_a_waker_is_running_holds :
  owed_poller_is_resumable_or_a_waker_is_running.
Proof.
  intros m c prefill nparked npolls tm wcalls es Hv. cbv zeta. intros Epp Ho.
  pose proof (run_Inv m c prefill nparked npolls tm wcalls es Hv) as HI.
  destruct (Inv_blocked_owed _ HI Epp Ho) as [H|[H|H]];
    [left; exact H| |right; right; apply committed_not_idle; exact H].
  destruct (pending_message_has_a_submitter_holds m c prefill nparked npolls tm wcalls es H)
    as [Hm|(i & w & Hi & Hw)].
  - right; left. split; assumption.
  - right; right. exists i, w. split; [exact Hi|]. destruct Hw as [E|E]; rewrite E; discriminate.
Qed.

(** ** Executable validity check (for the examples) *)
Definition in_kernelb (p : ppc) : bool := match p with PInKernel => true | _ => false end.

Definition waker_finished (w : waker) : bool :=
  match wp w, calls w with WIdle, O => true | _, _ => false end.

Definition ev_okb (s : st) (e : ev) : bool :=
  match e with
  | P => negb (in_kernelb (pp s))
         || (0 <? cq s)
         || (match md s with KernelThread => true | _ => false end && (sqh s <? sqt s))
  | W i => Nat.ltb i (length (wakers s))
  | Stuck => in_kernelb (pp s) && (cq s =? 0) && (sqh s =? sqt s)
             && forallb waker_finished (wakers s)
  | PI => true
  | Timeout => in_kernelb (pp s) && timed s && (cq s =? 0) && (sqh s =? sqt s)
               && forallb waker_finished (wakers s)
  end.

Fixpoint validb (s : st) (es : list ev) : bool :=
  match es with
  | [] => true
  | e :: r => ev_okb s e && validb (fst (step s e)) r
  end.

Lemma in_kernelb_eq p : in_kernelb p = true <-> p = PInKernel.
Proof. destruct p; cbn; split; intros H; try reflexivity; discriminate H. Qed.

Lemma all_wakers_finished_b s :
  forallb waker_finished (wakers s) = true -> all_wakers_finished s.
Proof.
  intros H. unfold all_wakers_finished. apply Forall_forall. intros w Hin.
  rewrite forallb_forall in H. specialize (H w Hin). unfold waker_finished in H.
  destruct (wp w); try discriminate H. destruct (calls w); [auto|discriminate H].
Qed.

Lemma ev_okb_sound s e : ev_okb s e = true -> ev_ok s e.
Proof.
  destruct e as [|i| | |]; cbn [ev_okb ev_ok]; intros H; [| | |exact I|].
  - intros Epp. rewrite Epp in H. cbn [in_kernelb negb orb] in H.
    apply orb_true_iff in H. destruct H as [H|H]; [left; apply N.ltb_lt; exact H|].
    apply andb_true_iff in H. destruct H as [H1 H2]. right.
    split; [destruct (md s); try discriminate H1; reflexivity|apply N.ltb_lt; exact H2].
  - apply Nat.ltb_lt. exact H.
  - apply andb_true_iff in H. destruct H as [H H4].
    apply andb_true_iff in H. destruct H as [H H3].
    apply andb_true_iff in H. destruct H as [H1 H2].
    split; [apply in_kernelb_eq; exact H1|]. split; [apply N.eqb_eq; exact H2|].
    split; [apply N.eqb_eq; exact H3|apply all_wakers_finished_b; exact H4].
  - apply andb_true_iff in H. destruct H as [H H4].
    apply andb_true_iff in H. destruct H as [H H3].
    apply andb_true_iff in H. destruct H as [H H2].
    apply andb_true_iff in H. destruct H as [H1 H0].
    split; [apply in_kernelb_eq; exact H1|]. split; [exact H0|]. split; [apply N.eqb_eq; exact H2|].
    split; [apply N.eqb_eq; exact H3|apply all_wakers_finished_b; exact H4].
Qed.

Lemma validb_sound es : forall s, validb s es = true -> valid s es.
Proof.
  induction es as [|e es IH]; intros s H; [constructor|].
  cbn [validb] in H. apply andb_true_iff in H. destruct H as [H1 H2].
  constructor; [apply ev_okb_sound; exact H1|apply IH; exact H2].
Qed.

(** ** Non-vacuity: in each mode a valid schedule in which the poller blocks, a waker's
    [fetch_or] sees "polling, not awoken", the waker posts, and the poll returns. *)

(** Default mode: the waker publishes a MSG_RING submission and enters; the kernel posts two
    completions (message + the sender's own). *)
Definition wake_schedule_default : list ev :=
  [P; P; P; P; P]                                       (* the poll blocks in enter *)
  ++ [W 0]                                              (* fetch_or: 01 -> 11, committed *)
  ++ [W 0; W 0; W 0; W 0; W 0; W 0; W 0]                (* add: loads, lock, re-loads, fill, store *)
  ++ [W 0; W 0]                                         (* enter: load head, load tail + syscall *)
  ++ [P]                                                (* the blocked enter returns *)
  ++ [W 0; W 0; W 0]                                    (* the waker's wake_blocked_futures *)
  ++ [P; P; P; P; P; P]                                 (* wbf, swap(NOT_POLLING), reload, store head *)
  ++ [P; P; P].                                         (* wake_blocked_futures at the end; returns *)

(** Kernel-thread mode: the waker only publishes; the kernel thread consumes and the blocked
    poller is resumed although the waker has not called [enter] yet. *)
Definition wake_schedule_kthread : list ev :=
  [P; P; P; P]
  ++ [W 0]
  ++ [W 0; W 0; W 0; W 0; W 0; W 0; W 0]
  ++ [P]
  ++ [W 0; W 0; W 0; W 0]
  ++ [P; P; P; P; P; P] ++ [P; P; P].

(** Single issuer: the message is posted synchronously inside the step of the [fetch_or]. *)
Definition wake_schedule_single : list ev :=
  [P; P; P; P; P] ++ [W 0] ++ [P] ++ [P; P; P; P; P; P] ++ [P; P; P].

(** The examples below use a queue of 8 entries, empty at the start. *)
Definition blocked_then_woken (m : mode) (es : list ev) (nblock : nat) : Prop :=
  valid (init m 8 0 0 1 [] [1%nat]) es
  /\ (let s := fst (run step (init m 8 0 0 1 [] [1%nat]) (firstn nblock es)) in
      pp s = PInKernel /\ pstate s = IS_POLLING /\ cq s = 0 /\ owed s = false)
  /\ (let s := fst (run step (init m 8 0 0 1 [] [1%nat]) (firstn (S nblock) es)) in
      pp s = PInKernel /\ pstate s = N.lor IS_POLLING IS_AWOKEN /\ owed s = true
      /\ (0 < cq s \/ exists w, nth_error (wakers s) 0 = Some w /\ wp w = WAddH1))
  /\ (let s := fst (run step (init m 8 0 0 1 [] [1%nat]) es) in
      pp s = PIdle /\ polls s = O /\ pstate s = NOT_POLLING /\ owed s = false
      /\ lost s = false /\ all_wakers_finished s).

Ltac example_tac :=
  unfold blocked_then_woken; cbv zeta; split; [apply validb_sound; vm_compute; reflexivity|];
  split; [vm_compute; repeat split; reflexivity|];
  split; [|vm_compute; repeat split; try reflexivity; repeat constructor].

Example wake_example_default : blocked_then_woken Default wake_schedule_default 5.
Proof.
  example_tac. vm_compute. repeat split; try reflexivity.
  right. eexists. split; reflexivity.
Qed.

Example wake_example_kthread : blocked_then_woken KernelThread wake_schedule_kthread 4.
Proof.
  example_tac. vm_compute. repeat split; try reflexivity.
  right. eexists. split; reflexivity.
Qed.

Example wake_example_single : blocked_then_woken SingleIssuer wake_schedule_single 5.
Proof.
  example_tac. vm_compute. repeat split; try reflexivity. left. reflexivity.
Qed.

(** The submission queue is full at the [fetch_or] (one entry, taken by an unrelated operation
    that nobody has submitted yet): the waker's first [add] fails at the pre-check; its [enter]
    flushes the queue; the poller blocks meanwhile (owed, nothing in either queue: the waker
    between the failed [add] and the retry is what is "on its way"); the retry publishes the
    message, the waker's second [enter] submits it and the blocked poll returns. With the retry
    loop of [Submissions::wake] cut to one attempt the waker would be finished at event 13 and
    the wake-up lost. *)
Definition wake_schedule_queue_full : list ev :=
  [P; P; P]                                             (* set_polling(true) done *)
  ++ [W 0]                                              (* fetch_or: 01 -> 11, committed *)
  ++ [W 0; W 0]                                         (* add: load head, load tail: full, fails *)
  ++ [W 0; W 0]                                         (* enter: flushes the other entry *)
  ++ [P; P]                                             (* the poll's enter: nothing there, blocks *)
  ++ [W 0; W 0; W 0]                                    (* wake_blocked_futures; add had failed: retry *)
  ++ [W 0; W 0; W 0; W 0; W 0; W 0; W 0]                (* add: this time publishes the message *)
  ++ [W 0; W 0]                                         (* enter: the kernel posts the completions *)
  ++ [P]                                                (* the blocked enter returns *)
  ++ [W 0; W 0; W 0]                                    (* the call is done *)
  ++ [P; P; P; P; P; P; P; P; P].                       (* the poll returns *)

Example wake_example_queue_full :
  let s0 := init Default 1 1 0 1 [] [1%nat] in
  let at_ n := fst (run step s0 (firstn n wake_schedule_queue_full)) in
  valid s0 wake_schedule_queue_full
  /\ (let s := at_ 4%nat in
      pstate s = N.lor IS_POLLING IS_AWOKEN /\ owed s = true /\ sqt s - sqh s = cap s
      /\ nth_error (wakers s) 0 = Some {| wp := WAddH1; calls := 1; wok := false |})
  /\ (let s := at_ 6%nat in
      nth_error (wakers s) 0 = Some {| wp := WEnterH; calls := 1; wok := false |})
  /\ (let s := at_ 8%nat in
      sqh s = sqt s /\ cq s = 0
      /\ nth_error (wakers s) 0 = Some {| wp := WWbH; calls := 1; wok := false |})
  /\ (let s := at_ 10%nat in
      pp s = PInKernel /\ owed s = true /\ cq s = 0 /\ sqh s = sqt s
      /\ nth_error (wakers s) 0 = Some {| wp := WWbH; calls := 1; wok := false |})
  /\ (let s := at_ 13%nat in
      pp s = PInKernel
      /\ nth_error (wakers s) 0 = Some {| wp := WAddH1; calls := 1; wok := false |})
  /\ (let s := at_ 20%nat in
      pp s = PInKernel /\ sqt s = sqh s + 1 /\ sqo s = 0 /\ cq s = 0
      /\ nth_error (wakers s) 0 = Some {| wp := WEnterH; calls := 1; wok := true |})
  /\ (let s := at_ 22%nat in pp s = PInKernel /\ cq s = 2 /\ sqh s = sqt s)
  /\ (let s := fst (run step s0 wake_schedule_queue_full) in
      pp s = PIdle /\ polls s = O /\ pstate s = NOT_POLLING /\ owed s = false
      /\ lost s = false /\ all_wakers_finished s).
Proof.
  cbv zeta. split; [apply validb_sound; vm_compute; reflexivity|].
  repeat match goal with |- _ /\ _ => split end;
    try (vm_compute; reflexivity).
  apply all_wakers_finished_b. vm_compute. reflexivity.
Qed.

(** ** Why "in progress" is read at API level.
    Under the stricter reading "a wake targets a poll that is *inside the kernel*, else the next
    one to start", the following schedule would be a lost wake-up: the first poll blocks; waker
    0's [fetch_or] sees 01 (-> 11) and it posts; the poller's [enter] returns; waker 1's
    [fetch_or] sees 11 and returns at once — the poller is out of the kernel, so by the strict
    reading this wake targets the *next* poll; the poller clears both bits and returns; the next
    poll blocks, with an empty completion queue and every waker finished, for ever. By the
    API-level reading waker 1's target is the first poll (called, not yet returned), which did
    return after waker 1's call: nothing is owed, no producer is stranded. The model's ghost
    [owed] follows the API-level reading; the schedule is recorded here, not raised as a
    violation. *)
Definition strict_schedule : list ev :=
  [P; P; P; P; P]                                       (* poll 1 blocks *)
  ++ [W 0; W 0; W 0; W 0; W 0; W 0; W 0; W 0; W 0; W 0] (* waker 0: 01 -> 11, posts, enters *)
  ++ [P]                                                (* poll 1's enter returns *)
  ++ [W 1]                                              (* waker 1: fetch_or at 11, returns at once *)
  ++ [P; P; P; P; P; P; P; P; P]                        (* poll 1 clears both bits, returns *)
  ++ [W 0; W 0; W 0]                                    (* waker 0 finishes *)
  ++ [P; P; P; P; P].                                   (* poll 2 blocks *)

Lemma strict_target_reading_refuted :
  exists es,
    valid (init Default 8 0 0 2 [] [1%nat; 1%nat]) es
    /\ (* waker 1's fetch_or: poll 1 is in progress but no longer inside the kernel; the bit is
          already set; the call returns at once *)
       (let s := fst (run step (init Default 8 0 0 2 [] [1%nat; 1%nat]) (firstn 16 es)) in
        nth_error es 16 = Some (W 1)
        /\ pp s = PWbH /\ polls s = 2%nat /\ pstate s = N.lor IS_POLLING IS_AWOKEN
        /\ nth_error (wakers s) 1 = Some {| wp := WIdle; calls := 1; wok := false |}
        /\ nth_error (wakers (wstep s 1)) 1 = Some {| wp := WIdle; calls := 0; wok := false |})
    /\ (* the end: the second poll is blocked with nothing to wake it, and the scheduler may
          report it stuck; nothing is owed by the API-level reading *)
       (let s := fst (run step (init Default 8 0 0 2 [] [1%nat; 1%nat]) es) in
        pp s = PInKernel /\ polls s = 1%nat /\ cq s = 0 /\ sqh s = sqt s
        /\ all_wakers_finished s /\ ev_ok s Stuck
        /\ owed s = false /\ lost s = false
        /\ lost (fst (step s Stuck)) = false).
Proof.
  exists strict_schedule. cbv zeta.
  split; [apply validb_sound; vm_compute; reflexivity|].
  split; [vm_compute; repeat split; reflexivity|].
  assert (Hfin : all_wakers_finished
                   (fst (run step (init Default 8 0 0 2 [] [1%nat; 1%nat]) strict_schedule)))
    by (apply all_wakers_finished_b; vm_compute; reflexivity).
  split; [vm_compute; reflexivity|]. split; [vm_compute; reflexivity|].
  split; [vm_compute; reflexivity|]. split; [vm_compute; reflexivity|].
  split; [exact Hfin|].
  split; [|repeat split; vm_compute; reflexivity].
  split; [vm_compute; reflexivity|]. split; [vm_compute; reflexivity|].
  split; [vm_compute; reflexivity|exact Hfin].
Qed.

(** ** The poller's [io_uring_enter] interrupted by a signal (EINTR) *)

(** Poller steps (upper bound) from a point after [enter] to the return of the poll in
    progress. [None]: the points before and inside [enter] (in particular [PInKernel]). *)
Definition ret_dist (p : ppc) : option nat :=
  match p with
  | PWbH => Some 11%nat | PWbT => Some 10%nat | PWbTry _ => Some 9%nat | PWbLock _ _ => Some 8%nat
  | PClearPolling | PClearPollingIntr => Some 7%nat
  | PLoadCqT2 => Some 6%nat | PStoreHead => Some 5%nat
  | PEndWbH => Some 4%nat | PEndWbT => Some 3%nat | PEndWbTry _ => Some 2%nat | PEndWbLock _ _ => Some 1%nat
  | _ => None
  end.

Definition is_poller_ev (e : ev) : bool := match e with P | PI => true | _ => false end.
Definition poller_events (es : list ev) : nat := length (filter is_poller_ev es).

(** An interrupted enter makes the poll return. Whatever the state [s] in which the poller is at
    (or blocked inside) its [io_uring_enter] and whatever follows the interruption ([es]: any
    events at all — waker steps, further signals; no validity assumed): the poll in progress
    has returned ([polls] went down), or the poller is on the straight way to the return — past
    [enter], not blocked, at most [11 - (poller steps made)] poller steps away (7 when the call
    failed with EINTR; 11 when a blocked call that had submitted something, or that finds a
    completion by now, reports success and runs [wake_blocked_futures] first; each
    [wake_blocked_futures] is at most 4 steps: two loads, the try_lock, and — when futures are
    parked and a slot is free — the second lock). After 11 poller steps the poll has returned,
    having cleared what was owed. *)
Definition interrupted_enter_makes_poll_return : Prop :=
  forall s n es,
    (pp s = PEnterT \/ pp s = PEnterFlags \/ pp s = PInKernel) -> polls s = S n ->
    let s0 := fst (step s PI) in
    ((pp s = PEnterT \/ pp s = PEnterFlags) -> pp s0 = PClearPollingIntr /\ polls s0 = S n)
    /\ (let s1 := fst (run step s0 es) in
        (polls s1 <= n)%nat
        \/ (polls s1 = S n /\ pp s1 <> PInKernel
            /\ exists d, ret_dist (pp s1) = Some d /\ (d + poller_events es <= 11)%nat)).

(** ... and when it returns nothing is owed any more (the ghost is cleared by the return only). *)
Definition poll_return_clears_owed : Prop :=
  forall s e, polls (fst (step s e)) <> polls s -> owed (fst (step s e)) = false.

Lemma run_cons_fst {S E O : Type} (stp : S -> E -> S * list O) s e es :
  fst (run stp s (e :: es)) = fst (run stp (fst (stp s e)) es).
Proof.
  cbn [run]. destruct (stp s e) as [s1 o1]. cbn [fst]. destruct (run stp s1 es); reflexivity.
Qed.

(** Waker steps touch neither the poller's pc nor its poll count. *)
Lemma wstep_pp_polls s i : pp (wstep s i) = pp s /\ polls (wstep s i) = polls s.
Proof.
  unfold wstep. destruct (nth_error (wakers s) i) as [w|]; [|split; reflexivity].
  destruct (wp w);
    repeat match goal with
           | |- context [match ?x with _ => _ end] => destruct x
           | |- context [if ?x then _ else _] => destruct x
           end;
    try (split; reflexivity);
    unfold set_w; cbn [pp polls]; try rewrite syscall_submit_pp; split; try reflexivity;
    unfold syscall_submit, consume_all; destruct (md s); reflexivity.
Qed.

Lemma enter_wait_polls s k : polls (enter_wait s k) = polls s.
Proof.
  unfold enter_wait. destruct (0 <? cq s); [|destruct (aw s); [destruct (0 <? k)|]]; reflexivity.
Qed.

Lemma syscall_submit_polls s k : polls (syscall_submit s k) = polls s.
Proof. unfold syscall_submit, consume_all. destruct (md s); reflexivity. Qed.

Lemma pstep_polls_le s : (polls (pstep s) <= polls s)%nat.
Proof.
  unfold pstep. destruct (pp s);
    try (rewrite enter_wait_polls, syscall_submit_polls; lia);
    repeat match goal with
           | |- context [match polls ?s with _ => _ end] => destruct (polls s) eqn:?
           | |- context [if ?x then _ else _] => destruct x
           | |- context [match md ?s with _ => _ end] => destruct (md s)
           end;
    cbn [polls set_p set_lh set_parked wbf_putback clear_polling poll_return after_enter_ok consume_all consume]; lia.
Qed.

Lemma pintr_polls_le s : (polls (pintr s) <= polls s)%nat.
Proof.
  unfold pintr. destruct (pp s) eqn:Epp; try apply pstep_polls_le.
  - cbn [polls set_p]. rewrite syscall_submit_polls. lia.
  - cbn [polls set_p]. rewrite syscall_submit_polls. lia.
  - destruct (md s); destruct (0 <? cq _); try destruct (psub s =? 0);
      cbn [polls after_enter_ok set_p consume_all consume]; lia.
Qed.

Lemma step_polls_le s e : (polls (fst (step s e)) <= polls s)%nat.
Proof.
  destruct e as [|i| | |]; cbn [step fst].
  - apply pstep_polls_le.
  - destruct (wstep_pp_polls s i) as [_ E]. rewrite E. lia.
  - destruct (pp s); try lia. unfold pstuck. cbn [polls]. lia.
  - apply pintr_polls_le.
  - destruct (pp s); try lia. destruct (timed s); try lia. unfold ptimeout, pstuck. cbn [polls]. lia.
Qed.

Lemma run_polls_le es : forall s, (polls (fst (run step s es)) <= polls s)%nat.
Proof.
  induction es as [|e es IH]; intros s; [cbn [run fst]; lia|].
  rewrite run_cons_fst. specialize (IH (fst (step s e))). pose proof (step_polls_le s e). lia.
Qed.

(** One poller step on the way out: the poll returns, or the distance shrinks. *)
Lemma pstep_ret_dist s n d :
  polls s = S n -> ret_dist (pp s) = Some d ->
  polls (pstep s) = n
  \/ (polls (pstep s) = S n /\ exists d', ret_dist (pp (pstep s)) = Some d' /\ (S d' <= d)%nat).
Proof.
  intros Hn Hd. unfold pstep. destruct (pp s); try discriminate Hd;
    injection Hd as <-;
    repeat match goal with
           | |- context [if ?x then _ else _] => destruct x
           end;
    cbn [polls pp set_p set_lh set_parked wbf_putback clear_polling poll_return ret_dist];
    first [ left; rewrite Hn; reflexivity
          | right; split; [exact Hn|]; eexists; split; [reflexivity|lia] ].
Qed.

Lemma pintr_is_pstep_after_enter s d : ret_dist (pp s) = Some d -> pintr s = pstep s.
Proof. intros Hd. unfold pintr. destruct (pp s); try discriminate Hd; reflexivity. Qed.

Lemma way_out_returns n es : forall s d,
  polls s = S n -> ret_dist (pp s) = Some d ->
  let s1 := fst (run step s es) in
  (polls s1 <= n)%nat
  \/ (polls s1 = S n /\ exists d', ret_dist (pp s1) = Some d' /\ (d' + poller_events es <= d)%nat).
Proof.
  induction es as [|e es IH]; intros s d Hn Hd; cbv zeta.
  - right. cbn [run fst]. split; [exact Hn|]. exists d. split; [exact Hd|unfold poller_events; cbn [filter length]; lia].
  - rewrite run_cons_fst.
    assert (Hp : forall s', (s' = pstep s) -> is_poller_ev e = true ->
              fst (step s e) = s' ->
              (polls (fst (run step (fst (step s e)) es)) <= n)%nat
              \/ (polls (fst (run step (fst (step s e)) es)) = S n
                  /\ exists d', ret_dist (pp (fst (run step (fst (step s e)) es))) = Some d'
                                /\ (d' + poller_events (e :: es) <= d)%nat)).
    { intros s' -> He Hs. rewrite Hs. unfold poller_events. cbn [filter]. rewrite He. cbn [length].
      destruct (pstep_ret_dist s n d Hn Hd) as [Hr|(Hn' & d' & Hd' & Hle)].
      - left. pose proof (run_polls_le es (pstep s)). lia.
      - destruct (IH (pstep s) d' Hn' Hd') as [H|(H1 & d'' & H2 & H3)]; [left; exact H|right].
        split; [exact H1|]. exists d''. split; [exact H2|]. unfold poller_events in H3. lia. }
    destruct e as [|i| | |].
    + apply (Hp (pstep s)); reflexivity.
    + cbn [step fst]. destruct (wstep_pp_polls s i) as [E1 E2].
      rewrite <- E2 in Hn. rewrite <- E1 in Hd.
      destruct (IH (wstep s i) d Hn Hd) as [H|(H1 & d' & H2 & H3)]; [left; exact H|right].
      split; [exact H1|]. exists d'. split; [exact H2|exact H3].
    + assert (Es : fst (step s Stuck) = s)
        by (cbn [step fst]; destruct (pp s); try reflexivity; discriminate Hd).
      rewrite Es.
      destruct (IH s d Hn Hd) as [H|(H1 & d' & H2 & H3)]; [left; exact H|right].
      split; [exact H1|]. exists d'. split; [exact H2|exact H3].
    + apply (Hp (pstep s)); try reflexivity.
      cbn [step fst]. apply (pintr_is_pstep_after_enter s d Hd).
    + assert (Es : fst (step s Timeout) = s)
        by (cbn [step fst]; destruct (pp s); try reflexivity; discriminate Hd).
      rewrite Es.
      destruct (IH s d Hn Hd) as [H|(H1 & d' & H2 & H3)]; [left; exact H|right].
      split; [exact H1|]. exists d'. split; [exact H2|exact H3].
Qed.

Lemma interrupted_enter_makes_poll_return_holds : interrupted_enter_makes_poll_return.
Proof.
  intros s n es Hpc Hn. cbv zeta. cbn [step fst].
  assert (Hd : exists d, ret_dist (pp (pintr s)) = Some d /\ (d <= 11)%nat /\ polls (pintr s) = S n).
  { unfold pintr. destruct Hpc as [E|[E|E]]; rewrite E.
    - exists 7%nat. cbn [pp polls set_p ret_dist]. rewrite syscall_submit_polls. repeat split; [lia|exact Hn].
    - exists 7%nat. cbn [pp polls set_p ret_dist]. rewrite syscall_submit_polls. repeat split; [lia|exact Hn].
    - assert (Hn1 : polls (match md s with KernelThread => consume_all s | _ => s end) = S n)
        by (destruct (md s); exact Hn).
      set (s1 := match md s with KernelThread => consume_all s | _ => s end) in *. clearbody s1.
      destruct (0 <? cq s1); [|destruct (psub s =? 0)]; cbn [pp polls after_enter_ok set_p ret_dist].
      + exists 11%nat. repeat split; [lia|exact Hn1].
      + exists 7%nat. repeat split; [lia|exact Hn1].
      + exists 11%nat. repeat split; [lia|exact Hn1]. }
  split.
  - intros [E|E]; unfold pintr; rewrite E; cbn [pp polls set_p]; rewrite syscall_submit_polls;
      split; [reflexivity|exact Hn|reflexivity|exact Hn].
  - destruct Hd as (d & Hd & Hle & Hn').
    destruct (way_out_returns n es (pintr s) d Hn' Hd) as [H|(H1 & d' & H2 & H3)]; [left; exact H|right].
    split; [exact H1|]. split; [intros E; rewrite E in H2; discriminate H2|].
    exists d'. split; [exact H2|lia].
Qed.

Lemma pstep_return_clears_owed s : polls (pstep s) <> polls s -> owed (pstep s) = false.
Proof.
  unfold pstep. destruct (pp s);
    try (rewrite enter_wait_polls, syscall_submit_polls; intros H; exfalso; apply H; reflexivity);
    repeat match goal with
           | |- context [match polls ?s with _ => _ end] => destruct (polls s) eqn:?
           | |- context [if ?x then _ else _] => destruct x
           | |- context [match md ?s with _ => _ end] => destruct (md s)
           end;
    cbn [polls owed set_p set_lh set_parked wbf_putback clear_polling poll_return after_enter_ok consume_all consume];
    try reflexivity; intros H; exfalso; apply H; congruence.
Qed.

Lemma poll_return_clears_owed_holds : poll_return_clears_owed.
Proof.
  intros s e. destruct e as [|i| | |]; cbn [step fst]; [| | | |destruct (timed s)].
  - apply pstep_return_clears_owed.
  - destruct (wstep_pp_polls s i) as [_ E]. rewrite E. intros H; exfalso; apply H; reflexivity.
  - destruct (pp s); intros H; exfalso; apply H; reflexivity.
  - unfold pintr. destruct (pp s) eqn:Epp; try apply pstep_return_clears_owed.
    + cbn [polls set_p]. rewrite syscall_submit_polls. intros H; exfalso; apply H; reflexivity.
    + cbn [polls set_p]. rewrite syscall_submit_polls. intros H; exfalso; apply H; reflexivity.
    + destruct (md s); destruct (0 <? cq _); try destruct (psub s =? 0);
        cbn [polls after_enter_ok set_p consume_all consume]; intros H; exfalso; apply H; reflexivity.
  - destruct (pp s); intros H; exfalso; apply H; reflexivity.
  - destruct (pp s); intros H; exfalso; apply H; reflexivity.
Qed.

(** ** Non-vacuity of the interrupted enter, and what a retrying poll would lose *)

(** A wake() before the poll (nobody polling: only the awoken bit is set, no message), then the
    poll; its first [io_uring_enter] (zero timeout: [set_polling(true)] reported "awoken") is
    interrupted. *)
Definition eintr_schedule : list ev :=
  [W 0]                                                 (* fetch_or: 00 -> 10; the call is done *)
  ++ [P; P; P; P]                                       (* loads, set_polling(true): awoken; load SQ head *)
  ++ [PI]                                               (* load SQ tail + io_uring_enter: EINTR *)
  ++ [P; P; P; P; P; P].                                (* the code as it is: swap(NOT_POLLING), reload, store head,
                                                           end-of-poll wake_blocked_futures, return *)

(** The code as it is: the poll returns, nothing is owed. In each mode. *)
Definition interrupted_then_returns (m : mode) : Prop :=
  valid (init m 8 0 0 1 [] [1%nat]) eintr_schedule
  /\ (let s := fst (run step (init m 8 0 0 1 [] [1%nat]) (firstn 5 eintr_schedule)) in
      (pp s = PEnterT \/ pp s = PEnterFlags) /\ aw s = true /\ owed s = true
      /\ pstate s = IS_POLLING /\ cq s = 0 /\ all_wakers_finished s)
  /\ (let s := fst (run step (init m 8 0 0 1 [] [1%nat]) (firstn 6 eintr_schedule)) in
      pp s = PClearPollingIntr /\ owed s = true)
  /\ (let s := fst (run step (init m 8 0 0 1 [] [1%nat]) eintr_schedule) in
      pp s = PIdle /\ polls s = O /\ pstate s = NOT_POLLING /\ owed s = false /\ lost s = false).

(** Kernel-thread mode has one load less before the call (flags instead of head + tail). *)
Definition eintr_schedule_kthread : list ev :=
  [W 0] ++ [P; P; P] ++ [PI] ++ [P; P; P; P; P; P].

Example eintr_example_default : interrupted_then_returns Default.
Proof.
  unfold interrupted_then_returns. cbv zeta.
  split; [apply validb_sound; vm_compute; reflexivity|].
  split; [split; [left; vm_compute; reflexivity|]; repeat split; try (vm_compute; reflexivity);
          apply all_wakers_finished_b; vm_compute; reflexivity|].
  split; vm_compute; repeat split; reflexivity.
Qed.

Example eintr_example_single : interrupted_then_returns SingleIssuer.
Proof.
  unfold interrupted_then_returns. cbv zeta.
  split; [apply validb_sound; vm_compute; reflexivity|].
  split; [split; [left; vm_compute; reflexivity|]; repeat split; try (vm_compute; reflexivity);
          apply all_wakers_finished_b; vm_compute; reflexivity|].
  split; vm_compute; repeat split; reflexivity.
Qed.

Example eintr_example_kthread :
  valid (init KernelThread 8 0 0 1 [] [1%nat]) eintr_schedule_kthread
  /\ (let s := fst (run step (init KernelThread 8 0 0 1 [] [1%nat]) (firstn 4 eintr_schedule_kthread)) in
      pp s = PEnterFlags /\ aw s = true /\ owed s = true /\ pstate s = IS_POLLING /\ cq s = 0)
  /\ (let s := fst (run step (init KernelThread 8 0 0 1 [] [1%nat]) eintr_schedule_kthread) in
      pp s = PIdle /\ polls s = O /\ pstate s = NOT_POLLING /\ owed s = false /\ lost s = false).
Proof.
  cbv zeta. split; [apply validb_sound; vm_compute; reflexivity|].
  split; vm_compute; repeat split; reflexivity.
Qed.

(** A signal while the poll is blocked, nothing owed: the poll returns as well (and the next one
    blocks again: nobody wakes it, nothing is owed, the scheduler may report it stuck). *)
Example eintr_example_blocked :
  let s0 := init Default 8 0 0 2 [] [] in
  let es := [P; P; P; P; P] ++ [PI] ++ [P; P; P; P; P; P] ++ [P; P; P; P; P] ++ [Stuck] in
  valid s0 es
  /\ (let s := fst (run step s0 (firstn 5 es)) in pp s = PInKernel /\ psub s = 0 /\ polls s = 2%nat)
  /\ (let s := fst (run step s0 (firstn 6 es)) in pp s = PClearPollingIntr)
  /\ (let s := fst (run step s0 (firstn 12 es)) in pp s = PIdle /\ polls s = 1%nat)
  /\ (let s := fst (run step s0 es) in polls s = 1%nat /\ owed s = false /\ lost s = false).
Proof.
  cbv zeta. split; [apply validb_sound; vm_compute; reflexivity|].
  repeat split; vm_compute; reflexivity.
Qed.

(** Validity of a schedule for the retrying variant (same [ev_ok]). *)
Inductive valid_loop : st -> list ev -> Prop :=
  | valid_loop_nil s : valid_loop s []
  | valid_loop_cons s e es : ev_ok s e -> valid_loop (fst (step_loop s e)) es -> valid_loop s (e :: es).

Fixpoint valid_loopb (s : st) (es : list ev) : bool :=
  match es with
  | [] => true
  | e :: r => ev_okb s e && valid_loopb (fst (step_loop s e)) r
  end.

Lemma valid_loopb_sound es : forall s, valid_loopb s es = true -> valid_loop s es.
Proof.
  induction es as [|e es IH]; intros s H; [constructor|].
  cbn [valid_loopb] in H. apply andb_true_iff in H. destruct H as [H1 H2].
  constructor; [apply ev_okb_sound; exact H1|apply IH; exact H2].
Qed.

(** The same beginning; the retrying poll runs [set_polling(true)] again (not awoken any more: the
    first swap consumed the bit), enters without a timeout and blocks. *)
Definition eintr_retry_schedule : list ev :=
  [W 0] ++ [P; P; P; P] ++ [PI]
  ++ [P]                                                (* swap(NOT_POLLING) ... and around again *)
  ++ [P; P; P].                                         (* set_polling(true): not awoken; head; tail + enter: blocks *)

(** Refuted for a poll that waits again after EINTR (seeded change C11-e; NOT the code as it
    is): a valid interleaving — one wake() before the only poll, the poll's first enter
    interrupted — after which the poller is blocked with both queues empty, every waker finished
    and the wake-up still owed (no poll has returned since the wake): the scheduler's "stuck" is
    admissible and the wake-up is lost. The code as it is returns on the same events
    ([eintr_example_default]). *)
Definition eintr_retry_loses_wakeup : Prop :=
  exists es,
    valid_loop (init Default 8 0 0 1 [] [1%nat]) es
    /\ nth_error es 0 = Some (W 0) /\ nth_error es 5 = Some PI
    /\ (let s := fst (run step_loop (init Default 8 0 0 1 [] [1%nat]) (firstn 5 es)) in
        pp s = PEnterT /\ aw s = true /\ owed s = true)
    /\ (let s := fst (run step_loop (init Default 8 0 0 1 [] [1%nat]) es) in
        pp s = PInKernel /\ polls s = 1%nat /\ aw s = false /\ pstate s = IS_POLLING
        /\ cq s = 0 /\ sqh s = sqt s /\ all_wakers_finished s
        /\ owed s = true /\ ev_ok s Stuck
        /\ lost (fst (step_loop s Stuck)) = true).

Lemma eintr_retry_loses_wakeup_refuted : eintr_retry_loses_wakeup.
Proof.
  exists eintr_retry_schedule. cbv zeta.
  split; [apply valid_loopb_sound; vm_compute; reflexivity|].
  split; [reflexivity|]. split; [reflexivity|].
  split; [vm_compute; repeat split; reflexivity|].
  assert (Hfin : all_wakers_finished
                   (fst (run step_loop (init Default 8 0 0 1 [] [1%nat]) eintr_retry_schedule)))
    by (apply all_wakers_finished_b; vm_compute; reflexivity).
  split; [vm_compute; reflexivity|]. split; [vm_compute; reflexivity|].
  split; [vm_compute; reflexivity|]. split; [vm_compute; reflexivity|].
  split; [vm_compute; reflexivity|]. split; [vm_compute; reflexivity|].
  split; [exact Hfin|]. split; [vm_compute; reflexivity|].
  split; [|vm_compute; reflexivity].
  split; [vm_compute; reflexivity|]. split; [vm_compute; reflexivity|].
  split; [vm_compute; reflexivity|exact Hfin].
Qed.

(** ** Futures parked on the blocked-futures list *)

(** Non-vacuity: a queue of 2 entries, full of unrelated operations, 3 futures parked. The poll
    submits the two operations and blocks; the waker's [fetch_or] sees "polling, not awoken", it
    publishes the message and enters; its [wake_blocked_futures] finds 2 slots: it takes the 3
    wakers, wakes 2, locks again and puts 1 back. The blocked poll returns; its own
    [wake_blocked_futures] takes the last waker, wakes it, locks again with nothing to put back;
    at the end of the poll the list is empty. *)
Definition parked_schedule : list ev :=
  [P; P; P; P; P]                                       (* the poll submits what is queued and blocks *)
  ++ [W 0]                                              (* fetch_or: 01 -> 11, committed *)
  ++ [W 0; W 0; W 0; W 0; W 0; W 0; W 0]                (* add *)
  ++ [W 0; W 0]                                         (* enter: the kernel posts the completions *)
  ++ [W 0; W 0; W 0; W 0]                               (* loads (2 available); try_lock: takes 3, wakes 2; lock: 1 back *)
  ++ [P]                                                (* the blocked enter returns *)
  ++ [P; P; P; P]                                       (* loads; try_lock: takes 1, wakes it; lock: nothing to put back *)
  ++ [P; P; P]                                          (* swap(NOT_POLLING), reload, store head *)
  ++ [P; P; P].                                         (* loads; try_lock: the list is empty; the poll returns *)

Example parked_example :
  let s0 := init Default 2 2 3 1 [] [1%nat] in
  let at_ n := fst (run step s0 (firstn n parked_schedule)) in
  valid s0 parked_schedule
  /\ (let s := at_ 5%nat in
      pp s = PInKernel /\ parked s = 3 /\ psub s = 2 /\ sqh s = sqt s /\ cq s = 0)
  /\ (let s := at_ 17%nat in
      parked s = 3 /\ cq s = 2
      /\ nth_error (wakers s) 0 = Some {| wp := WWbTry 2; calls := 1; wok := true |})
  /\ (let s := at_ 18%nat in
      parked s = 0 /\ nth_error (wakers s) 0 = Some {| wp := WWbLock 1 0; calls := 1; wok := true |})
  /\ (let s := at_ 19%nat in
      parked s = 1 /\ nth_error (wakers s) 0 = Some {| wp := WIdle; calls := 0; wok := false |})
  /\ (let s := at_ 23%nat in pp s = PWbLock 0 1 /\ parked s = 0)
  /\ (let s := fst (run step s0 parked_schedule) in
      pp s = PIdle /\ polls s = O /\ pstate s = NOT_POLLING /\ parked s = 0 /\ owed s = false
      /\ lost s = false /\ all_wakers_finished s).
Proof.
  cbv zeta. split; [apply validb_sound; vm_compute; reflexivity|].
  repeat match goal with |- _ /\ _ => split end;
    try (vm_compute; reflexivity).
  apply all_wakers_finished_b. vm_compute. reflexivity.
Qed.

(** Validity of a schedule for the variant with the HAS_WAITING bit (same [ev_ok]). *)
Inductive valid_hw : st -> list ev -> Prop :=
  | valid_hw_nil s : valid_hw s []
  | valid_hw_cons s e es : ev_ok s e -> valid_hw (fst (step_hw s e)) es -> valid_hw s (e :: es).

Fixpoint valid_hwb (s : st) (es : list ev) : bool :=
  match es with
  | [] => true
  | e :: r => ev_okb s e && valid_hwb (fst (step_hw s e)) r
  end.

Lemma valid_hwb_sound es : forall s, valid_hwb s es = true -> valid_hw s es.
Proof.
  induction es as [|e es IH]; intros s H; [constructor|].
  cbn [valid_hwb] in H. apply andb_true_iff in H. destruct H as [H1 H2].
  constructor; [apply ev_okb_sound; exact H1|apply IH; exact H2].
Qed.

(** One future parked (queue of 2 entries, full); the poll submits the two operations and
    blocks; then one [wake()]. *)
Definition has_waiting_schedule : list ev :=
  [P; P; P; P; P]                                       (* set_polling(true): 100 -> 101; enter submits 2, blocks *)
  ++ [W 0].                                             (* fetch_or: 101 -> 111; 101 <> IS_POLLING: no message *)

(** Refuted for the state word with a third bit HAS_WAITING kept by [set_polling] while
    [PollingState::wake] still compares the whole word with [IS_POLLING] (seeded change C11-h;
    NOT the code as it is): a valid interleaving with one parked future after which the poller is
    blocked with both queues empty, every waker finished and the wake-up owed: the scheduler's
    "stuck" is admissible and the wake-up is lost. On the same events the code as it is has the
    waker committed to post its message (and then [no_lost_ring_wakeup] applies). *)
Definition has_waiting_bit_loses_wakeup : Prop :=
  exists es,
    valid_hw (init_hw Default 2 2 1 1 [] [1%nat]) es
    /\ nth_error es 5 = Some (W 0)
    /\ (let s := fst (run step_hw (init_hw Default 2 2 1 1 [] [1%nat]) (firstn 5 es)) in
        pp s = PInKernel /\ pstate s = N.lor IS_POLLING HAS_WAITING /\ parked s = 1
        /\ cq s = 0 /\ sqh s = sqt s /\ owed s = false)
    /\ (let s := fst (run step_hw (init_hw Default 2 2 1 1 [] [1%nat]) es) in
        pp s = PInKernel /\ polls s = 1%nat /\ aw s = false
        /\ pstate s = N.lor (N.lor IS_POLLING HAS_WAITING) IS_AWOKEN /\ parked s = 1
        /\ cq s = 0 /\ sqh s = sqt s /\ all_wakers_finished s
        /\ owed s = true /\ ev_ok s Stuck
        /\ lost (fst (step_hw s Stuck)) = true)
    /\ valid (init Default 2 2 1 1 [] [1%nat]) es
    /\ (let s := fst (run step (init Default 2 2 1 1 [] [1%nat]) es) in
        pp s = PInKernel /\ pstate s = N.lor IS_POLLING IS_AWOKEN /\ owed s = true
        /\ nth_error (wakers s) 0 = Some {| wp := WAddH1; calls := 1; wok := false |}).

Lemma has_waiting_bit_loses_wakeup_refuted : has_waiting_bit_loses_wakeup.
Proof.
  exists has_waiting_schedule. cbv zeta.
  split; [apply valid_hwb_sound; vm_compute; reflexivity|].
  split; [reflexivity|].
  split; [vm_compute; repeat split; reflexivity|].
  assert (Hfin : all_wakers_finished
                   (fst (run step_hw (init_hw Default 2 2 1 1 [] [1%nat]) has_waiting_schedule)))
    by (apply all_wakers_finished_b; vm_compute; reflexivity).
  split.
  { split; [vm_compute; reflexivity|]. split; [vm_compute; reflexivity|].
    split; [vm_compute; reflexivity|]. split; [vm_compute; reflexivity|].
    split; [vm_compute; reflexivity|]. split; [vm_compute; reflexivity|].
    split; [vm_compute; reflexivity|]. split; [exact Hfin|].
    split; [vm_compute; reflexivity|].
    split; [|vm_compute; reflexivity].
    split; [vm_compute; reflexivity|]. split; [vm_compute; reflexivity|].
    split; [vm_compute; reflexivity|exact Hfin]. }
  split; [apply validb_sound; vm_compute; reflexivity|].
  vm_compute. repeat split; reflexivity.
Qed.

(** Without a parked future the variant behaves like the code as it is on the default wake
    schedule, up to the scheduling points its early out skips (the three loads/try_lock of each
    [wake_blocked_futures] are never reached): the poll returns. *)
Example has_waiting_nobody_parked :
  let es := [P; P; P; P; P] ++ [W 0] ++ [W 0; W 0; W 0; W 0; W 0; W 0; W 0] ++ [W 0; W 0]
            ++ [P] ++ [P; P; P] in
  valid_hw (init_hw Default 8 0 0 1 [] [1%nat]) es
  /\ (let s := fst (run step_hw (init_hw Default 8 0 0 1 [] [1%nat]) es) in
      pp s = PIdle /\ polls s = O /\ pstate s = NOT_POLLING /\ owed s = false /\ lost s = false
      /\ all_wakers_finished s).
Proof.
  cbv zeta. split; [apply valid_hwb_sound; vm_compute; reflexivity|].
  repeat match goal with |- _ /\ _ => split end; try (vm_compute; reflexivity).
  apply all_wakers_finished_b. vm_compute. reflexivity.
Qed.

(** ** Polls with a finite timeout *)

(** What the two scheduler reports mean for the property, as a statement of its own: on every
    schedule the scheduler / kernel can produce, whenever the blocked poller can be reported stuck
    (no timeout) or its timeout can expire (finite timeout) — nobody is left who could post
    anything — no wake-up is owed: no poll sleeps for ever, or through its whole timeout, while a
    wake-up is owed. *)
Definition expired_timeout_means_nothing_owed : Prop :=
  forall m c prefill nparked npolls tm wcalls es, valid (init m c prefill nparked npolls tm wcalls) es ->
    let s := fst (run step (init m c prefill nparked npolls tm wcalls) es) in
    ev_ok s Timeout \/ ev_ok s Stuck -> owed s = false.

Lemma expired_timeout_means_nothing_owed_holds : expired_timeout_means_nothing_owed.
Proof.
  intros m c prefill nparked npolls tm wcalls es Hv. cbv zeta.
  pose proof (run_Inv m c prefill nparked npolls tm wcalls es Hv) as HI.
  intros [(Epp & _ & Hcq & Hsq & Hall)|(Epp & Hcq & Hsq & Hall)]; apply Inv_nobody_left; assumption.
Qed.

(** An awoken poll does not wait, whatever timeout the caller passed: when [set_polling(true)]
    reported "awoken" the enter call (zero timeout) comes back at once — with a completion, with
    what it submitted, or with ETIME — and the poller is past its [enter]. *)
Definition awoken_poll_does_not_wait : Prop :=
  forall s, (pp s = PEnterT \/ pp s = PEnterFlags) -> aw s = true ->
    pp (pstep s) = PWbH \/ pp (pstep s) = PClearPolling.

Lemma syscall_submit_aw s k : aw (syscall_submit s k) = aw s.
Proof. unfold syscall_submit, consume_all. destruct (md s); reflexivity. Qed.

Lemma awoken_poll_does_not_wait_holds : awoken_poll_does_not_wait.
Proof.
  intros s Hpc Haw.
  assert (H : forall s1 n, aw s1 = true -> pp (enter_wait s1 n) = PWbH \/ pp (enter_wait s1 n) = PClearPolling).
  { intros s1 n H1. unfold enter_wait. rewrite H1.
    destruct (0 <? cq s1); [left; reflexivity|]. destruct (0 <? n); [left|right]; reflexivity. }
  unfold pstep. destruct Hpc as [E|E]; rewrite E; apply H; rewrite syscall_submit_aw; exact Haw.
Qed.

(** Non-vacuity: a poll with a finite timeout blocks, nothing is owed and nobody is there to wake
    it: its timeout expires and it returns; the next poll (no timeout) blocks for ever, nothing
    owed either. *)
Example timeout_example :
  let s0 := init Default 8 0 0 2 [true; false] [] in
  let es := [P; P; P; P; P] ++ [Timeout] ++ [P; P; P; P; P; P] ++ [P; P; P; P; P] ++ [Stuck] in
  valid s0 es
  /\ (let s := fst (run step s0 (firstn 5 es)) in
      pp s = PInKernel /\ timed s = true /\ polls s = 2%nat /\ ev_ok s Timeout /\ ~ ev_ok s P)
  /\ (let s := fst (run step s0 (firstn 6 es)) in pp s = PClearPolling)
  /\ (let s := fst (run step s0 (firstn 12 es)) in pp s = PIdle /\ polls s = 1%nat /\ timed s = false)
  /\ (let s := fst (run step s0 (firstn 17 es)) in pp s = PInKernel /\ timed s = false /\ ~ ev_ok s Timeout)
  /\ (let s := fst (run step s0 es) in polls s = 1%nat /\ owed s = false /\ lost s = false).
Proof.
  cbv zeta. split; [apply validb_sound; vm_compute; reflexivity|].
  split.
  { split; [vm_compute; reflexivity|]. split; [vm_compute; reflexivity|]. split; [vm_compute; reflexivity|].
    split; [apply (ev_okb_sound _ Timeout); vm_compute; reflexivity|].
    intros H. specialize (H ltac:(vm_compute; reflexivity)). vm_compute in H.
    destruct H as [H|[H _]]; discriminate H. }
  split; [vm_compute; reflexivity|].
  split; [vm_compute; repeat split; reflexivity|].
  split; [|vm_compute; repeat split; reflexivity].
  split; [vm_compute; reflexivity|]. split; [vm_compute; reflexivity|].
  intros (_ & H & _). vm_compute in H. discriminate H.
Qed.

(** A poll with a finite timeout that is blocked is woken like one without. *)
Example timed_wake_example :
  let s0 := init Default 8 0 0 1 [true] [1%nat] in
  valid s0 wake_schedule_default
  /\ (let s := fst (run step s0 (firstn 5 wake_schedule_default)) in pp s = PInKernel /\ timed s = true)
  /\ (let s := fst (run step s0 wake_schedule_default) in
      pp s = PIdle /\ polls s = O /\ owed s = false /\ lost s = false /\ all_wakers_finished s).
Proof.
  cbv zeta. split; [apply validb_sound; vm_compute; reflexivity|].
  split; [vm_compute; split; reflexivity|].
  repeat match goal with |- _ /\ _ => split end; try (vm_compute; reflexivity).
  apply all_wakers_finished_b. vm_compute. reflexivity.
Qed.

(** Validity of a schedule for the variant that keeps the caller's timeout (same [ev_ok]). *)
Inductive valid_or : st -> list ev -> Prop :=
  | valid_or_nil s : valid_or s []
  | valid_or_cons s e es : ev_ok s e -> valid_or (fst (step_or s e)) es -> valid_or s (e :: es).

Fixpoint valid_orb (s : st) (es : list ev) : bool :=
  match es with
  | [] => true
  | e :: r => ev_okb s e && valid_orb (fst (step_or s e)) r
  end.

Lemma valid_orb_sound es : forall s, valid_orb s es = true -> valid_or s es.
Proof.
  induction es as [|e es IH]; intros s H; [constructor|].
  cbn [valid_orb] in H. apply andb_true_iff in H. destruct H as [H1 H2].
  constructor; [apply ev_okb_sound; exact H1|apply IH; exact H2].
Qed.

(** One [wake()] before the only poll (nobody polling: only the awoken bit is set, no message),
    then the poll, called with a finite timeout. *)
Definition kept_timeout_schedule : list ev :=
  [W 0]                                                 (* fetch_or: 00 -> 10; the call is done *)
  ++ [P; P; P; P]                                       (* loads, set_polling(true): awoken; load SQ head *)
  ++ [P].                                               (* load SQ tail + io_uring_enter *)

(** Refuted for a poll that keeps the caller's [Some(t)] when awoken (seeded change C11-j; NOT the
    code as it is): a valid interleaving — one wake() before the only poll, which is called with a
    finite timeout — after which the poller is blocked ([aw] and all: the awoken bit was consumed
    by the swap) with both queues empty, every waker finished and the wake-up owed: the timeout
    expires ([Timeout] admissible) and the poll has slept through the wake-up. On the same events
    the code as it is comes back from its enter at once (ETIME of the zero timeout) and the poll
    returns; the variant is right too when the poll is called with [None]. *)
Definition kept_timeout_loses_wakeup : Prop :=
  exists es,
    valid_or (init Default 8 0 0 1 [true] [1%nat]) es
    /\ nth_error es 0 = Some (W 0)
    /\ (let s := fst (run step_or (init Default 8 0 0 1 [true] [1%nat]) (firstn 5 es)) in
        pp s = PEnterT /\ aw s = true /\ timed s = true /\ owed s = true /\ pstate s = IS_POLLING)
    /\ (let s := fst (run step_or (init Default 8 0 0 1 [true] [1%nat]) es) in
        pp s = PInKernel /\ polls s = 1%nat /\ aw s = true /\ timed s = true /\ pstate s = IS_POLLING
        /\ cq s = 0 /\ sqh s = sqt s /\ all_wakers_finished s
        /\ owed s = true /\ ev_ok s Timeout
        /\ lost (fst (step_or s Timeout)) = true)
    /\ valid (init Default 8 0 0 1 [true] [1%nat]) es
    /\ (let s := fst (run step (init Default 8 0 0 1 [true] [1%nat]) es) in
        pp s = PClearPolling /\ owed s = true /\ lost s = false
        /\ (let s' := fst (run step s [P; P; P; P; P; P]) in
            pp s' = PIdle /\ polls s' = O /\ owed s' = false /\ lost s' = false))
    /\ (let s := fst (run step_or (init Default 8 0 0 1 [false] [1%nat]) es) in
        pp s = PClearPolling /\ lost s = false).

Lemma kept_timeout_loses_wakeup_refuted : kept_timeout_loses_wakeup.
Proof.
  exists kept_timeout_schedule. cbv zeta.
  split; [apply valid_orb_sound; vm_compute; reflexivity|].
  split; [reflexivity|].
  split; [vm_compute; repeat split; reflexivity|].
  assert (Hfin : all_wakers_finished
                   (fst (run step_or (init Default 8 0 0 1 [true] [1%nat]) kept_timeout_schedule)))
    by (apply all_wakers_finished_b; vm_compute; reflexivity).
  split.
  { split; [vm_compute; reflexivity|]. split; [vm_compute; reflexivity|].
    split; [vm_compute; reflexivity|]. split; [vm_compute; reflexivity|].
    split; [vm_compute; reflexivity|]. split; [vm_compute; reflexivity|].
    split; [vm_compute; reflexivity|]. split; [exact Hfin|].
    split; [vm_compute; reflexivity|].
    split; [|vm_compute; reflexivity].
    split; [vm_compute; reflexivity|]. split; [vm_compute; reflexivity|].
    split; [vm_compute; reflexivity|]. split; [vm_compute; reflexivity|exact Hfin]. }
  split; [apply validb_sound; vm_compute; reflexivity|].
  split; vm_compute; repeat split; reflexivity.
Qed.

(** ** The single-issuer ring and who may enter it *)

(** Validity of a schedule for the variant whose wakers enter a single-issuer ring (same [ev_ok]). *)
Inductive valid_nsi : st -> list ev -> Prop :=
  | valid_nsi_nil s : valid_nsi s []
  | valid_nsi_cons s e es : ev_ok s e -> valid_nsi (fst (step_nsi s e)) es -> valid_nsi s (e :: es).

Fixpoint valid_nsib (s : st) (es : list ev) : bool :=
  match es with
  | [] => true
  | e :: r => ev_okb s e && valid_nsib (fst (step_nsi s e)) r
  end.

Lemma valid_nsib_sound es : forall s, valid_nsib s es = true -> valid_nsi s es.
Proof.
  induction es as [|e es IH]; intros s H; [constructor|].
  cbn [valid_nsib] in H. apply andb_true_iff in H. destruct H as [H1 H2].
  constructor; [apply ev_okb_sound; exact H1|apply IH; exact H2].
Qed.

(** The poll blocks; then one [wake()] that takes the ordinary path. *)
Definition refused_enter_schedule : list ev :=
  [P; P; P; P; P]                                       (* the poll blocks in enter *)
  ++ [W 0]                                              (* fetch_or: 01 -> 11 *)
  ++ [W 0; W 0; W 0; W 0; W 0; W 0; W 0]                (* add: the MSG_RING entry is published *)
  ++ [W 0; W 0].                                        (* enter: load head; load tail + syscall: EEXIST *)

(** Refuted for a [Submissions::wake] that takes the ordinary path (add + enter from the waking
    thread) on a single-issuer ring (seeded change C11-i; NOT the code as it is): a valid
    interleaving after which the poller is blocked with an empty completion queue, every waker
    finished — so that, there being no kernel thread, nobody is left who will ever enter the kernel:
    the scheduler's report — the wake message published but never submitted, and the wake-up owed:
    it is lost. On the same events the code as it is has posted the message synchronously at the
    [fetch_or] (the further waker events find the waker finished and change nothing): the blocked
    poller can be resumed. *)
Definition refused_enter_loses_wakeup : Prop :=
  exists es,
    valid_nsi (init SingleIssuer 8 0 0 1 [] [1%nat]) es
    /\ nth_error es 5 = Some (W 0)
    /\ (let s := fst (run step_nsi (init SingleIssuer 8 0 0 1 [] [1%nat]) (firstn 5 es)) in
        pp s = PInKernel /\ pstate s = IS_POLLING /\ cq s = 0 /\ owed s = false)
    /\ (let s := fst (run step_nsi (init SingleIssuer 8 0 0 1 [] [1%nat]) (firstn 14 es)) in
        sqt s = sqh s + 1
        /\ nth_error (wakers s) 0 = Some {| wp := WEnterT; calls := 1; wok := true |})
    /\ (let s := fst (run step_nsi (init SingleIssuer 8 0 0 1 [] [1%nat]) es) in
        pp s = PInKernel /\ polls s = 1%nat /\ md s = SingleIssuer
        /\ pstate s = N.lor IS_POLLING IS_AWOKEN
        /\ cq s = 0 /\ sqt s = sqh s + 1 /\ sqo s = 0 /\ all_wakers_finished s
        /\ owed s = true /\ ~ ev_ok s P
        /\ lost (fst (step_nsi s Stuck)) = true)
    /\ valid (init SingleIssuer 8 0 0 1 [] [1%nat]) es
    /\ (let s := fst (run step (init SingleIssuer 8 0 0 1 [] [1%nat]) es) in
        pp s = PInKernel /\ cq s = 1 /\ sqh s = sqt s /\ owed s = true /\ ev_ok s P
        /\ all_wakers_finished s).

Lemma refused_enter_loses_wakeup_refuted : refused_enter_loses_wakeup.
Proof.
  exists refused_enter_schedule. cbv zeta.
  split; [apply valid_nsib_sound; vm_compute; reflexivity|].
  split; [reflexivity|].
  split; [vm_compute; repeat split; reflexivity|].
  split; [vm_compute; repeat split; reflexivity|].
  split.
  { split; [vm_compute; reflexivity|]. split; [vm_compute; reflexivity|].
    split; [vm_compute; reflexivity|]. split; [vm_compute; reflexivity|].
    split; [vm_compute; reflexivity|]. split; [vm_compute; reflexivity|].
    split; [vm_compute; reflexivity|].
    split; [apply all_wakers_finished_b; vm_compute; reflexivity|].
    split; [vm_compute; reflexivity|].
    split; [|vm_compute; reflexivity].
    intros H. specialize (H ltac:(vm_compute; reflexivity)). vm_compute in H.
    destruct H as [H|[H _]]; discriminate H. }
  split; [apply validb_sound; vm_compute; reflexivity|].
  split; [vm_compute; reflexivity|]. split; [vm_compute; reflexivity|].
  split; [vm_compute; reflexivity|]. split; [vm_compute; reflexivity|].
  split; [apply (ev_okb_sound _ P); vm_compute; reflexivity|].
  apply all_wakers_finished_b. vm_compute. reflexivity.
Qed.

(** Proofs about Model/OpState.v, part 1: counting lemmas, validity of histories, the
    structural invariant [Inv] of reachable states (properties C01, C06 build on it). *)
From A10 Require Import Base.Word Base.Run Model.OpState.
From Coq Require Import ZifyN ZifyBool ZifyNat.
Ltac Zify.zify_post_hook ::= Z.div_mod_to_equations.
Local Open Scope nat_scope.

(** ** Counting occurrences *)

Definition cnt {A} (f : A -> bool) (l : list A) : nat := length (filter f l).

Lemma cnt_nil {A} (f : A -> bool) : cnt f [] = 0.
Proof. reflexivity. Qed.

Lemma cnt_cons {A} (f : A -> bool) x l : cnt f (x :: l) = (if f x then 1 else 0) + cnt f l.
Proof. unfold cnt; cbn [filter]. destruct (f x); reflexivity. Qed.

Lemma cnt_app {A} (f : A -> bool) l1 l2 : cnt f (l1 ++ l2) = cnt f l1 + cnt f l2.
Proof. unfold cnt. rewrite filter_app, app_length. reflexivity. Qed.

Lemma cnt_snoc {A} (f : A -> bool) l x : cnt f (l ++ [x]) = cnt f l + (if f x then 1 else 0).
Proof. rewrite cnt_app, cnt_cons, cnt_nil. lia. Qed.

Lemma cnt_pos_in {A} (f : A -> bool) l : cnt f l <> 0 <-> exists x, In x l /\ f x = true.
Proof.
  induction l as [|y l IH]; [rewrite cnt_nil; split; [congruence|intros (x & [] & _)]|].
  rewrite cnt_cons. split.
  - destruct (f y) eqn:E; [exists y; split; [left; reflexivity|exact E]|].
    intros H. destruct IH as [IH _]. destruct IH as (x & Hx & Hf); [lia|].
    exists x; split; [right; exact Hx|exact Hf].
  - intros (x & [->|Hx] & Hf); [rewrite Hf; lia|].
    destruct IH as [_ IH]. assert (cnt f l <> 0) by (apply IH; eauto). lia.
Qed.

Lemma cnt_zero_all {A} (f : A -> bool) l : cnt f l = 0 -> forall x, In x l -> f x = false.
Proof.
  intros H x Hx. destruct (f x) eqn:E; [|reflexivity].
  exfalso. apply (proj2 (cnt_pos_in f l)); eauto.
Qed.

Lemma cnt_le {A} (f g : A -> bool) l : (forall x, f x = true -> g x = true) -> cnt f l <= cnt g l.
Proof.
  intros H; induction l as [|x l IH]; [rewrite !cnt_nil; lia|]. rewrite !cnt_cons.
  specialize (H x). destruct (f x), (g x); try lia; specialize (H eq_refl); discriminate.
Qed.

Definition is_sub (i : nat) (e : sqe) : bool :=
  match e with Submit j => Nat.eqb j i | Cancel _ => false end.
Definition is_cq (i : nat) (e : option nat * cqe) : bool :=
  match fst e with Some j => Nat.eqb j i | None => false end.
Definition is_fin (i : nat) (e : option nat * cqe) : bool := is_cq i e && negb (more (snd e)).

(** Submissions of [i] queued, occurrences of [i] in flight, completions of [i] posted and not
    yet processed, and how many of those are final (no MORE). *)
Definition nsub (i : nat) (l : list sqe) : nat := cnt (is_sub i) l.
Definition ninfl (i : nat) (l : list nat) : nat := cnt (Nat.eqb i) l.
Definition ncq (i : nat) (l : list (option nat * cqe)) : nat := cnt (is_cq i) l.
Definition nfin (i : nat) (l : list (option nat * cqe)) : nat := cnt (is_fin i) l.

Lemma nfin_le_ncq i l : nfin i l <= ncq i l.
Proof. apply cnt_le. intros x. unfold is_fin. destruct (is_cq i x); [reflexivity|discriminate]. Qed.

Lemma nsub_in i l : In (Submit i) l <-> nsub i l <> 0.
Proof.
  unfold nsub. rewrite cnt_pos_in. split.
  - intros H; exists (Submit i); split; [exact H|]. cbn. apply Nat.eqb_refl.
  - intros ([j|j] & Hx & Hf); cbn in Hf; [|discriminate]. apply Nat.eqb_eq in Hf; subst. exact Hx.
Qed.

Lemma ninfl_in i l : In i l <-> ninfl i l <> 0.
Proof.
  unfold ninfl. rewrite cnt_pos_in. split.
  - intros H; exists i; split; [exact H|apply Nat.eqb_refl].
  - intros (j & Hx & Hf). apply Nat.eqb_eq in Hf; subst. exact Hx.
Qed.

Lemma ncq_in i l : (exists c, In (Some i, c) l) <-> ncq i l <> 0.
Proof.
  unfold ncq. rewrite cnt_pos_in. split.
  - intros (c & H). exists (Some i, c); split; [exact H|]. unfold is_cq; cbn. apply Nat.eqb_refl.
  - intros ([[j|] c] & Hx & Hf); unfold is_cq in Hf; cbn in Hf; [|discriminate].
    apply Nat.eqb_eq in Hf; subst. exists c; exact Hx.
Qed.

Lemma nfin_in i l : (exists c, In (Some i, c) l /\ more c = false) <-> nfin i l <> 0.
Proof.
  unfold nfin. rewrite cnt_pos_in. split.
  - intros (c & H & Hm). exists (Some i, c); split; [exact H|]. unfold is_fin, is_cq; cbn.
    rewrite Nat.eqb_refl, Hm. reflexivity.
  - intros ([[j|] c] & Hx & Hf); unfold is_fin, is_cq in Hf; cbn in Hf; [|discriminate].
    apply andb_true_iff in Hf. destruct Hf as [Hj Hm]. apply Nat.eqb_eq in Hj; subst.
    exists c; split; [exact Hx|]. destruct (more c); [discriminate|reflexivity].
Qed.

Lemma existsb_ninfl i l : existsb (Nat.eqb i) l = true <-> ninfl i l <> 0.
Proof.
  rewrite existsb_exists. unfold ninfl. rewrite cnt_pos_in. reflexivity.
Qed.

Lemma ninfl_remove_first_same i l : ninfl i l <> 0 -> ninfl i (remove_first i l) = ninfl i l - 1.
Proof.
  unfold ninfl. induction l as [|j l IH]; [rewrite cnt_nil; congruence|].
  cbn [remove_first]. rewrite cnt_cons. destruct (Nat.eqb i j) eqn:E; [lia|].
  intros H. rewrite cnt_cons, E. apply IH. lia.
Qed.

Lemma ninfl_remove_first_other i j l : j <> i -> ninfl j (remove_first i l) = ninfl j l.
Proof.
  intros Hji. unfold ninfl. induction l as [|k l IH]; [reflexivity|].
  cbn [remove_first]. destruct (Nat.eqb_spec i k) as [->|Hik].
  - rewrite cnt_cons. destruct (Nat.eqb_spec j k); [congruence|reflexivity].
  - rewrite !cnt_cons, IH. reflexivity.
Qed.

(** A final completion of [i] is the last completion of [i] in the queue. *)
Fixpoint fin_last (i : nat) (l : list (option nat * cqe)) : Prop :=
  match l with
  | [] => True
  | e :: r => (is_fin i e = true -> ncq i r = 0) /\ fin_last i r
  end.

Lemma fin_last_snoc_other i l e : is_cq i e = false -> fin_last i l -> fin_last i (l ++ [e]).
Proof.
  intros He. induction l as [|x l IH]; cbn [fin_last app].
  - intros _. split; [|exact I]. unfold is_fin. rewrite He. discriminate.
  - intros [H1 H2]. split; [|exact (IH H2)]. intros Hx. unfold ncq. rewrite cnt_snoc, He.
    specialize (H1 Hx). unfold ncq in H1. lia.
Qed.

Lemma fin_last_snoc_same i l e : nfin i l = 0 -> fin_last i l -> fin_last i (l ++ [e]).
Proof.
  induction l as [|x l IH]; cbn [fin_last app].
  - intros _ _. split; [|exact I]. intros _. reflexivity.
  - unfold nfin. rewrite cnt_cons. intros H0 [H1 H2]. destruct (is_fin i x) eqn:E; [lia|].
    split; [discriminate|]. apply IH; [exact H0|exact H2].
Qed.

(** ** Replacing one element of the operation table *)

Lemma nth_error_replace {A} (l : list A) i o j :
  i < length l ->
  nth_error (firstn i l ++ o :: skipn (S i) l) j = if Nat.eqb j i then Some o else nth_error l j.
Proof.
  revert i j; induction l as [|x l IH]; intros i j Hi; cbn [length] in Hi; [lia|].
  destruct i as [|i]; destruct j as [|j]; cbn [firstn skipn app nth_error Nat.eqb]; try reflexivity.
  apply IH. lia.
Qed.

Lemma length_replace {A} (l : list A) i o :
  i < length l -> length (firstn i l ++ o :: skipn (S i) l) = length l.
Proof.
  revert i; induction l as [|x l IH]; intros i Hi; cbn [length] in Hi; [lia|].
  destruct i as [|i]; cbn [firstn skipn app length]; [reflexivity|]. rewrite IH; lia.
Qed.

Lemma nth_error_lt {A} (l : list A) i o : nth_error l i = Some o -> i < length l.
Proof. intros H. apply nth_error_Some. congruence. Qed.

Lemma nth_error_set_op s i o j :
  i < length (ops s) ->
  nth_error (ops (set_op s i o)) j = if Nat.eqb j i then Some o else nth_error (ops s) j.
Proof. intros H. unfold set_op; cbn [ops]. apply nth_error_replace. exact H. Qed.

Lemma length_set_op s i o : i < length (ops s) -> length (ops (set_op s i o)) = length (ops s).
Proof. intros H. unfold set_op; cbn [ops]. apply length_replace. exact H. Qed.

(** ** Valid histories *)

Definition is_single (o : op) : bool := match kd o with Single => true | Multi => false end.
Definition is_dropped (o : op) : bool := match st o with Dropped => true | _ => false end.
Definition is_complete (o : op) : bool := match st o with Complete => true | _ => false end.

(** API usage and kernel behaviour the theorems quantify over: a future is polled only while it
    exists (not dropped) and, for a single-shot one, not after it resolved; it is dropped at
    most once; the kernel posts completions only for requests in flight, and a notification is
    the last completion of a single-shot request (K2). *)
Definition ev_ok (s : sys) (e : ev) : bool :=
  match e with
  | Poll i _ =>
      match nth_error (ops s) i with
      | Some o => negb (is_dropped o) && negb (freed o) && negb (is_single o && is_complete o)
      | None => false
      end
  | DropOp i =>
      match nth_error (ops s) i with
      | Some o => negb (is_dropped o) && negb (freed o)
      | None => false
      end
  | RingPoll => true
  | KPost i c =>
      existsb (Nat.eqb i) (inflight s)
      && match nth_error (ops s) i with
         | Some o => negb (is_single o && notif c && more c)
         | None => true
         end
  end.

Fixpoint valid (s : sys) (es : list ev) : Prop :=
  match es with
  | [] => True
  | e :: r => ev_ok s e = true /\ valid (fst (step s e)) r
  end.

Lemma valid_app s es1 es2 :
  valid s (es1 ++ es2) <-> valid s es1 /\ valid (fst (run step s es1)) es2.
Proof.
  revert s; induction es1 as [|e es1 IH]; intros s; cbn [app valid run fst]; [tauto|].
  destruct (step s e) as [s1 o1] eqn:E. cbn [fst]. rewrite IH.
  destruct (run step s1 es1) as [s2 o2]. cbn [fst]. tauto.
Qed.

(** Invariant lifting along valid histories. *)
Lemma run_valid_invariant (P : sys -> Prop) :
  (forall s e, P s -> ev_ok s e = true -> P (fst (step s e))) ->
  forall es s, P s -> valid s es -> P (fst (run step s es)).
Proof.
  intros Hstep es; induction es as [|e es IH]; intros s Hs Hv; cbn [run]; [exact Hs|].
  destruct Hv as [He Hv]. specialize (Hstep s e Hs He). destruct (step s e) as [s1 o1].
  cbn [fst] in *. specialize (IH s1 Hstep Hv). destruct (run step s1 es) as [s2 o2]. exact IH.
Qed.

(** ** The structural invariant *)

(** What may be queued / in flight / posted for an operation, by status: [ns] submissions in
    [sq], [ni] occurrences in [inflight], [nc] completions in [cq] of which [nf] final. *)
Definition op_inv (oo : option op) (ns ni nc nf : nat) : Prop :=
  match oo with
  | None => ns = 0 /\ ni = 0 /\ nc = 0
  | Some o =>
      match st o with
      | NotStarted | Done _ | Complete => ns = 0 /\ ni = 0 /\ nc = 0
      | Running _ => freed o = false /\ ns + ni + nf = 1 /\ (ns = 1 -> nc = 0)
      | Dropped =>
          if freed o then ns = 0 /\ ni = 0 /\ nc = 0
          else ns + ni + nf = 1 /\ (ns = 1 -> nc = 0)
      end
      /\ (freed o = false -> st o <> Complete -> res_live o = true)
  end.

Definition Inv (s : sys) : Prop :=
  (forall i, op_inv (nth_error (ops s) i) (nsub i (sq s)) (ninfl i (inflight s))
                    (ncq i (cq s)) (nfin i (cq s))
             /\ fin_last i (cq s))
  /\ (forall i, In (Cancel i) (sq s) -> exists o, nth_error (ops s) i = Some o /\ st o = Dropped).

Lemma Inv_init cap0 kinds : Inv (init cap0 kinds).
Proof.
  split; [|intros i []]. intros i. split; [|exact I]. cbn [init ops sq inflight cq].
  unfold nsub, ninfl, ncq, nfin. rewrite !cnt_nil.
  destruct (nth_error (map (fun '(k, c) => new_op k c) kinds) i) as [o|] eqn:E; [|cbn; auto].
  apply nth_error_In, in_map_iff in E. destruct E as ([k c] & <- & _). cbn. auto.
Qed.

(** Counting after an append. *)
Lemma nsub_snoc_submit j l i : nsub j (l ++ [Submit i]) = nsub j l + (if Nat.eqb i j then 1 else 0).
Proof. unfold nsub. rewrite cnt_snoc. reflexivity. Qed.
Lemma nsub_snoc_cancel j l i : nsub j (l ++ [Cancel i]) = nsub j l.
Proof. unfold nsub. rewrite cnt_snoc. cbn. lia. Qed.
Lemma ninfl_snoc j l i : ninfl j (l ++ [i]) = ninfl j l + (if Nat.eqb j i then 1 else 0).
Proof. unfold ninfl. rewrite cnt_snoc. reflexivity. Qed.
Lemma ncq_snoc j l e : ncq j (l ++ [e]) = ncq j l + (if is_cq j e then 1 else 0).
Proof. unfold ncq. rewrite cnt_snoc. reflexivity. Qed.
Lemma nfin_snoc j l e : nfin j (l ++ [e]) = nfin j l + (if is_fin j e then 1 else 0).
Proof. unfold nfin. rewrite cnt_snoc. reflexivity. Qed.

Lemma is_cq_some j i c : is_cq j (Some i, c) = Nat.eqb i j.
Proof. reflexivity. Qed.
Lemma is_cq_none j c : is_cq j (None, c) = false.
Proof. reflexivity. Qed.
Lemma is_fin_some j i c : is_fin j (Some i, c) = Nat.eqb i j && negb (more c).
Proof. reflexivity. Qed.
Lemma is_fin_none j c : is_fin j (None, c) = false.
Proof. reflexivity. Qed.

Lemma in_snoc {A} (x y : A) l : In x (l ++ [y]) <-> In x l \/ x = y.
Proof. rewrite in_app_iff. cbn. intuition congruence. Qed.

Lemma Inv_frame s s' :
  ops s' = ops s -> sq s' = sq s -> inflight s' = inflight s -> cq s' = cq s -> Inv s -> Inv s'.
Proof. intros E1 E2 E3 E4 H. unfold Inv. rewrite E1, E2, E3, E4. exact H. Qed.

(** Only operation [i] changes, and it still meets its obligations. *)
Lemma Inv_set_op s i o o' :
  Inv s -> nth_error (ops s) i = Some o ->
  op_inv (Some o') (nsub i (sq s)) (ninfl i (inflight s)) (ncq i (cq s)) (nfin i (cq s)) ->
  (st o = Dropped -> st o' = Dropped) ->
  Inv (set_op s i o').
Proof.
  intros [H1 H2] Hi Hcls Hd. pose proof (nth_error_lt _ _ _ Hi) as Hlt. split; intros j.
  - rewrite nth_error_set_op by exact Hlt. cbn [set_op sq inflight cq].
    destruct (H1 j) as [Ha Hb]. split; [|exact Hb].
    destruct (Nat.eqb_spec j i) as [->|Hji]; [exact Hcls|exact Ha].
  - rewrite nth_error_set_op by exact Hlt. cbn [set_op sq]. intros Hc.
    destruct (H2 j Hc) as (oj & Hj & Hs).
    destruct (Nat.eqb_spec j i) as [->|Hji]; [|eauto]. exists o'; split; [reflexivity|].
    apply Hd. congruence.
Qed.

Lemma Inv_op s i o :
  Inv s -> nth_error (ops s) i = Some o ->
  op_inv (Some o) (nsub i (sq s)) (ninfl i (inflight s)) (ncq i (cq s)) (nfin i (cq s)).
Proof. intros [H1 _] Hi. rewrite <- Hi. apply H1. Qed.

(** A fresh submission for an operation with nothing queued, in flight or posted. *)
Lemma Inv_submit s i o o' :
  Inv s -> nth_error (ops s) i = Some o ->
  nsub i (sq s) = 0 -> ninfl i (inflight s) = 0 -> ncq i (cq s) = 0 -> st o <> Dropped ->
  (exists rs, st o' = Running rs) -> freed o' = false -> res_live o' = true ->
  Inv (push_sq (set_op s i o') (Submit i)).
Proof.
  intros [H1 H2] Hi Hs Hf Hc Hnd (rs & Hr) Hfr Hrl.
  pose proof (nth_error_lt _ _ _ Hi) as Hlt. split; intros j.
  - cbn [push_sq ops sq inflight cq]. rewrite nth_error_set_op by exact Hlt.
    cbn [set_op sq inflight cq]. rewrite nsub_snoc_submit.
    destruct (H1 j) as [Ha Hb]. split; [|exact Hb].
    destruct (Nat.eqb_spec j i) as [->|Hji].
    + rewrite Nat.eqb_refl, Hs, Hf, Hc. pose proof (nfin_le_ncq i (cq s)).
      unfold op_inv. rewrite Hr. repeat split; auto; lia.
    + destruct (Nat.eqb_spec i j); [congruence|]. rewrite Nat.add_0_r. exact Ha.
  - cbn [push_sq ops sq]. rewrite nth_error_set_op by exact Hlt. cbn [set_op sq].
    rewrite in_snoc. intros [Hc'|Hc']; [|discriminate].
    destruct (H2 j Hc') as (oj & Hj & Hsj).
    destruct (Nat.eqb_spec j i) as [->|Hji]; [|eauto]. congruence.
Qed.

(** [State::drop] of a running operation. *)
Lemma Inv_drop_running s i o rs :
  Inv s -> nth_error (ops s) i = Some o -> st o = Running rs ->
  Inv (set_op (if has_room s then push_sq s (Cancel i) else s) i (with_st o Dropped)).
Proof.
  intros Hinv Hi Hr.
  assert (Hcls : op_inv (Some (with_st o Dropped)) (nsub i (sq s)) (ninfl i (inflight s))
                        (ncq i (cq s)) (nfin i (cq s))).
  { pose proof (Inv_op s i o Hinv Hi) as Ho. revert Ho. unfold op_inv. rewrite Hr.
    cbn [with_st st freed res_live].
    intros [(Hf & Hsum & Hn) Hl]. rewrite Hf. split; [auto|]. intros _ _. apply Hl; [exact Hf|discriminate]. }
  destruct (has_room s).
  - destruct Hinv as [H1 H2]. pose proof (nth_error_lt _ _ _ Hi) as Hlt. split; intros j.
    + rewrite nth_error_set_op by exact Hlt. cbn [push_sq ops set_op sq inflight cq].
      rewrite nsub_snoc_cancel. destruct (H1 j) as [Ha Hb]. split; [|exact Hb].
      destruct (Nat.eqb_spec j i) as [->|Hji]; [exact Hcls|exact Ha].
    + rewrite nth_error_set_op by exact Hlt. cbn [push_sq ops set_op sq]. rewrite in_snoc.
      destruct (Nat.eqb_spec j i) as [->|Hji]; [intros _; exists (with_st o Dropped); auto|].
      intros [Hc|Hc]; [exact (H2 j Hc)|congruence].
  - apply (Inv_set_op s i o); auto.
Qed.

(** ** [Poll] and [DropOp] *)

Lemma ev_ok_poll s i w o :
  ev_ok s (Poll i w) = true -> nth_error (ops s) i = Some o ->
  st o <> Dropped /\ freed o = false /\ (kd o = Single -> st o <> Complete).
Proof.
  cbn [ev_ok]. intros H Hi. rewrite Hi in H. unfold is_dropped, is_single, is_complete in H.
  destruct (st o), (freed o), (kd o); cbn in H; try discriminate; repeat split; congruence.
Qed.

Lemma ev_ok_drop s i o :
  ev_ok s (DropOp i) = true -> nth_error (ops s) i = Some o -> st o <> Dropped /\ freed o = false.
Proof.
  cbn [ev_ok]. intros H Hi. rewrite Hi in H. unfold is_dropped in H.
  destruct (st o), (freed o); cbn in H; try discriminate; split; congruence.
Qed.

Lemma poll_start_Inv s i o o1 w :
  Inv s -> nth_error (ops s) i = Some o ->
  nsub i (sq s) = 0 -> ninfl i (inflight s) = 0 -> ncq i (cq s) = 0 -> st o <> Dropped ->
  st o1 = NotStarted -> freed o1 = false -> res_live o1 = true ->
  Inv (fst (poll_start s i o1 w)).
Proof.
  intros Hinv Hi Hs Hf Hc Hnd Hst Hfr Hrl. unfold poll_start. destruct (has_room s); cbn [fst].
  - apply (Inv_submit s i o); auto. eexists; reflexivity.
  - apply (Inv_frame (set_op s i o1)); try reflexivity.
    apply (Inv_set_op s i o); auto; [|congruence].
    unfold op_inv. rewrite Hst. repeat split; auto.
Qed.

Ltac op_cbn :=
  cbn [with_st with_waker with_ghost hand_out registered new_attempt accepted take_res free_op
       kd st waker freed res_live attempts cancelable g_in g_out g_recv g_lastw] in *.

Lemma poll_Inv s i w : Inv s -> ev_ok s (Poll i w) = true -> Inv (fst (poll s i w)).
Proof.
  intros Hinv Hok. unfold poll. destruct (nth_error (ops s) i) as [o|] eqn:Hi; [|exact Hinv].
  destruct (ev_ok_poll s i w o Hok Hi) as (Hnd & Hfr & Hsc).
  pose proof (Inv_op s i o Hinv Hi) as Ho. unfold op_inv in Ho.
  destruct (st o) eqn:Est.
  - destruct Ho as [(H1 & H2 & H3) H4].
    apply (poll_start_Inv s i o); auto; [rewrite Est; discriminate|apply H4; [exact Hfr|discriminate]].
  - assert (Hgen : forall o', (exists rs', st o' = Running rs') -> freed o' = freed o ->
               res_live o' = res_live o -> Inv (set_op s i o')).
    { intros o' (rs' & Hr') Hf' Hl'. apply (Inv_set_op s i o); auto; [|congruence].
      unfold op_inv. rewrite Hr', Hf', Hl'. destruct Ho as [Ha Hb]. split; [exact Ha|].
      intros _ _. apply Hb; [exact Hfr|discriminate]. }
    destruct (kd o); [|destruct rs as [|c rs']]; cbn [fst]; apply Hgen; op_cbn; eauto.
  - destruct Ho as [(H1 & H2 & H3) H4].
    assert (Hrl : res_live o = true) by (apply H4; [exact Hfr|discriminate]).
    assert (Hcomp : forall x, Inv (set_op s i (hand_out (take_res (with_st o Complete)) x))).
    { intros x. apply (Inv_set_op s i o); auto; [|congruence].
      unfold op_inv. op_cbn. repeat split; auto; congruence. }
    assert (Hdone : forall o', (exists rs', st o' = Done rs') -> freed o' = freed o ->
               res_live o' = res_live o -> Inv (set_op s i o')).
    { intros o' (rs' & Hr') Hf' Hl'. apply (Inv_set_op s i o); auto; [|congruence].
      unfold op_inv. rewrite Hr', Hf', Hl'. repeat split; auto. }
    assert (Hre : Inv (fst (poll_start s i (new_attempt (with_st o NotStarted)) w))).
    { apply (poll_start_Inv s i o); auto. rewrite Est; discriminate. }
    destruct (kd o); destruct rs as [|c rs']; cbn [fst]; auto.
    + destruct (0 <=? res c)%Z; [apply Hcomp|]. destruct (is_restart c); [exact Hre|apply Hcomp].
    + destruct (0 <=? res c)%Z; [apply Hdone; op_cbn; eauto|].
      destruct (is_restart c); [|apply Hdone; op_cbn; eauto].
      destruct rs'; [exact Hre|apply Hdone; op_cbn; eauto].
  - congruence.
  - exact Hinv.
Qed.

Lemma drop_Inv s i : Inv s -> ev_ok s (DropOp i) = true -> Inv (fst (drop_op s i)).
Proof.
  intros Hinv Hok. unfold drop_op. destruct (nth_error (ops s) i) as [o|] eqn:Hi; [|exact Hinv].
  destruct (ev_ok_drop s i o Hok Hi) as (Hnd & Hfr).
  pose proof (Inv_op s i o Hinv Hi) as Ho. unfold op_inv in Ho.
  assert (Hfree : (nsub i (sq s) = 0 /\ ninfl i (inflight s) = 0 /\ ncq i (cq s) = 0) ->
                  Inv (set_op s i (free_op o))).
  { intros (H1 & H2 & H3). apply (Inv_set_op s i o); auto.
    unfold op_inv. op_cbn. split; [|discriminate]. destruct (st o); auto.
    pose proof (nfin_le_ncq i (cq s)). lia. }
  destruct (st o) eqn:Est; cbn [fst]; try (apply Hfree; tauto).
  - apply (Inv_drop_running s i o rs); auto.
  - congruence.
Qed.

(** ** Kernel actions *)

Lemma Inv_post_none s c : Inv s -> Inv (post s (None, c)).
Proof.
  intros [H1 H2]. split; [|exact H2]. intros j. cbn [post ops sq inflight cq].
  rewrite ncq_snoc, nfin_snoc, is_cq_none, is_fin_none, !Nat.add_0_r.
  destruct (H1 j) as [Ha Hb]. split; [exact Ha|]. apply fin_last_snoc_other; [reflexivity|exact Hb].
Qed.

(** The kernel posts a completion for an operation in flight; a final one takes it out of flight. *)
Lemma Inv_post_op s i c :
  Inv s -> ninfl i (inflight s) <> 0 ->
  Inv (post (if more c then s else set_inflight s (remove_first i (inflight s))) (Some i, c)).
Proof.
  intros [H1 H2] Hin. split.
  - intros j. destruct (H1 j) as [Ha Hb].
    assert (Hops : ops (post (if more c then s else set_inflight s (remove_first i (inflight s))) (Some i, c)) = ops s)
      by (destruct (more c); reflexivity).
    assert (Hsq : sq (post (if more c then s else set_inflight s (remove_first i (inflight s))) (Some i, c)) = sq s)
      by (destruct (more c); reflexivity).
    assert (Hcq : cq (post (if more c then s else set_inflight s (remove_first i (inflight s))) (Some i, c)) = cq s ++ [(Some i, c)])
      by (destruct (more c); reflexivity).
    assert (Hif : inflight (post (if more c then s else set_inflight s (remove_first i (inflight s))) (Some i, c))
                  = if more c then inflight s else remove_first i (inflight s))
      by (destruct (more c); reflexivity).
    rewrite Hops, Hsq, Hcq, Hif. rewrite ncq_snoc, nfin_snoc, is_cq_some, is_fin_some.
    destruct (Nat.eqb_spec i j) as [<-|Hij].
    + assert (Hnf : nfin i (cq s) = 0 /\ ninfl i (inflight s) = 1 /\ nsub i (sq s) = 0).
      { revert Ha. unfold op_inv. destruct (nth_error (ops s) i) as [o|]; [|lia].
        destruct (st o); try lia. destruct (freed o); lia. }
      destruct Hnf as (Hnf & Hni & Hns).
      split; [|apply fin_last_snoc_same; [exact Hnf|exact Hb]].
      assert (Hni' : ninfl i (if more c then inflight s else remove_first i (inflight s))
                     = if more c then 1 else 0).
      { destruct (more c); [exact Hni|]. rewrite ninfl_remove_first_same by exact Hin. lia. }
      rewrite Hni', Hnf, Hns. cbn [andb].
      revert Ha. unfold op_inv. destruct (nth_error (ops s) i) as [o|]; [|lia].
      rewrite Hni, Hnf, Hns.
      destruct (st o); try lia; [|destruct (freed o); [lia|]];
        (intros [Hx Hy]; split; [|exact Hy]; destruct (more c); cbn [negb]; intuition lia).
    + assert (Hni' : ninfl j (if more c then inflight s else remove_first i (inflight s))
                     = ninfl j (inflight s)).
      { destruct (more c); [reflexivity|]. apply ninfl_remove_first_other. congruence. }
      rewrite Hni'. cbn [andb]. rewrite !Nat.add_0_r. split; [exact Ha|].
      apply fin_last_snoc_other; [|exact Hb]. rewrite is_cq_some. apply Nat.eqb_neq. exact Hij.
  - intros j. destruct (more c); exact (H2 j).
Qed.

Lemma kpost_Inv s i c : Inv s -> Inv (kpost s i c).
Proof.
  intros Hinv. unfold kpost. destruct (existsb (Nat.eqb i) (inflight s)) eqn:E; [|exact Hinv].
  apply Inv_post_op; [exact Hinv|]. apply existsb_ninfl. exact E.
Qed.

(** The kernel consumes the first queued submission. *)
Lemma kconsume_Inv s e q : Inv s -> sq s = e :: q -> Inv (kconsume (set_sq s q) e).
Proof.
  intros [H1 H2] Hsq. destruct e as [i|i]; cbn [kconsume].
  - (* Submit i *)
    split.
    + intros j. cbn [set_inflight set_sq ops sq inflight cq]. destruct (H1 j) as [Ha Hb].
      split; [|exact Hb]. revert Ha. rewrite Hsq. unfold nsub at 1. rewrite cnt_cons. fold (nsub j q).
      rewrite ninfl_snoc. cbn [is_sub]. rewrite (Nat.eqb_sym j i).
      destruct (Nat.eqb_spec i j) as [<-|Hij]; [|rewrite Nat.add_0_r; cbn [Nat.add]; auto].
      pose proof (nfin_le_ncq i (cq s)). unfold op_inv.
      destruct (nth_error (ops s) i) as [o|]; [|lia].
      destruct (st o); try lia; [|destruct (freed o); [lia|]]; intuition lia.
    + intros j Hc. apply H2. rewrite Hsq. right. exact Hc.
  - (* Cancel i *)
    assert (Hpop : Inv (set_sq s q)).
    { split.
      - intros j. cbn [set_sq ops sq inflight cq]. destruct (H1 j) as [Ha Hb]. split; [|exact Hb].
        revert Ha. rewrite Hsq. unfold nsub at 1. rewrite cnt_cons. cbn [is_sub Nat.add]. auto.
      - intros j Hc. apply H2. rewrite Hsq. right. exact Hc. }
    change (inflight (set_sq s q)) with (inflight s). change (ops (set_sq s q)) with (ops s).
    destruct (existsb (Nat.eqb i) (inflight s)) eqn:E; [|apply Inv_post_none; exact Hpop].
    destruct (nth_error (ops s) i) as [o|]; [|exact Hpop].
    destruct (cancelable o); [|apply Inv_post_none; exact Hpop].
    apply (Inv_post_op (set_sq s q) i {| res := - ECANCELED; more := false; notif := false |});
      [exact Hpop|]. apply existsb_ninfl. exact E.
Qed.

Lemma kconsume_set_sq s e q : kconsume (set_sq s q) e = set_sq (kconsume s e) q.
Proof.
  destruct e as [i|i]; cbn [kconsume]; [reflexivity|].
  change (inflight (set_sq s q)) with (inflight s). change (ops (set_sq s q)) with (ops s).
  destruct (existsb (Nat.eqb i) (inflight s)); [|reflexivity].
  destruct (nth_error (ops s) i) as [o|]; [|reflexivity]. destruct (cancelable o); reflexivity.
Qed.

Lemma kconsume_sq s e : sq (kconsume s e) = sq s.
Proof.
  destruct e as [i|i]; cbn [kconsume]; [reflexivity|].
  destruct (existsb (Nat.eqb i) (inflight s)); [|reflexivity].
  destruct (nth_error (ops s) i) as [o|]; [|reflexivity]. destruct (cancelable o); reflexivity.
Qed.

Lemma set_sq_set_sq s q q' : set_sq (set_sq s q) q' = set_sq s q'.
Proof. reflexivity. Qed.

Lemma set_sq_same s : set_sq s (sq s) = s.
Proof. destruct s; reflexivity. Qed.

(** The whole queue is consumed during [enter]. *)
Lemma kconsume_all_Inv q : forall s, Inv (set_sq s q) -> Inv (fold_left kconsume q (set_sq s [])).
Proof.
  induction q as [|e q IH]; intros s Hinv; cbn [fold_left]; [exact Hinv|].
  rewrite kconsume_set_sq. apply IH. rewrite <- kconsume_set_sq.
  rewrite <- (set_sq_set_sq s (e :: q) q). apply kconsume_Inv; [exact Hinv|reflexivity].
Qed.

(** ** Completion processing *)

Lemma Inv_pop_none s c r : Inv s -> cq s = (None, c) :: r -> Inv (pop_cq s None c r).
Proof.
  intros [H1 H2] Hcq. split; [|exact H2]. intros j. cbn [pop_cq ops sq inflight cq].
  destruct (H1 j) as [Ha Hb]. revert Ha Hb. rewrite Hcq. unfold ncq, nfin. rewrite !cnt_cons.
  rewrite is_cq_none, is_fin_none. cbn [Nat.add fin_last]. tauto.
Qed.

(** Popping a completion of [i] and storing the updated operation. *)
Lemma Inv_pop_set s i c r o o' :
  Inv s -> cq s = (Some i, c) :: r -> nth_error (ops s) i = Some o ->
  op_inv (Some o') (nsub i (sq s)) (ninfl i (inflight s)) (ncq i r) (nfin i r) ->
  (st o = Dropped -> st o' = Dropped) ->
  Inv (set_op (pop_cq s (Some i) c r) i o').
Proof.
  intros [H1 H2] Hcq Hi Ho' Hd. pose proof (nth_error_lt _ _ _ Hi) as Hlt. split; intros j.
  - rewrite nth_error_set_op by exact Hlt. cbn [set_op pop_cq ops sq inflight cq].
    destruct (H1 j) as [Ha Hb]. rewrite Hcq in Hb. cbn [fin_last] in Hb. split; [|apply Hb].
    destruct (Nat.eqb_spec j i) as [->|Hji]; [exact Ho'|].
    revert Ha. rewrite Hcq. unfold ncq, nfin. rewrite !cnt_cons, is_fin_some, is_cq_some.
    destruct (Nat.eqb_spec i j); [congruence|]. cbn [andb Nat.add]. auto.
  - rewrite nth_error_set_op by exact Hlt. cbn [set_op pop_cq ops sq]. intros Hc.
    destruct (H2 j Hc) as (oj & Hj & Hs).
    destruct (Nat.eqb_spec j i) as [->|Hji]; [|eauto]. exists o'; split; [reflexivity|].
    apply Hd. congruence.
Qed.

Lemma update_Inv s i c r :
  Inv s -> cq s = (Some i, c) :: r -> Inv (fst (update (pop_cq s (Some i) c r) i c)).
Proof.
  intros Hinv Hcq. unfold update. change (ops (pop_cq s (Some i) c r)) with (ops s).
  pose proof Hinv as [H1 _]. destruct (H1 i) as [Ha Hb].
  rewrite Hcq in Ha, Hb. cbn [fin_last] in Hb. destruct Hb as [Hfin _].
  unfold ncq, nfin in Ha. rewrite !cnt_cons, is_fin_some, is_cq_some, Nat.eqb_refl in Ha.
  rewrite is_fin_some, Nat.eqb_refl in Hfin. cbn [andb] in Ha, Hfin.
  fold (ncq i r) in Ha. fold (nfin i r) in Ha.
  pose proof (nfin_le_ncq i r) as Hle.
  destruct (nth_error (ops s) i) as [o|] eqn:Hi; [|cbn in Ha; lia].
  unfold op_inv in Ha.
  destruct (st o) eqn:Est; try (cbn in Ha; lia).
  - (* Running *)
    destruct Ha as [(Hfr & Hsum & Hn) Hl].
    assert (Hrl : res_live o = true) by (apply Hl; [exact Hfr|discriminate]).
    set (rs' := match kd o with Single => if notif c then rs else [c] | Multi => rs ++ [c] end).
    set (o1 := accepted o c (readying (kd o) c)).
    assert (Hgen : forall o', freed o' = false -> res_live o' = true ->
              st o' = (if negb (more c) then Done rs' else Running rs') ->
              Inv (set_op (pop_cq s (Some i) c r) i o')).
    { intros o' Hf' Hl' Hs'. apply (Inv_pop_set s i c r o); auto; [|congruence].
      unfold op_inv. rewrite Hs', Hf', Hl'. destruct (more c); cbn [negb] in *.
      - repeat split; auto; lia.
      - specialize (Hfin eq_refl). repeat split; auto; lia. }
    destruct (negb (more c) || match kd o with Multi => true | Single => false end);
      [destruct (waker o)|]; cbn [fst]; apply Hgen; reflexivity || assumption.
  - (* Dropped *)
    destruct (freed o) eqn:Hfr; [lia|]. destruct Ha as [(Hsum & Hn) Hl].
    destruct (more c) eqn:Em; cbn [fst negb] in *.
    + apply (Inv_pop_set s i c r o); auto.
      unfold op_inv. op_cbn. rewrite Est, Hfr. split; [split; lia|exact Hl].
    + specialize (Hfin eq_refl). apply (Inv_pop_set s i c r o); auto.
      unfold op_inv. op_cbn. rewrite Est. split; [lia|discriminate].
Qed.

Lemma process_Inv f : forall s, Inv s -> Inv (fst (process f s)).
Proof.
  induction f as [|f IH]; intros s Hinv; cbn [process]; [exact Hinv|].
  destruct (cq s) as [|[t c] r] eqn:Hcq; [exact Hinv|]. destruct t as [i|].
  - pose proof (update_Inv s i c r Hinv Hcq) as Hu.
    destruct (update (pop_cq s (Some i) c r) i c) as [s1 o1]. cbn [fst] in Hu.
    specialize (IH s1 Hu). destruct (process f s1) as [s2 o2]. exact IH.
  - apply IH. apply Inv_pop_none; assumption.
Qed.

Lemma wake_blocked_Inv s : Inv s -> Inv (fst (wake_blocked s)).
Proof. apply Inv_frame; reflexivity. Qed.

Lemma ring_poll_Inv s : Inv s -> Inv (fst (ring_poll s)).
Proof.
  intros Hinv. unfold ring_poll.
  set (ph1 := match cq s with [] => _ | _ => _ end).
  assert (H1 : Inv (fst ph1)).
  { subst ph1. destruct (cq s); [|exact Hinv].
    assert (Hk : Inv (fold_left kconsume (sq s) (take_sq s))).
    { apply kconsume_all_Inv. rewrite set_sq_same. exact Hinv. }
    destruct (negb (length (sq s) =? 0) || negb (length (cq (fold_left kconsume (sq s) (take_sq s))) =? 0));
      [|exact Hk].
    pose proof (wake_blocked_Inv _ Hk) as Hw. destruct (wake_blocked _) as [s'' ow]. exact Hw. }
  destruct ph1 as [s1 o1]. cbn [fst] in H1.
  pose proof (process_Inv (length (cq s1)) s1 H1) as Hp.
  destruct (process (length (cq s1)) s1) as [s2 o2]. exact Hp.
Qed.

Theorem step_Inv s e : Inv s -> ev_ok s e = true -> Inv (fst (step s e)).
Proof.
  intros Hinv Hok. destruct e as [i w|i| |i c]; cbn [step fst].
  - apply poll_Inv; assumption.
  - apply drop_Inv; assumption.
  - apply ring_poll_Inv; assumption.
  - apply kpost_Inv; assumption.
Qed.

Theorem reachable_Inv cap0 kinds es :
  valid (init cap0 kinds) es -> Inv (fst (run step (init cap0 kinds) es)).
Proof. apply (run_valid_invariant Inv step_Inv). apply Inv_init. Qed.

(** ** Relating the operation table before and after a step *)

Definition ops_rel (R : op -> op -> Prop) (s s' : sys) : Prop :=
  forall j, match nth_error (ops s) j, nth_error (ops s') j with
            | Some o, Some o' => R o o'
            | None, None => True
            | _, _ => False
            end.

Lemma ops_rel_same (R : op -> op -> Prop) s s' :
  (forall o, R o o) -> ops s' = ops s -> ops_rel R s s'.
Proof. intros Hr E j. rewrite E. destruct (nth_error (ops s) j); auto. Qed.

Lemma ops_rel_trans (R : op -> op -> Prop) s1 s2 s3 :
  (forall a b c, R a b -> R b c -> R a c) -> ops_rel R s1 s2 -> ops_rel R s2 s3 -> ops_rel R s1 s3.
Proof.
  intros Ht H12 H23 j. specialize (H12 j). specialize (H23 j).
  destruct (nth_error (ops s1) j), (nth_error (ops s2) j), (nth_error (ops s3) j); eauto; contradiction.
Qed.

Lemma ops_rel_set_op (R : op -> op -> Prop) s i o o' :
  (forall o, R o o) -> nth_error (ops s) i = Some o -> R o o' -> ops_rel R s (set_op s i o').
Proof.
  intros Hr Hi Ho j. rewrite nth_error_set_op by (eapply nth_error_lt; eauto).
  destruct (Nat.eqb_spec j i) as [->|Hji]; [rewrite Hi; exact Ho|].
  destruct (nth_error (ops s) j); auto.
Qed.

Lemma ops_rel_length R s s' : ops_rel R s s' -> length (ops s') = length (ops s).
Proof.
  intros H. destruct (Nat.lt_trichotomy (length (ops s')) (length (ops s))) as [Hl|[Hl|Hl]]; [|exact Hl|].
  - specialize (H (length (ops s'))).
    destruct (nth_error (ops s) (length (ops s'))) eqn:E1.
    + destruct (nth_error (ops s') (length (ops s'))) eqn:E2; [|contradiction].
      apply nth_error_lt in E2. lia.
    + apply nth_error_None in E1. lia.
  - specialize (H (length (ops s))).
    destruct (nth_error (ops s') (length (ops s))) eqn:E1.
    + destruct (nth_error (ops s) (length (ops s))) eqn:E2; [|contradiction].
      apply nth_error_lt in E2. lia.
    + apply nth_error_None in E1. lia.
Qed.

Lemma ops_rel_some R s s' j o :
  ops_rel R s s' -> nth_error (ops s) j = Some o -> exists o', nth_error (ops s') j = Some o' /\ R o o'.
Proof. intros H Hj. specialize (H j). rewrite Hj in H. destruct (nth_error (ops s') j); [eauto|contradiction]. Qed.

(** What no step ever changes about an operation: kind, kernel-side cancelability; the attempt
    counter only counts up; a freed state stays freed; a dropped future stays dropped. *)
Definition stable (o o' : op) : Prop :=
  kd o' = kd o /\ cancelable o' = cancelable o /\ (attempts o <= attempts o')%N
  /\ (freed o = true -> freed o' = true) /\ (st o = Dropped -> st o' = Dropped).

Lemma stable_refl o : stable o o.
Proof. unfold stable. repeat split; auto. lia. Qed.

Lemma stable_trans a b c : stable a b -> stable b c -> stable a c.
Proof. unfold stable. intros (A1 & A2 & A3 & A4 & A5) (B1 & B2 & B3 & B4 & B5). repeat split; try congruence; auto. lia. Qed.

Ltac stable_leaf := unfold stable; op_cbn; repeat split; auto; try congruence; try lia.

Lemma ops_rel_ext (R : op -> op -> Prop) s s' s'' :
  ops s'' = ops s' -> ops_rel R s s' -> ops_rel R s s''.
Proof. intros E H j. rewrite E. apply H. Qed.

Lemma poll_start_stable s i o o1 w :
  nth_error (ops s) i = Some o -> stable o o1 -> st o1 <> Dropped ->
  ops_rel stable s (fst (poll_start s i o1 w)).
Proof.
  intros Hi Ho Hnd. unfold poll_start. destruct (has_room s); cbn [fst].
  - eapply ops_rel_ext; [|apply (ops_rel_set_op stable s i o); [exact stable_refl|exact Hi|]];
      [reflexivity|].
    destruct Ho as (A1 & A2 & A3 & A4 & A5). stable_leaf. intros H. elim Hnd. auto.
  - eapply ops_rel_ext; [|apply (ops_rel_set_op stable s i o); [exact stable_refl|exact Hi|exact Ho]].
    reflexivity.
Qed.

Lemma poll_stable s i w : ops_rel stable s (fst (poll s i w)).
Proof.
  unfold poll. destruct (nth_error (ops s) i) as [o|] eqn:Hi;
    [|apply ops_rel_same; [exact stable_refl|reflexivity]].
  assert (Hset : forall o', stable o o' -> ops_rel stable s (set_op s i o')).
  { intros o' Ho'. apply (ops_rel_set_op stable s i o); auto using stable_refl. }
  assert (Hid : ops_rel stable s s) by (apply ops_rel_same; [exact stable_refl|reflexivity]).
  destruct (st o) eqn:Est.
  - apply (poll_start_stable s i o); [exact Hi|apply stable_refl|congruence].
  - destruct (kd o); [|destruct rs]; cbn [fst]; apply Hset; stable_leaf.
  - assert (Hre : ops_rel stable s (fst (poll_start s i (new_attempt (with_st o NotStarted)) w))).
    { apply (poll_start_stable s i o); [exact Hi| |op_cbn; discriminate]. stable_leaf. }
    destruct (kd o); destruct rs as [|c rs']; cbn [fst]; auto; try (apply Hset; stable_leaf).
    + destruct (0 <=? res c)%Z; [apply Hset; stable_leaf|].
      destruct (is_restart c); [exact Hre|apply Hset; stable_leaf].
    + destruct (0 <=? res c)%Z; [apply Hset; stable_leaf|].
      destruct (is_restart c); [|apply Hset; stable_leaf].
      destruct rs'; [exact Hre|apply Hset; stable_leaf].
  - exact Hid.
  - exact Hid.
Qed.

Lemma drop_stable s i : ops_rel stable s (fst (drop_op s i)).
Proof.
  unfold drop_op. destruct (nth_error (ops s) i) as [o|] eqn:Hi;
    [|apply ops_rel_same; [exact stable_refl|reflexivity]].
  assert (Hid : ops_rel stable s s) by (apply ops_rel_same; [exact stable_refl|reflexivity]).
  destruct (st o) eqn:Est; cbn [fst]; auto;
    try (apply (ops_rel_set_op stable s i o); [exact stable_refl|exact Hi|stable_leaf]).
  destruct (has_room s).
  - intros j. specialize (ops_rel_set_op stable s i o (with_st o Dropped) stable_refl Hi) as H.
    rewrite nth_error_set_op by (cbn [push_sq ops]; eapply nth_error_lt; eauto).
    cbn [push_sq ops]. specialize (H ltac:(stable_leaf) j).
    rewrite nth_error_set_op in H by (eapply nth_error_lt; eauto). exact H.
  - apply (ops_rel_set_op stable s i o); [exact stable_refl|exact Hi|stable_leaf].
Qed.

Lemma update_stable s i c : ops_rel stable s (fst (update s i c)).
Proof.
  unfold update. destruct (nth_error (ops s) i) as [o|] eqn:Hi;
    [|apply ops_rel_same; [exact stable_refl|reflexivity]].
  assert (Hid : ops_rel stable s s) by (apply ops_rel_same; [exact stable_refl|reflexivity]).
  assert (Hset : forall o', stable o o' -> ops_rel stable s (set_op s i o')).
  { intros o' Ho'. apply (ops_rel_set_op stable s i o); auto using stable_refl. }
  destruct (st o) eqn:Est; cbn [fst]; auto.
  - destruct (negb (more c) || _); [destruct (waker o)|]; cbn [fst]; apply Hset; stable_leaf;
      destruct (negb (more c)); discriminate.
  - destruct (negb (more c) || _); [destruct (waker o)|]; cbn [fst]; apply Hset; stable_leaf;
      destruct (negb (more c)); discriminate.
  - destruct (more c); cbn [fst]; apply Hset; stable_leaf.
Qed.

Lemma process_stable f : forall s, ops_rel stable s (fst (process f s)).
Proof.
  induction f as [|f IH]; intros s; cbn [process];
    [apply ops_rel_same; [exact stable_refl|reflexivity]|].
  destruct (cq s) as [|[t c] r]; [apply ops_rel_same; [exact stable_refl|reflexivity]|].
  destruct t as [i|].
  - pose proof (update_stable (pop_cq s (Some i) c r) i c) as Hu.
    destruct (update (pop_cq s (Some i) c r) i c) as [s1 o1]. cbn [fst] in Hu.
    specialize (IH s1). destruct (process f s1) as [s2 o2]. cbn [fst] in *.
    apply (ops_rel_trans stable _ s1); [exact stable_trans| |exact IH].
    intros j. exact (Hu j).
  - specialize (IH (pop_cq s None c r)). intros j. exact (IH j).
Qed.

(** Phase one of [Ring::poll]: [enter] (only when no completion is pending). *)
Definition phase1 (s : sys) : sys * list obs :=
  match cq s with
  | [] =>
      let queued := sq s in
      let s' := fold_left kconsume queued (take_sq s) in
      let consumed := map OConsumed queued in
      if negb (Nat.eqb (length queued) 0) || negb (Nat.eqb (length (cq s')) 0) then
        let '(s'', ow) := wake_blocked s' in (s'', consumed ++ ow)
      else (s', consumed)
  | _ => (s, [])
  end.

Lemma ring_poll_phases s :
  ring_poll s = let '(s1, o1) := phase1 s in
                let '(s2, o2) := process (length (cq s1)) s1 in (s2, o1 ++ o2).
Proof. reflexivity. Qed.

Lemma kconsume_ops s e : ops (kconsume s e) = ops s.
Proof.
  destruct e as [i|i]; cbn [kconsume]; [reflexivity|].
  destruct (existsb (Nat.eqb i) (inflight s)); [|reflexivity].
  destruct (nth_error (ops s) i) as [o|]; [|reflexivity]. destruct (cancelable o); reflexivity.
Qed.

Lemma kconsume_all_ops q : forall s, ops (fold_left kconsume q s) = ops s.
Proof. induction q as [|e q IH]; intros s; cbn [fold_left]; [reflexivity|]. rewrite IH. apply kconsume_ops. Qed.

Lemma phase1_ops s : ops (fst (phase1 s)) = ops s.
Proof.
  unfold phase1. destruct (cq s); [|reflexivity].
  destruct (negb _ || negb _); cbn [fst wake_blocked ops]; rewrite kconsume_all_ops; reflexivity.
Qed.

Lemma phase1_Inv s : Inv s -> Inv (fst (phase1 s)).
Proof.
  intros Hinv. unfold phase1. destruct (cq s); [|exact Hinv].
  assert (Hk : Inv (fold_left kconsume (sq s) (take_sq s))).
  { apply kconsume_all_Inv. rewrite set_sq_same. exact Hinv. }
  destruct (negb _ || negb _); [|exact Hk]. apply (wake_blocked_Inv _ Hk).
Qed.

Lemma ring_poll_stable s : ops_rel stable s (fst (ring_poll s)).
Proof.
  rewrite ring_poll_phases. pose proof (phase1_ops s) as H1. destruct (phase1 s) as [s1 o1].
  cbn [fst] in H1. pose proof (process_stable (length (cq s1)) s1) as Hp.
  destruct (process (length (cq s1)) s1) as [s2 o2]. cbn [fst] in *.
  intros j. specialize (Hp j). rewrite H1 in Hp. exact Hp.
Qed.

Theorem step_stable s e : ops_rel stable s (fst (step s e)).
Proof.
  destruct e as [i w|i| |i c]; cbn [step fst].
  - apply poll_stable.
  - apply drop_stable.
  - apply ring_poll_stable.
  - apply ops_rel_same; [exact stable_refl|]. unfold kpost.
    destruct (existsb _ _); [|reflexivity]. destruct (more c); reflexivity.
Qed.

(** Lifting a per-operation relation from the three functions that write the table to steps. *)
Lemma process_ops_rel (R : op -> op -> Prop) :
  (forall o, R o o) -> (forall a b c, R a b -> R b c -> R a c) ->
  (forall s i c, ops_rel R s (fst (update s i c))) ->
  forall f s, ops_rel R s (fst (process f s)).
Proof.
  intros Hr Ht Hu. induction f as [|f IH]; intros s; cbn [process]; [apply ops_rel_same; auto|].
  destruct (cq s) as [|[t c] r]; [apply ops_rel_same; auto|]. destruct t as [i|].
  - specialize (Hu (pop_cq s (Some i) c r) i c).
    destruct (update (pop_cq s (Some i) c r) i c) as [s1 o1]. cbn [fst] in Hu.
    specialize (IH s1). destruct (process f s1) as [s2 o2]. cbn [fst] in *.
    apply (ops_rel_trans R _ s1); [exact Ht| |exact IH]. intros j. exact (Hu j).
  - specialize (IH (pop_cq s None c r)). intros j. exact (IH j).
Qed.

Lemma step_ops_rel (R : op -> op -> Prop) :
  (forall o, R o o) -> (forall a b c, R a b -> R b c -> R a c) ->
  (forall s i w, ops_rel R s (fst (poll s i w))) ->
  (forall s i, ops_rel R s (fst (drop_op s i))) ->
  (forall s i c, ops_rel R s (fst (update s i c))) ->
  forall s e, ops_rel R s (fst (step s e)).
Proof.
  intros Hr Ht Hp Hd Hu s e. destruct e as [i w|i| |i c]; cbn [step fst]; auto.
  - rewrite ring_poll_phases. pose proof (phase1_ops s) as H1. destruct (phase1 s) as [s1 o1].
    cbn [fst] in H1. pose proof (process_ops_rel R Hr Ht Hu (length (cq s1)) s1) as Hpr.
    destruct (process (length (cq s1)) s1) as [s2 o2]. cbn [fst] in *.
    intros j. specialize (Hpr j). rewrite H1 in Hpr. exact Hpr.
  - apply ops_rel_same; [exact Hr|]. unfold kpost.
    destruct (existsb _ _); [|reflexivity]. destruct (more c); reflexivity.
Qed.

(** A property of single operations that every write of the table preserves holds in every
    state reachable from [init] by any history. *)
Lemma ops_rel_preserves (P : op -> Prop) s s' :
  ops_rel (fun o o' => P o -> P o') s s' ->
  (forall i o, nth_error (ops s) i = Some o -> P o) ->
  forall i o, nth_error (ops s') i = Some o -> P o.
Proof.
  intros Hrel H i o' Hi'. specialize (Hrel i). rewrite Hi' in Hrel.
  destruct (nth_error (ops s) i) as [o|] eqn:Hi; [|contradiction]. apply Hrel. exact (H i o Hi).
Qed.

Lemma drop_ops_rel (R : op -> op -> Prop) :
  (forall o, R o o) ->
  (forall o, R o (with_st o Dropped)) -> (forall o, R o (free_op o)) ->
  forall s i, ops_rel R s (fst (drop_op s i)).
Proof.
  intros Hr Hd Hf s i. unfold drop_op.
  destruct (nth_error (ops s) i) as [o|] eqn:Hi; [|apply ops_rel_same; auto].
  destruct (st o) eqn:Est; cbn [fst]; try (apply ops_rel_same; auto; fail);
    try (apply (ops_rel_set_op R s i o); auto; fail).
  intros j. rewrite nth_error_set_op by (destruct (has_room s); cbn [push_sq ops]; eapply nth_error_lt; eauto).
  replace (ops (if has_room s then push_sq s (Cancel i) else s)) with (ops s)
    by (destruct (has_room s); reflexivity).
  destruct (Nat.eqb_spec j i) as [->|]; [rewrite Hi; apply Hd|].
  destruct (nth_error (ops s) j); auto.
Qed.

(** The result slot of a single-shot operation holds exactly one entry. *)
Definition slot_ok (o : op) : Prop :=
  kd o = Single -> match st o with Running rs | Done rs => length rs = 1 | _ => True end.

Definition slot_rel (o o' : op) : Prop := slot_ok o -> slot_ok o'.

Lemma poll_start_slot s i o o1 w :
  nth_error (ops s) i = Some o -> st o1 = NotStarted -> ops_rel slot_rel s (fst (poll_start s i o1 w)).
Proof.
  assert (Hr : forall o, slot_rel o o) by (unfold slot_rel; auto).
  intros Hi Hs. unfold poll_start. destruct (has_room s); cbn [fst].
  - eapply ops_rel_ext; [|apply (ops_rel_set_op slot_rel s i o); [exact Hr|exact Hi|]]; [reflexivity|].
    unfold slot_rel, slot_ok. cbn. intros _ Hk. rewrite Hk. reflexivity.
  - eapply ops_rel_ext; [|apply (ops_rel_set_op slot_rel s i o); [exact Hr|exact Hi|]]; [reflexivity|].
    unfold slot_rel, slot_ok. rewrite Hs. auto.
Qed.

Lemma poll_slot s i w : ops_rel slot_rel s (fst (poll s i w)).
Proof.
  assert (Hr : forall o, slot_rel o o) by (unfold slot_rel; auto).
  unfold poll. destruct (nth_error (ops s) i) as [o|] eqn:Hi; [|apply ops_rel_same; auto].
  assert (Hset : forall o', slot_rel o o' -> ops_rel slot_rel s (set_op s i o')).
  { intros o' Ho'. apply (ops_rel_set_op slot_rel s i o); auto. }
  assert (Hid : ops_rel slot_rel s s) by (apply ops_rel_same; auto).
  assert (Hre : ops_rel slot_rel s (fst (poll_start s i (new_attempt (with_st o NotStarted)) w)))
    by (apply (poll_start_slot s i o); auto).
  destruct (st o) eqn:Est.
  - apply (poll_start_slot s i o); auto.
  - destruct (kd o) eqn:Ek; [|destruct rs as [|c rs']]; cbn [fst]; apply Hset;
      unfold slot_rel, slot_ok; op_cbn; rewrite ?Est, ?Ek; auto; try discriminate.
  - destruct (kd o) eqn:Ek; destruct rs as [|c rs']; cbn [fst]; auto;
      try (apply Hset; unfold slot_rel, slot_ok; op_cbn; rewrite ?Ek; auto; discriminate).
    + destruct (0 <=? res c)%Z; [apply Hset; unfold slot_rel, slot_ok; op_cbn; auto|].
      destruct (is_restart c); [exact Hre|apply Hset; unfold slot_rel, slot_ok; op_cbn; auto].
    + destruct (0 <=? res c)%Z; [apply Hset; unfold slot_rel, slot_ok; op_cbn; rewrite Ek; discriminate|].
      destruct (is_restart c); [|apply Hset; unfold slot_rel, slot_ok; op_cbn; rewrite Ek; discriminate].
      destruct rs'; [exact Hre|apply Hset; unfold slot_rel, slot_ok; op_cbn; rewrite Ek; discriminate].
  - exact Hid.
  - exact Hid.
Qed.

Lemma update_slot s i c : ops_rel slot_rel s (fst (update s i c)).
Proof.
  assert (Hr : forall o, slot_rel o o) by (unfold slot_rel; auto).
  unfold update. destruct (nth_error (ops s) i) as [o|] eqn:Hi; [|apply ops_rel_same; auto].
  assert (Hset : forall o', slot_rel o o' -> ops_rel slot_rel s (set_op s i o')).
  { intros o' Ho'. apply (ops_rel_set_op slot_rel s i o); auto. }
  assert (Hnew : forall rs o', st o = Running rs \/ st o = Done rs -> kd o' = kd o ->
            (exists rs', (st o' = Running rs' \/ st o' = Done rs')
                         /\ rs' = match kd o with Single => if notif c then rs else [c] | Multi => rs ++ [c] end) ->
            slot_rel o o').
  { intros rs o' Hs Hk (rs' & Hs' & Hrs). unfold slot_rel, slot_ok. rewrite Hk. intros H Hsingle.
    specialize (H Hsingle). rewrite Hsingle in Hrs.
    assert (length rs = 1) by (destruct Hs as [Hs|Hs]; rewrite Hs in H; exact H).
    assert (length rs' = 1) by (subst rs'; destruct (notif c); auto).
    destruct Hs' as [Hs'|Hs']; rewrite Hs'; assumption. }
  destruct (st o) eqn:Est; cbn [fst]; try (apply ops_rel_same; auto; fail).
  - destruct (negb (more c)) eqn:Em; cbn [orb].
    + destruct (waker o); cbn [fst]; apply Hset, (Hnew rs); op_cbn; eauto.
    + destruct (kd o) eqn:Ek; [|destruct (waker o)]; cbn [fst]; apply Hset, (Hnew rs); op_cbn;
        rewrite ?Ek; eauto.
  - destruct (negb (more c)) eqn:Em; cbn [orb].
    + destruct (waker o); cbn [fst]; apply Hset, (Hnew rs); op_cbn; eauto.
    + destruct (kd o) eqn:Ek; [|destruct (waker o)]; cbn [fst]; apply Hset, (Hnew rs); op_cbn;
        rewrite ?Ek; eauto.
  - destruct (more c); cbn [fst]; apply Hset; unfold slot_rel, slot_ok; op_cbn; rewrite Est; auto.
Qed.

Lemma step_slot s e : ops_rel slot_rel s (fst (step s e)).
Proof.
  apply step_ops_rel; try (unfold slot_rel; auto; fail).
  { apply poll_slot. }
  { apply drop_ops_rel; unfold slot_rel, slot_ok; intros o H H0; op_cbn; auto; exact (H H0). }
  { apply update_slot. }
Qed.

Definition all_slots_ok (s : sys) : Prop := forall i o, nth_error (ops s) i = Some o -> slot_ok o.

Lemma step_all_slots_ok s e : all_slots_ok s -> all_slots_ok (fst (step s e)).
Proof. intros H i o Hi. exact (ops_rel_preserves slot_ok s _ (step_slot s e) H i o Hi). Qed.

Lemma init_all_slots_ok cap0 kinds : all_slots_ok (init cap0 kinds).
Proof.
  intros i o Hi. cbn [init ops] in Hi. apply nth_error_In, in_map_iff in Hi.
  destruct Hi as ([k c] & <- & _). unfold slot_ok. cbn. auto.
Qed.

(** ** Non-vacuity: a valid history reaching a state in which every clause of [Inv] is
    exercised — operation 0 dropped while in flight with its cancellation queued, operation 1
    in flight with a non-final completion posted, operation 2 with its submission queued. *)
Example inv_state_reachable :
  let es := [Poll 0 1%N; Poll 1 2%N; RingPoll; DropOp 0;
             KPost 1 {| res := 3; more := true; notif := false |}; Poll 2 3%N] in
  let s := fst (run step (init 4 [(Single, true); (Multi, false); (Single, true)]) es) in
  valid (init 4 [(Single, true); (Multi, false); (Single, true)]) es
  /\ sq s = [Cancel 0; Submit 2] /\ inflight s = [0; 1]
  /\ cq s = [(Some 1, {| res := 3; more := true; notif := false |})]
  /\ map st (ops s) = [Dropped; Running []; Running [default_cqe]]
  /\ map freed (ops s) = [false; false; false].
Proof. vm_compute. repeat split. Qed.

(** Proofs about Model/FdTable.v (property C07). *)
From A10 Require Import Base.Word Base.Run Model.FdTable.
From Coq Require Import ZifyN ZifyBool ZifyNat Permutation.
Ltac Zify.zify_post_hook ::= Z.div_mod_to_equations.

(** * The descriptor word and the encoding of a close *)

Lemma fd_of_mk_word fd k : fd < two31 -> fd_of (mk_word fd k) = fd.
Proof. unfold fd_of, mk_word, two31. destruct k; intros; lia. Qed.

Lemma kind_of_mk_word fd k : fd < two31 -> kind_of (mk_word fd k) = k.
Proof.
  unfold kind_of, mk_word, two31. intros H. destruct k.
  - replace (fd / 2147483648) with 0 by lia. reflexivity.
  - replace ((fd + 2147483648) / 2147483648) with 1 by lia. reflexivity.
Qed.

Lemma fd_of_lt w : fd_of w < two31.
Proof. unfold fd_of, two31. lia. Qed.

(** The word is a [u32] bit pattern. *)
Lemma mk_word_lt fd k : fd < two31 -> mk_word fd k < two32.
Proof. unfold mk_word, two31, two32. destruct k; lia. Qed.

Lemma kernel_close_target_close_sqe fd k :
  fd < two31 -> kernel_close_target (close_sqe fd k) = Some (fd, k).
Proof.
  intros H. unfold kernel_close_target, close_sqe. destruct k; cbn [sqe_fd sqe_file_index sqe_fixed].
  - reflexivity.
  - unfold trunc32, two31, two32 in *.
    destruct (N.eqb_spec ((fd + 1) mod 4294967296) 0) as [E|E]; [exfalso; lia|].
    cbn [N.eqb]. f_equal. f_equal. lia.
Qed.

Lemma kernel_sys_target_fallback fd k : kernel_sys_target (fallback_close fd k) = Some (fd, k).
Proof. destruct k; reflexivity. Qed.

(** ** Statements *)

(** [AsyncFd::from_raw] followed by [fd()] / [kind()] gives back what went in, for every
    non-negative [i32] and both kinds. *)
Definition fd_word_roundtrip : Prop :=
  forall fd k, fd < two31 ->
    fd_of (mk_word fd k) = fd /\ kind_of (mk_word fd k) = k /\ mk_word fd k < two32.

(** Whatever a10 emits to close the descriptor held in an [AsyncFd] made from [(fd, k)] — the
    CLOSE submission of [Drop] and of [close()], or the synchronous fallback — the kernel,
    reading it by the io_uring ABI, closes exactly descriptor [fd] of table [k]. *)
Definition close_encoding : Prop :=
  forall fd k, fd < two31 ->
    kernel_close_target (close_sqe fd k) = Some (fd, k)
    /\ kernel_sys_target (fallback_close fd k) = Some (fd, k)
    /\ (let w := mk_word fd k in
        kernel_close_target (close_sqe (fd_of w) (kind_of w)) = Some (fd, k)
        /\ kernel_sys_target (fallback_close (fd_of w) (kind_of w)) = Some (fd, k)).

Lemma fd_word_roundtrip_holds : fd_word_roundtrip.
Proof.
  intros fd k H. split; [apply fd_of_mk_word; exact H|].
  split; [apply kind_of_mk_word; exact H|apply mk_word_lt; exact H].
Qed.

Lemma close_encoding_holds : close_encoding.
Proof.
  intros fd k H. split; [apply kernel_close_target_close_sqe; exact H|].
  split; [apply kernel_sys_target_fallback|].
  cbv zeta. rewrite fd_of_mk_word, kind_of_mk_word by exact H.
  split; [apply kernel_close_target_close_sqe; exact H|apply kernel_sys_target_fallback].
Qed.

(** * Counting descriptors *)

Lemma kind_eqb_eq a b : kind_eqb a b = true <-> a = b.
Proof. destruct a, b; cbn; split; congruence. Qed.

Lemma desc_eqb_eq (a b : desc) : desc_eqb a b = true <-> a = b.
Proof.
  destruct a as [x k], b as [y k']. unfold desc_eqb; cbn [fst snd].
  rewrite andb_true_iff, N.eqb_eq, kind_eqb_eq. split; [intros [-> ->]; reflexivity|].
  intros H; inversion H; auto.
Qed.

Definition desc_dec : forall a b : desc, {a = b} + {a <> b}.
Proof. decide equality; [decide equality|apply N.eq_dec]. Defined.

Notation cnt := (count_occ desc_dec).
Definition one (d d' : desc) : nat := if desc_dec d d' then 1%nat else 0%nat.

Lemma cnt_cons x l d : cnt (x :: l) d = (one x d + cnt l d)%nat.
Proof. unfold one. cbn [count_occ]. destruct (desc_dec x d); reflexivity. Qed.

Lemma cnt_single x d : cnt [x] d = one x d.
Proof. rewrite cnt_cons. cbn [count_occ]. lia. Qed.

Lemma one_refl d : one d d = 1%nat.
Proof. unfold one. destruct (desc_dec d d); congruence. Qed.

Lemma memd_In d l : memd d l = true <-> In d l.
Proof.
  unfold memd. rewrite existsb_exists. split.
  - intros (x & Hx & E). apply desc_eqb_eq in E. subst. exact Hx.
  - intros H. exists d. split; [exact H|apply desc_eqb_eq; reflexivity].
Qed.

Lemma cnt_pos_In l d : (cnt l d >= 1)%nat <-> In d l.
Proof. rewrite (count_occ_In desc_dec). lia. Qed.

Lemma cnt_remove_one d l d' :
  In d l -> (cnt (remove_one d l) d' + one d d' = cnt l d')%nat.
Proof.
  induction l as [|x l IH]; intros H; [destruct H|].
  cbn [remove_one]. destruct (desc_eqb d x) eqn:E.
  - apply desc_eqb_eq in E. subst x. rewrite cnt_cons. lia.
  - destruct H as [H|H]; [subst x; assert (desc_eqb d d = true) by (apply desc_eqb_eq; reflexivity); congruence|].
    rewrite !cnt_cons. specialize (IH H). lia.
Qed.

Lemma In_remove_one d l x : In x (remove_one d l) -> In x l.
Proof.
  induction l as [|y l IH]; cbn [remove_one]; [auto|].
  destruct (desc_eqb d y); cbn [In]; intuition.
Qed.

Lemma NoDup_remove_one d l : NoDup l -> NoDup (remove_one d l).
Proof.
  induction 1 as [|y l Hy Hl IH]; cbn [remove_one]; [constructor|].
  destruct (desc_eqb d y); [exact Hl|]. constructor; [|exact IH].
  intros H. apply Hy. eapply In_remove_one; exact H.
Qed.

Lemma cnt_flat_map_set_nth {A : Type} (f : A -> list desc) l i x y d :
  nth_error l i = Some x ->
  (cnt (f x) d + cnt (flat_map f (set_nth l i y)) d = cnt (f y) d + cnt (flat_map f l) d)%nat.
Proof.
  revert i; induction l as [|z l IH]; intros [|i] H; cbn [nth_error] in H; try discriminate.
  - inversion H; subst z. cbn [set_nth flat_map]. rewrite !count_occ_app. lia.
  - cbn [set_nth flat_map]. rewrite !count_occ_app. specialize (IH i H). lia.
Qed.

Lemma cnt_flat_map_snoc {A : Type} (f : A -> list desc) l x d :
  cnt (flat_map f (l ++ [x])) d = (cnt (flat_map f l) d + cnt (f x) d)%nat.
Proof. rewrite flat_map_app, count_occ_app. cbn [flat_map]. rewrite app_nil_r. reflexivity. Qed.

Lemma pair_kind_app k a b : pair_kind k (a ++ b) = pair_kind k a ++ pair_kind k b.
Proof. apply map_app. Qed.

Lemma In_pair_kind k l d : In d (pair_kind k l) <-> exists fd, d = (fd, k) /\ In fd l.
Proof.
  unfold pair_kind. rewrite in_map_iff. split; intros (fd & H1 & H2); exists fd; auto.
Qed.

(** * The invariant *)

(** How many holders descriptor [d] has. *)
Definition ocnt (s : st) (d : desc) : nat :=
  (cnt (owned s) d + cnt (in_results s) d + cnt (closing s) d + cnt (queued_closes s) d
   + cnt (leak12 s) d + cnt (leak19 s) d)%nat.

Lemma cnt_owners s d : cnt (owners s) d = ocnt s d.
Proof. unfold owners, ocnt. rewrite !count_occ_app. lia. Qed.

Definition Inv (s : st) : Prop :=
  (forall d, cnt (kopen s) d = ocnt s d)
  /\ NoDup (kopen s)
  /\ bad s = []
  /\ (forall d, cnt (issued s) d = (cnt (closed s) d + cnt (kopen s) d)%nat)
  /\ (forall d, In d (kopen s) -> is_std d = false /\ fst d < two31)
  /\ (forall d, In d (closed s) -> is_std d = false).

(** The kernel's tables and the ghost history are untouched. *)
Definition frame (s s' : st) : Prop :=
  kopen s' = kopen s /\ issued s' = issued s /\ closed s' = closed s /\ bad s' = bad s.

Lemma frame_refl s : frame s s.
Proof. repeat split. Qed.

Lemma frame_trans a b c : frame a b -> frame b c -> frame a c.
Proof. unfold frame. intros (?&?&?&?) (?&?&?&?). repeat split; congruence. Qed.

Lemma inv_move s s' : Inv s -> frame s s' -> (forall d, ocnt s' d = ocnt s d) -> Inv s'.
Proof.
  intros (I1 & I2 & I3 & I4 & I5 & I6) (F1 & F2 & F3 & F4) H.
  unfold Inv. rewrite F1, F2, F3, F4.
  split; [intros d; rewrite H; apply I1|]. repeat (split; [assumption|]). assumption.
Qed.

Lemma inv_issue s s' ds :
  Inv s ->
  kopen s' = kopen s ++ ds -> issued s' = issued s ++ ds -> closed s' = closed s -> bad s' = bad s ->
  (forall d, ocnt s' d = (ocnt s d + cnt ds d)%nat) ->
  NoDup ds ->
  (forall d, In d ds -> ~ In d (kopen s) /\ is_std d = false /\ fst d < two31) ->
  Inv s'.
Proof.
  intros (I1 & I2 & I3 & I4 & I5 & I6) F1 F2 F3 F4 H ND Hds.
  unfold Inv. rewrite F1, F2, F3, F4.
  split; [|split; [|split; [exact I3|split; [|split; [|exact I6]]]]].
  - intros d. rewrite H, count_occ_app, I1. reflexivity.
  - apply (NoDup_count_occ desc_dec). intros d. rewrite count_occ_app.
    pose proof (proj1 (NoDup_count_occ desc_dec _) I2 d).
    pose proof (proj1 (NoDup_count_occ desc_dec _) ND d).
    destruct (in_dec desc_dec d ds) as [Hin|Hin].
    + destruct (Hds d Hin) as (Hn & _). apply (count_occ_not_In desc_dec) in Hn. lia.
    + apply (count_occ_not_In desc_dec) in Hin. lia.
  - intros d. rewrite !count_occ_app, I4. lia.
  - intros d Hd. apply in_app_or in Hd. destruct Hd as [Hd|Hd]; [apply I5; exact Hd|apply Hds; exact Hd].
Qed.

Lemma ocnt_kclose s d d' : ocnt (kclose s d) d' = ocnt s d'.
Proof. unfold kclose. destruct (memd d (kopen s)); reflexivity. Qed.

Lemma inv_close s s1 d :
  Inv s -> frame s s1 ->
  (forall d', (ocnt s1 d' + one d d')%nat = ocnt s d') ->
  Inv (kclose s1 d).
Proof.
  intros (I1 & I2 & I3 & I4 & I5 & I6) (F1 & F2 & F3 & F4) H.
  assert (Hin : In d (kopen s)).
  { apply cnt_pos_In. rewrite I1, <- H, one_refl. lia. }
  unfold Inv. split; [intros d'; rewrite ocnt_kclose; revert d'|].
  all: unfold kclose; rewrite F1; rewrite (proj2 (memd_In d (kopen s)) Hin);
    cbn [kopen issued closed bad]; rewrite ?F1, ?F2, ?F3, ?F4.
  - intros d'. pose proof (cnt_remove_one d (kopen s) d' Hin). specialize (H d'). rewrite I1 in H0. lia.
  - split; [apply NoDup_remove_one; exact I2|]. split; [exact I3|].
    split; [|split].
    + intros d'. pose proof (cnt_remove_one d (kopen s) d' Hin). rewrite count_occ_app, cnt_single, I4. lia.
    + intros d' Hd'. apply I5. eapply In_remove_one; exact Hd'.
    + intros d' Hd'. apply in_app_or in Hd'. destruct Hd' as [Hd'|[<-|[]]]; [apply I6; exact Hd'|apply I5; exact Hin].
Qed.

(** * Every step preserves the invariant *)

Ltac proj :=
  cbn [cap nslots handles ops closes sq kopen issued closed bad leak12 leak19
       set_handles set_ops set_closes set_sq add_leak12 add_leak19 issue push add_handle
       set_handle set_op set_close] in *.
Ltac fr := unfold frame; proj; repeat split; reflexivity.
Ltac ounfold := unfold ocnt, owned, in_results, closing, queued_closes; proj.

Lemma cnt_nil d : cnt [] d = 0%nat.
Proof. reflexivity. Qed.

Lemma fresh_spec s d :
  fresh s d = true -> fst d < two31 /\ ~ In d (kopen s) /\ is_std d = false.
Proof.
  unfold fresh. rewrite !andb_true_iff, !negb_true_iff. intros (((H1 & H2) & H3) & _).
  split; [lia|]. split; [|exact H3]. intros Hin. apply memd_In in Hin. congruence.
Qed.

Lemma hdesc_wrap fd k : fd < two31 -> hdesc (wrap fd k) = [(fd, k)].
Proof.
  intros H. unfold hdesc, wrap; cbn [h_live h_std h_word andb negb].
  rewrite fd_of_mk_word, kind_of_mk_word by exact H. reflexivity.
Qed.

Lemma inv_adopt s fd : Inv s -> Inv (adopt s fd).
Proof.
  intros HI. unfold adopt. destruct (fresh s (fd, Regular)) eqn:F; [|exact HI].
  apply fresh_spec in F. cbn [fst] in F. destruct F as (F1 & F2 & F3).
  apply (inv_issue s _ [(fd, Regular)]); try reflexivity; try exact HI.
  - intros d. ounfold. rewrite cnt_flat_map_snoc, hdesc_wrap by exact F1. lia.
  - repeat constructor. intros [].
  - intros d [<-|[]]. auto.
Qed.

Lemma inv_std_stream s n : Inv s -> Inv (std_stream s n).
Proof.
  intros HI. unfold std_stream. destruct (n <? 3); [|exact HI].
  apply (inv_move s); [exact HI|fr|].
  intros d. ounfold. rewrite cnt_flat_map_snoc. cbn. lia.
Qed.

Lemma inv_new_op s c : Inv s -> Inv (new_op s c).
Proof.
  intros HI. unfold new_op. destruct (new_op_kind s c); [|exact HI].
  apply (inv_move s); [exact HI|fr|].
  intros d. ounfold. rewrite cnt_flat_map_snoc. cbn. lia.
Qed.

Lemma hand_out_spec k fds : forall s,
  (forall fd, In fd fds -> fd < two31) ->
  let s' := fst (hand_out s k fds) in
  frame s s' /\ ops s' = ops s /\ closes s' = closes s /\ sq s' = sq s
  /\ leak12 s' = leak12 s /\ leak19 s' = leak19 s
  /\ forall d, cnt (owned s') d = (cnt (owned s) d + cnt (pair_kind k fds) d)%nat.
Proof.
  induction fds as [|fd r IH]; intros s H; cbn [hand_out].
  - cbn [fst pair_kind map count_occ]. repeat split. intros d. lia.
  - destruct (hand_out (add_handle s (wrap fd k)) k r) as [s1 o] eqn:E. cbn [fst].
    specialize (IH (add_handle s (wrap fd k))). rewrite E in IH. cbn [fst] in IH.
    destruct IH as (F & E1 & E2 & E3 & E4 & E5 & E6); [intros x Hx; apply H; right; exact Hx|].
    split; [eapply frame_trans; [|exact F]; fr|].
    rewrite E1, E2, E3, E4, E5. repeat (split; [reflexivity|]).
    intros d. rewrite E6. unfold owned; proj. rewrite cnt_flat_map_snoc, hdesc_wrap by (apply H; left; reflexivity).
    rewrite cnt_single. change (pair_kind k (fd :: r)) with ((fd, k) :: pair_kind k r). rewrite cnt_cons. lia.
Qed.

Lemma cnt_flat_map_nth {A : Type} (f : A -> list desc) l i x d :
  nth_error l i = Some x -> (cnt (f x) d <= cnt (flat_map f l) d)%nat.
Proof.
  revert i; induction l as [|z l IH]; intros [|i] H; cbn [nth_error] in H; try discriminate;
    cbn [flat_map]; rewrite count_occ_app.
  - inversion H; subst. lia.
  - specialize (IH i H). lia.
Qed.

Lemma held_is_open s d : Inv s -> (ocnt s d >= 1)%nat -> In d (kopen s).
Proof. intros (I1 & _) H. apply cnt_pos_In. rewrite I1. exact H. Qed.

Lemma opdescs_bound s i o d :
  Inv s -> nth_error (ops s) i = Some o -> In d (opdescs o) -> fst d < two31.
Proof.
  intros HI Hn Hd. pose proof HI as (_ & _ & _ & _ & I5 & _).
  apply (I5 d). apply held_is_open; [exact HI|].
  apply cnt_pos_In in Hd. pose proof (cnt_flat_map_nth opdescs _ _ _ d Hn).
  unfold ocnt, in_results. lia.
Qed.

Lemma all_fresh_spec s ds :
  all_fresh s ds = true ->
  NoDup ds /\ forall d, In d ds -> ~ In d (kopen s) /\ is_std d = false /\ fst d < two31.
Proof.
  unfold all_fresh. destruct ds as [|d1 [|d2 [|d3 r]]]; try discriminate.
  - intros F. apply fresh_spec in F. split; [repeat constructor; intros []|].
    intros d [<-|[]]. tauto.
  - rewrite !andb_true_iff, negb_true_iff. intros ((F1 & F2) & F3).
    apply fresh_spec in F1. apply fresh_spec in F2. split.
    + constructor; [|repeat constructor; intros []]. intros [E|[]]. subst d2.
      assert (desc_eqb d1 d1 = true) by (apply desc_eqb_eq; reflexivity). congruence.
    + intros d [<-|[<-|[]]]; tauto.
Qed.

Lemma all_fresh_set_op s i o ds : all_fresh (set_op s i o) ds = all_fresh s ds.
Proof. destruct ds as [|d1 [|d2 [|d3 r]]]; reflexivity. Qed.

Lemma inv_deliver s i o o' c :
  Inv s -> nth_error (ops s) i = Some o -> o_kind o' = o_kind o ->
  (forall d, cnt (opdescs o) d = (cnt (opdescs o') d + cnt (pair_kind (o_kind o) (cqe_fds c)) d)%nat) ->
  Inv (fst (deliver s i o' c)).
Proof.
  intros HI Hn Hk Hc. unfold deliver, deliver_with, cqe_fds in *. destruct (fst c) as [fds|e|fds].
  - assert (Hb : forall fd, In fd fds -> fd < two31).
    { intros fd Hfd. change fd with (fst (fd, o_kind o)). eapply opdescs_bound; [exact HI|exact Hn|].
      apply cnt_pos_In. rewrite Hc. assert (In (fd, o_kind o) (pair_kind (o_kind o) fds)) by (apply In_pair_kind; eauto).
      apply cnt_pos_In in H. lia. }
    pose proof (hand_out_spec (o_kind o') fds (set_op s i o') Hb) as (F & E1 & E2 & E3 & E4 & E5 & E6).
    cbv zeta in *. apply (inv_move s); [exact HI|eapply frame_trans; [|exact F]; fr|].
    intros d. unfold ocnt, in_results, closing, queued_closes. rewrite E1, E2, E3, E4, E5, E6. ounfold.
    pose proof (cnt_flat_map_set_nth opdescs _ _ _ o' d Hn). rewrite Hk. specialize (Hc d). lia.
  - cbn [fst]. apply (inv_move s); [exact HI|fr|].
    intros d. ounfold. pose proof (cnt_flat_map_set_nth opdescs _ _ _ o' d Hn).
    specialize (Hc d). cbn [pair_kind map count_occ] in Hc. lia.
  - (* PipeOp::fallback: pipe2(2) issues two process descriptors, wrapped as Regular *)
    rewrite all_fresh_set_op. unfold pipe_fallback_kind.
    destruct (all_fresh s (pair_kind Regular fds)) eqn:F.
    + apply all_fresh_spec in F. destruct F as (ND & Hds).
      assert (Hb : forall fd, In fd fds -> fd < two31).
      { intros fd Hfd. change fd with (fst (fd, Regular)). apply Hds. apply In_pair_kind; eauto. }
      pose proof (hand_out_spec Regular fds (issue (set_op s i o') (pair_kind Regular fds)) Hb)
        as ((K1 & K2 & K3 & K4) & E1 & E2 & E3 & E4 & E5 & E6).
      cbv zeta in *. proj.
      apply (inv_issue s _ (pair_kind Regular fds)); try assumption.
      intros d. unfold ocnt, in_results, closing, queued_closes. rewrite E1, E2, E3, E4, E5, E6. ounfold.
      pose proof (cnt_flat_map_set_nth opdescs _ _ _ o' d Hn). specialize (Hc d).
      cbn [pair_kind map count_occ] in Hc. lia.
    + cbn [fst]. apply (inv_move s); [exact HI|fr|].
      intros d. ounfold. pose proof (cnt_flat_map_set_nth opdescs _ _ _ o' d Hn).
      specialize (Hc d). cbn [pair_kind map count_occ] in Hc. lia.
Qed.

Lemma inv_set_op_same s i o o' :
  Inv s -> nth_error (ops s) i = Some o -> (forall d, cnt (opdescs o') d = cnt (opdescs o) d) ->
  Inv (set_op s i o').
Proof.
  intros HI Hn Hc. apply (inv_move s); [exact HI|fr|].
  intros d. ounfold. pose proof (cnt_flat_map_set_nth opdescs _ _ _ o' d Hn). specialize (Hc d). lia.
Qed.

Lemma ocnt_push s e d : ocnt (push s e) d = (ocnt s d + cnt (qdesc e) d)%nat.
Proof. ounfold. rewrite cnt_flat_map_snoc. lia. Qed.

Lemma inv_push_free s e : Inv s -> qdesc e = [] -> Inv (push s e).
Proof.
  intros HI He. apply (inv_move s); [exact HI|fr|]. intros d. rewrite ocnt_push, He. cbn. lia.
Qed.

Lemma opdescs_take o o' c rest d :
  o_res o = c :: rest -> o_kind o' = o_kind o -> o_posted o' = o_posted o -> o_res o' = rest ->
  cnt (opdescs o) d = (cnt (opdescs o') d + cnt (pair_kind (o_kind o) (cqe_fds c)) d)%nat.
Proof.
  intros E1 E2 E3 E4. unfold opdescs. rewrite E1, E2, E3, E4. unfold cqes_fds. cbn [flat_map].
  rewrite !pair_kind_app, !count_occ_app. lia.
Qed.

Lemma inv_poll_op s i : Inv s -> Inv (fst (poll_op s i)).
Proof.
  intros HI. unfold poll_op, poll_op_with. destruct (nth_error (ops s) i) as [o|] eqn:Hn; [|exact HI].
  destruct (o_st o) eqn:Hst.
  - destruct (room s); [|exact HI]. cbn [fst]. apply inv_push_free; [|reflexivity].
    eapply inv_set_op_same; [exact HI|exact Hn|reflexivity].
  - destruct (cop_multi (o_cop o)); [|exact HI]. destruct (o_res o) as [|c rest] eqn:Hr; [exact HI|].
    eapply inv_deliver; [exact HI|exact Hn|reflexivity|]. intros d. apply (opdescs_take o _ c rest); auto.
  - destruct (o_res o) as [|c rest] eqn:Hr.
    + cbn [fst]. eapply inv_set_op_same; [exact HI|exact Hn|reflexivity].
    + eapply inv_deliver; [exact HI|exact Hn|reflexivity|]. intros d. apply (opdescs_take o _ c rest); auto.
  - exact HI.
  - exact HI.
  - exact HI.
Qed.

Lemma inv_set_op_leak s i o o' lost :
  Inv s -> nth_error (ops s) i = Some o ->
  (forall d, cnt (opdescs o) d = (cnt (opdescs o') d + cnt lost d)%nat) ->
  Inv (add_leak12 (set_op s i o') lost).
Proof.
  intros HI Hn Hc. apply (inv_move s); [exact HI|fr|].
  intros d. ounfold. rewrite count_occ_app.
  pose proof (cnt_flat_map_set_nth opdescs _ _ _ o' d Hn). specialize (Hc d). lia.
Qed.

Lemma opdescs_drop_res o st' d :
  cnt (opdescs o) d =
  (cnt (opdescs (with_ost (with_res o []) st')) d + cnt (pair_kind (o_kind o) (cqes_fds (o_res o))) d)%nat.
Proof.
  unfold opdescs. cbn [with_ost with_res o_kind o_posted o_res cqes_fds flat_map].
  rewrite app_nil_r, pair_kind_app, count_occ_app. reflexivity.
Qed.

Lemma inv_drop_op s i : Inv s -> Inv (drop_op s i).
Proof.
  intros HI. unfold drop_op. destruct (nth_error (ops s) i) as [o|] eqn:Hn; [|exact HI].
  destruct (fut_alive o); [|exact HI].
  assert (G : forall s0, Inv s0 -> nth_error (ops s0) i = Some o -> forall st',
            Inv (add_leak12 (set_op s0 i (with_ost (with_res o []) st')) (pair_kind (o_kind o) (cqes_fds (o_res o))))).
  { intros s0 H0 Hn0 st'. eapply inv_set_op_leak; [exact H0|exact Hn0|]. intros d. apply opdescs_drop_res. }
  destruct (o_st o); try (apply G; [exact HI|exact Hn]).
  destruct (room s); [|apply G; [exact HI|exact Hn]].
  apply G; [apply inv_push_free; [exact HI|reflexivity]|exact Hn].
Qed.

Lemma inv_kcomplete s i fd fd2 more : Inv s -> Inv (kcomplete s i fd fd2 more).
Proof.
  intros HI. unfold kcomplete. destruct (nth_error (ops s) i) as [o|] eqn:Hn; [|exact HI].
  destruct (o_kin o); [|exact HI].
  set (fds := if cop_pair (o_cop o) then [fd; fd2] else [fd]).
  destruct (all_fresh s (pair_kind (o_kind o) fds)) eqn:F; [|exact HI].
  apply all_fresh_spec in F. destruct F as (ND & Hds).
  apply (inv_issue s _ (pair_kind (o_kind o) fds)); try reflexivity; try assumption.
  intros d. ounfold.
  pose proof (cnt_flat_map_set_nth opdescs _ _ _
    (with_kin (with_posted o (o_posted o ++ [(RFds fds, cop_multi (o_cop o) && more)])) (cop_multi (o_cop o) && more)) d Hn) as H.
  unfold opdescs at 1 3 in H. cbn [with_kin with_posted o_kind o_posted o_res] in H.
  unfold cqes_fds in H. rewrite flat_map_app in H. cbn [flat_map cqe_fds fst] in H.
  rewrite app_nil_r, !pair_kind_app, !count_occ_app in H. lia.
Qed.

Lemma inv_kfail s i e : Inv s -> Inv (kfail s i e).
Proof.
  intros HI. unfold kfail. destruct (nth_error (ops s) i) as [o|] eqn:Hn; [|exact HI].
  destruct (o_kin o && plain_errno e); [|exact HI].
  eapply inv_set_op_same; [exact HI|exact Hn|]. intros d.
  unfold opdescs. cbn [with_kin with_posted o_kind o_posted o_res].
  unfold cqes_fds. rewrite flat_map_app. cbn [flat_map cqe_fds fst]. rewrite !app_nil_r. reflexivity.
Qed.

Lemma inv_kpipe_inval s i fd fd2 : Inv s -> Inv (kpipe_inval s i fd fd2).
Proof.
  intros HI. unfold kpipe_inval. destruct (nth_error (ops s) i) as [o|] eqn:Hn; [|exact HI].
  destruct (o_kin o && cop_pair (o_cop o)); [|exact HI].
  eapply inv_set_op_same; [exact HI|exact Hn|]. intros d.
  unfold opdescs. cbn [with_kin with_posted o_kind o_posted o_res].
  unfold cqes_fds. rewrite flat_map_app. cbn [flat_map cqe_fds fst]. rewrite !app_nil_r. reflexivity.
Qed.

Lemma live_handle_nth s h x : live_handle s h = Some x -> nth_error (handles s) h = Some x /\ h_live x = true.
Proof.
  unfold live_handle. destruct (nth_error (handles s) h) as [y|]; [|discriminate].
  destruct (h_live y) eqn:E; [|discriminate]. intros H; inversion H; subst. auto.
Qed.

Lemma hdesc_dead x : hdesc (with_live x false) = [].
Proof. reflexivity. Qed.

Lemma hdesc_live x :
  h_live x = true -> h_std x = false -> hdesc x = [(fd_of (h_word x), kind_of (h_word x))].
Proof. intros H1 H2. unfold hdesc. rewrite H1, H2. reflexivity. Qed.

Lemma hdesc_std x : h_std x = true -> hdesc x = [].
Proof. intros H. unfold hdesc. rewrite H, andb_false_r. reflexivity. Qed.

Lemma qdesc_close_sqe w : opt_list (kernel_close_target (close_sqe (fd_of w) (kind_of w))) = [(fd_of w, kind_of w)].
Proof. rewrite kernel_close_target_close_sqe by apply fd_of_lt. reflexivity. Qed.

Lemma inv_drop_fd s h : Inv s -> Inv (fst (drop_fd s h)).
Proof.
  intros HI. unfold drop_fd. destruct (live_handle s h) as [x|] eqn:Hl; [|exact HI].
  apply live_handle_nth in Hl. destruct Hl as (Hn & Hlive).
  destruct (borrowed s h); [exact HI|].
  destruct (h_std x) eqn:Hstd.
  - cbn [fst]. apply (inv_move s); [exact HI|fr|]. intros d. ounfold.
    pose proof (cnt_flat_map_set_nth hdesc _ _ _ (with_live x false) d Hn) as H.
    rewrite hdesc_dead, (hdesc_std x Hstd) in H. lia.
  - set (s1 := set_handle s h (with_live x false)).
    assert (H1 : forall d, (ocnt s1 d + one (fd_of (h_word x), kind_of (h_word x)) d)%nat = ocnt s d).
    { intros d. subst s1. ounfold.
      pose proof (cnt_flat_map_set_nth hdesc _ _ _ (with_live x false) d Hn) as H.
      rewrite hdesc_dead, (hdesc_live x Hlive Hstd), cnt_single, cnt_nil in H. lia. }
    destruct (room s1).
    + cbn [fst]. apply (inv_move s); [exact HI|fr|]. intros d.
      rewrite ocnt_push. cbn [qdesc]. rewrite qdesc_close_sqe, cnt_single. apply H1.
    + cbn [fst]. rewrite kernel_sys_target_fallback. cbn [kclose_opt].
      apply (inv_close s); [exact HI|fr|exact H1].
Qed.

Lemma inv_close_fd s h : Inv s -> Inv (close_fd s h).
Proof.
  intros HI. unfold close_fd. destruct (live_handle s h) as [x|] eqn:Hl; [|exact HI].
  apply live_handle_nth in Hl. destruct Hl as (Hn & Hlive).
  destruct (borrowed s h); [exact HI|]. cbn [orb]. destruct (h_std x) eqn:Hstd; [exact HI|].
  apply (inv_move s); [exact HI|fr|]. intros d. ounfold.
  pose proof (cnt_flat_map_set_nth hdesc _ _ _ (with_live x false) d Hn) as H.
  rewrite hdesc_dead, (hdesc_live x Hlive Hstd) in H. rewrite cnt_flat_map_snoc.
  cbn [cdesc c_st c_fd c_kind] in *. rewrite cnt_nil in H. lia.
Qed.

Lemma cdesc_bound s c f :
  Inv s -> nth_error (closes s) c = Some f -> c_st f = CNotStarted -> c_fd f < two31.
Proof.
  intros HI Hn Hst. pose proof HI as (_ & _ & _ & _ & I5 & _).
  change (c_fd f) with (fst (c_fd f, c_kind f)). apply I5. apply held_is_open; [exact HI|].
  pose proof (cnt_flat_map_nth cdesc _ _ _ (c_fd f, c_kind f) Hn) as H.
  unfold cdesc in H at 1. rewrite Hst, cnt_single, one_refl in H. unfold ocnt, closing. lia.
Qed.

Lemma inv_set_close_same s c f f' :
  Inv s -> nth_error (closes s) c = Some f -> cdesc f = [] -> cdesc f' = [] -> Inv (set_close s c f').
Proof.
  intros HI Hn E1 E2. apply (inv_move s); [exact HI|fr|]. intros d. ounfold.
  pose proof (cnt_flat_map_set_nth cdesc _ _ _ f' d Hn) as H. rewrite E1, E2 in H. lia.
Qed.

Lemma inv_poll_close s c : Inv s -> Inv (fst (poll_close s c)).
Proof.
  intros HI. unfold poll_close. destruct (nth_error (closes s) c) as [f|] eqn:Hn; [|exact HI].
  destruct (c_st f) eqn:Hst; try exact HI.
  - destruct (room s); [|exact HI]. cbn [fst].
    pose proof (cdesc_bound s c f HI Hn Hst) as Hb.
    apply (inv_move s); [exact HI|fr|]. intros d. rewrite ocnt_push. cbn [qdesc].
    rewrite kernel_close_target_close_sqe by exact Hb. ounfold.
    pose proof (cnt_flat_map_set_nth cdesc _ _ _ (with_cst f CRunning) d Hn) as H.
    unfold cdesc in H at 1 3. rewrite Hst in H. cbn [with_cst c_st opt_list] in *. rewrite cnt_nil in H. rewrite cnt_single in *. lia.
  - cbn [fst]. eapply inv_set_close_same; [exact HI|exact Hn| |reflexivity]. unfold cdesc. rewrite Hst. reflexivity.
Qed.

Lemma inv_drop_close s c : Inv s -> Inv (drop_close s c).
Proof.
  intros HI. unfold drop_close. destruct (nth_error (closes s) c) as [f|] eqn:Hn; [|exact HI].
  destruct (c_st f) eqn:Hst; try exact HI.
  - apply (inv_move s); [exact HI|fr|]. intros d. ounfold. rewrite count_occ_app.
    pose proof (cnt_flat_map_set_nth cdesc _ _ _ (with_cst f CGone) d Hn) as H.
    unfold cdesc in H at 1 3. rewrite Hst in H. cbn [with_cst c_st] in H. rewrite cnt_nil in H. lia.
  - assert (G : forall s0, Inv s0 -> nth_error (closes s0) c = Some f -> Inv (set_close s0 c (with_cst f CGone))).
    { intros s0 H0 Hn0. eapply inv_set_close_same; [exact H0|exact Hn0| |reflexivity]. unfold cdesc. rewrite Hst. reflexivity. }
    destruct (room s); [|apply G; assumption]. apply G; [apply inv_push_free; [exact HI|reflexivity]|exact Hn].
  - eapply inv_set_close_same; [exact HI|exact Hn| |reflexivity]. unfold cdesc. rewrite Hst. reflexivity.
  - eapply inv_set_close_same; [exact HI|exact Hn| |reflexivity]. unfold cdesc. rewrite Hst. reflexivity.
Qed.

(** The kernel consumes one submission. *)
Lemma inv_pop s e r : Inv s -> sq s = e :: r -> qdesc e = [] -> Inv (set_sq s r).
Proof.
  intros HI Hs He. apply (inv_move s); [exact HI|fr|]. intros d. ounfold. rewrite Hs. cbn [flat_map].
  rewrite He. cbn [app]. reflexivity.
Qed.

Lemma inv_pop_close s e r t :
  Inv s -> sq s = e :: r -> qdesc e = opt_list t -> Inv (kclose_opt (set_sq s r) t).
Proof.
  intros HI Hs He. destruct t as [d|]; cbn [kclose_opt opt_list] in *.
  - apply (inv_close s); [exact HI|fr|]. intros d'. ounfold. rewrite Hs. cbn [flat_map].
    rewrite He, count_occ_app, cnt_single. lia.
  - eapply inv_pop; eassumption.
Qed.

Lemma closes_kclose_opt s t : closes (kclose_opt s t) = closes s.
Proof. destruct t as [d|]; [|reflexivity]. unfold kclose_opt, kclose. destruct (memd d (kopen s)); reflexivity. Qed.

Lemma inv_exec s e r : Inv s -> sq s = e :: r -> Inv (fst (exec (set_sq s r) e)).
Proof.
  intros HI Hs. destruct e as [q|c q|i|i|c]; cbn [exec fst].
  - eapply inv_pop_close; [exact HI|exact Hs|reflexivity].
  - pose proof (inv_pop_close s _ r (kernel_close_target q) HI Hs eq_refl) as H1.
    set (s1 := kclose_opt (set_sq s r) (kernel_close_target q)) in *.
    destruct (nth_error (closes s1) c) as [f|] eqn:Hn; [|exact H1].
    destruct (c_st f) eqn:Hst; try exact H1.
    eapply inv_set_close_same; [exact H1|exact Hn| |reflexivity]. unfold cdesc. rewrite Hst. reflexivity.
  - pose proof (inv_pop s _ r HI Hs eq_refl) as H1. proj.
    destruct (nth_error (ops s) i) as [o|] eqn:Hn; [|exact H1].
    eapply inv_set_op_same; [exact H1|exact Hn|reflexivity].
  - eapply inv_pop; [exact HI|exact Hs|reflexivity].
  - eapply inv_pop; [exact HI|exact Hs|reflexivity].
Qed.

Lemma inv_consume fuel : forall s, Inv s -> Inv (fst (consume fuel s)).
Proof.
  induction fuel as [|f IH]; intros s HI; cbn [consume]; [exact HI|].
  destruct (sq s) as [|e r] eqn:Hs; [exact HI|].
  pose proof (inv_exec s e r HI Hs) as H1.
  destruct (exec (set_sq s r) e) as [s1 o1]. cbn [fst] in H1.
  specialize (IH s1 H1). destruct (consume f s1) as [s2 o2]. exact IH.
Qed.

(** Completion processing. *)
Lemma update1_spec o c o' lost p d k :
  update1 o c = (o', lost, p) ->
  o_kind o' = o_kind o /\ o_posted o' = o_posted o
  /\ (cnt (pair_kind k (cqes_fds (o_res o'))) d + cnt (pair_kind k lost) d
      = cnt (pair_kind k (cqes_fds (o_res o))) d + cnt (pair_kind k (cqe_fds c)) d)%nat.
Proof.
  unfold update1. destruct (o_st o); intros H; inversion H; subst; clear H;
    cbn [with_ost with_res o_kind o_posted o_res]; (split; [reflexivity|]); (split; [reflexivity|]);
    unfold cqes_fds; rewrite ?flat_map_app; cbn [flat_map]; rewrite ?app_nil_r, ?pair_kind_app, ?count_occ_app;
    cbn [pair_kind map]; rewrite ?cnt_nil; lia.
Qed.

Lemma updates_spec cs : forall o o' lost p d k,
  updates o cs = (o', lost, p) ->
  o_kind o' = o_kind o /\ o_posted o' = o_posted o
  /\ (cnt (pair_kind k (cqes_fds (o_res o'))) d + cnt (pair_kind k lost) d
      = cnt (pair_kind k (cqes_fds (o_res o))) d + cnt (pair_kind k (cqes_fds cs)) d)%nat.
Proof.
  induction cs as [|c r IH]; intros o o' lost p d k H; cbn [updates] in H.
  - inversion H; subst. split; [reflexivity|]. split; [reflexivity|].
    cbn [cqes_fds flat_map pair_kind map]. rewrite !cnt_nil. lia.
  - destruct (update1 o c) as [[o1 l1] p1] eqn:E1. destruct (updates o1 r) as [[o2 l2] p2] eqn:E2.
    inversion H; subst; clear H.
    destruct (update1_spec _ _ _ _ _ d k E1) as (A1 & A2 & A3).
    destruct (IH _ _ _ _ d k E2) as (B1 & B2 & B3).
    split; [congruence|]. split; [congruence|].
    unfold cqes_fds in *. cbn [flat_map]. rewrite !pair_kind_app, !count_occ_app. lia.
Qed.

Lemma process_op_spec o d :
  let r := process_op o in
  (cnt (opdescs (fst (fst r))) d + cnt (pair_kind (o_kind (fst (fst r))) (snd (fst r))) d
   = cnt (opdescs o) d)%nat.
Proof.
  cbv zeta. unfold process_op. destruct (updates (with_posted o []) (o_posted o)) as [[o' lost] p] eqn:E.
  cbn [fst snd]. destruct (updates_spec _ _ _ _ _ d (o_kind o) E) as (A1 & A2 & A3).
  cbn [with_posted o_kind o_posted o_res] in *. unfold opdescs. rewrite A1, A2.
  cbn [cqes_fds flat_map app]. rewrite pair_kind_app, count_occ_app.
  change (flat_map cqe_fds (o_posted o)) with (cqes_fds (o_posted o)). lia.
Qed.

Lemma process_ops_spec l d :
  (cnt (flat_map opdescs (map (fun r => fst (fst r)) (map process_op l))) d
   + cnt (flat_map (fun r => pair_kind (o_kind (fst (fst r))) (snd (fst r))) (map process_op l)) d
   = cnt (flat_map opdescs l) d)%nat.
Proof.
  induction l as [|o l IH]; [reflexivity|]. cbn [map flat_map]. rewrite !count_occ_app.
  pose proof (process_op_spec o d) as H. cbv zeta in H. lia.
Qed.

Lemma inv_process_all s : Inv s -> Inv (fst (process_all s)).
Proof.
  intros HI. unfold process_all. cbn [fst]. apply (inv_move s); [exact HI|fr|].
  intros d. ounfold. rewrite count_occ_app. pose proof (process_ops_spec (ops s) d). lia.
Qed.

Lemma inv_ring_poll s : Inv s -> Inv (fst (ring_poll s)).
Proof.
  intros HI. unfold ring_poll.
  assert (H1 : Inv (fst (if cq_empty s then consume (length (sq s)) s else (s, [])))).
  { destruct (cq_empty s); [apply inv_consume; exact HI|exact HI]. }
  destruct (if cq_empty s then consume (length (sq s)) s else (s, [])) as [s1 o1]. cbn [fst] in H1.
  pose proof (inv_process_all s1 H1) as H2. destruct (process_all s1) as [s2 o2]. exact H2.
Qed.

Lemma inv_step s e : Inv s -> Inv (fst (step s e)).
Proof.
  intros HI. unfold step. destruct e; cbn [step_with fst].
  - apply inv_adopt; exact HI.
  - apply inv_std_stream; exact HI.
  - apply inv_new_op; exact HI.
  - apply inv_poll_op; exact HI.
  - apply inv_drop_op; exact HI.
  - apply inv_kcomplete; exact HI.
  - apply inv_kfail; exact HI.
  - apply inv_kpipe_inval; exact HI.
  - apply inv_ring_poll; exact HI.
  - apply inv_drop_fd; exact HI.
  - apply inv_close_fd; exact HI.
  - apply inv_poll_close; exact HI.
  - apply inv_drop_close; exact HI.
Qed.

Lemma inv_init c n : Inv (init c n).
Proof.
  unfold Inv, init, ocnt, owned, in_results, closing, queued_closes; cbn.
  repeat split; try constructor; intros; try contradiction; lia.
Qed.

Definition reach (cap0 nslots0 : N) (es : list event) : st := fst (run step (init cap0 nslots0) es).

Lemma inv_reach c n es : Inv (reach c n es).
Proof. unfold reach. apply run_invariant; [intros s e; apply inv_step|apply inv_init]. Qed.

(** * Statements *)

(** The two known-finding classes, by name. Both lists are filled by the model at exactly the
    code points described in Model/FdTable.v: [leak12] where [Shared::update] meets a dropped
    future ("we can safely drop the state": the result is not looked at) or [State::drop] frees a
    state that still holds results; [leak19] where a [Close] future is dropped in
    [Status::NotStarted]. *)
Definition delivered_to_abandoned_op (s : st) (d : desc) : Prop := In d (leak12 s).
Definition close_future_never_started (s : st) (d : desc) : Prop := In d (leak19 s).

(** C07 main: for every ring size, every size of the direct descriptor table (or none) and every
    history of descriptor-creating operations, completions, polls, drops and explicit closes —
    - [bad s = []]: every close the kernel has executed (a CLOSE submission decoded by the ABI,
      [close(2)], a files update) hit a descriptor that was open at that moment, with that number
      in that table: none was closed twice, none that was never issued, none as the other kind;
    - every descriptor ever issued has been closed once or is still open, and nothing is open
      twice; closes of a number never outnumber its issues;
    - every open descriptor has exactly one holder: a live [AsyncFd] whose word decodes to that
      number and the kind the request asked for, a completion its creator has not taken yet, a
      [close()] future, a CLOSE submission in the queue — or it is in one of the two known
      classes;
    - the standard streams are never closed;
    - at rest (no live [AsyncFd], no untaken result, no unsubmitted close future, queue
      consumed) the open descriptors are exactly the two known classes, and with those empty
      everything that was issued has been closed. *)
Definition descriptor_closed_exactly_once : Prop :=
  forall cap0 nslots0 es, let s := reach cap0 nslots0 es in
    bad s = []
    /\ Permutation (issued s) (closed s ++ kopen s)
    /\ NoDup (kopen s)
    /\ (forall d, (count_occ desc_dec (closed s) d <= count_occ desc_dec (issued s) d)%nat)
    /\ Permutation (kopen s)
         (owned s ++ in_results s ++ closing s ++ queued_closes s ++ leak12 s ++ leak19 s)
    /\ (forall d, is_std d = true -> ~ In d (closed s) /\ ~ In d (bad s) /\ ~ In d (kopen s))
    /\ (quiescent s = true ->
        Permutation (kopen s) (leak12 s ++ leak19 s)
        /\ (forall d, In d (kopen s) <-> delivered_to_abandoned_op s d \/ close_future_never_started s d))
    /\ (quiescent s = true ->
        (forall d, ~ delivered_to_abandoned_op s d) -> (forall d, ~ close_future_never_started s d) ->
        kopen s = [] /\ Permutation (issued s) (closed s)).

(** What one would like to hold without the two exceptions. *)
Definition all_closed_at_rest : Prop :=
  forall cap0 nslots0 es, let s := reach cap0 nslots0 es in
    quiescent s = true -> Permutation (issued s) (closed s).

Lemma quiescent_spec s :
  quiescent s = true -> owned s = [] /\ in_results s = [] /\ closing s = [] /\ queued_closes s = [].
Proof.
  unfold quiescent, queued_closes. destruct (owned s), (in_results s), (closing s), (sq s); try discriminate.
  auto.
Qed.

Lemma descriptor_closed_exactly_once_holds : descriptor_closed_exactly_once.
Proof.
  intros c n es s. pose proof (inv_reach c n es) as HI. fold s in HI.
  destruct HI as (I1 & I2 & I3 & I4 & I5 & I6).
  assert (P1 : Permutation (issued s) (closed s ++ kopen s)).
  { apply (Permutation_count_occ desc_dec). intros d. rewrite count_occ_app. apply I4. }
  assert (P2 : Permutation (kopen s)
           (owned s ++ in_results s ++ closing s ++ queued_closes s ++ leak12 s ++ leak19 s)).
  { apply (Permutation_count_occ desc_dec). intros d. rewrite I1, <- cnt_owners. reflexivity. }
  split; [exact I3|]. split; [exact P1|]. split; [exact I2|].
  split; [intros d; rewrite I4; lia|]. split; [exact P2|].
  split.
  { intros d Hd. rewrite I3. split; [|split; [intros []|]].
    - intros H. apply I6 in H. congruence.
    - intros H. apply I5 in H. destruct H; congruence. }
  assert (Q : quiescent s = true -> Permutation (kopen s) (leak12 s ++ leak19 s)).
  { intros Hq. destruct (quiescent_spec s Hq) as (E1 & E2 & E3 & E4).
    rewrite E1, E2, E3, E4 in P2. exact P2. }
  split.
  - intros Hq. split; [apply Q; exact Hq|]. intros d. unfold delivered_to_abandoned_op, close_future_never_started.
    rewrite <- in_app_iff. split; intros H.
    + eapply Permutation_in; [apply Q; exact Hq|exact H].
    + eapply Permutation_in; [apply Permutation_sym, Q; exact Hq|exact H].
  - intros Hq H12 H19. specialize (Q Hq).
    assert (E12 : leak12 s = []) by (destruct (leak12 s) as [|x l] eqn:E; [reflexivity|exfalso; apply (H12 x); unfold delivered_to_abandoned_op; rewrite E; left; reflexivity]).
    assert (E19 : leak19 s = []) by (destruct (leak19 s) as [|x l] eqn:E; [reflexivity|exfalso; apply (H19 x); unfold close_future_never_started; rewrite E; left; reflexivity]).
    rewrite E12, E19 in Q. cbn [app] in Q. apply Permutation_sym, Permutation_nil in Q.
    split; [exact Q|]. rewrite Q, app_nil_r in P1. exact P1.
Qed.

(** ** Witnesses for the two known findings (the code as it is) *)

(** H12, first form: the future of [open] is dropped while the request is in flight; the kernel
    then returns descriptor 5; [Ring::poll] processes the completion. *)
Definition h12_inflight : list event :=
  [NewOp (COpen Regular); PollOp 0; RingPoll; DropOp 0; KComplete 0 5 0 false; RingPoll; RingPoll].

(** H12, second form: the completion has been processed (the state is [Done]) and the future is
    dropped without having been polled again. *)
Definition h12_done : list event :=
  [NewOp (CSocket Direct); PollOp 0; RingPoll; KComplete 0 2 0 false; RingPoll; DropOp 0; RingPoll].

(** H19: [close()] is called and the returned future dropped before its first poll. *)
Definition h19_history : list event := [Adopt 5; CloseFd 0; DropClose 0; RingPoll].

Lemma delivered_to_abandoned_op_refuted :
  exists cap0 nslots0 es d, let s := reach cap0 nslots0 es in
    quiescent s = true /\ delivered_to_abandoned_op s d /\ In d (kopen s) /\ ~ In d (closed s)
    /\ leak19 s = [].
Proof.
  exists 4, 0, h12_inflight, (5, Regular). vm_compute.
  split; [reflexivity|]. split; [left; reflexivity|]. split; [left; reflexivity|]. split; [intros []|reflexivity].
Qed.

Lemma delivered_to_finished_unpolled_op_refuted :
  exists cap0 nslots0 es d, let s := reach cap0 nslots0 es in
    quiescent s = true /\ delivered_to_abandoned_op s d /\ In d (kopen s) /\ ~ In d (closed s)
    /\ leak19 s = [].
Proof.
  exists 4, 4, h12_done, (2, Direct). vm_compute.
  split; [reflexivity|]. split; [left; reflexivity|]. split; [left; reflexivity|]. split; [intros []|reflexivity].
Qed.

Lemma close_future_never_started_refuted :
  exists cap0 nslots0 es d, let s := reach cap0 nslots0 es in
    quiescent s = true /\ close_future_never_started s d /\ In d (kopen s) /\ ~ In d (closed s)
    /\ leak12 s = [].
Proof.
  exists 4, 0, h19_history, (5, Regular). vm_compute.
  split; [reflexivity|]. split; [left; reflexivity|]. split; [left; reflexivity|]. split; [intros []|reflexivity].
Qed.

(** H30 (before cabaa94): a CLOSE answered with EINTR was submitted again. Descriptor 5 is opened,
    closed explicitly (the kernel closes it and reports EINTR), the number is handed out again to a
    socket, and the restarted close future closes the socket's descriptor: a close of a descriptor
    that belongs to somebody else ([bad] for the second owner's later drop, which finds nothing). *)
Definition h30_history_a : list event :=
  [NewOp (COpen Regular); PollOp 0; RingPoll; KComplete 0 5 0 false; RingPoll; PollOp 0;
   CloseFd 0; PollClose 0; RingPoll].
Definition h30_history_b : list event :=
  [NewOp (CSocket Regular); PollOp 1; RingPoll; KComplete 1 5 0 false; RingPoll; PollOp 1;
   PollClose 0; RingPoll; DropFd 1; RingPoll].

Lemma close_restarted_after_eintr_h30_refuted :
  let s1 := fst (run step (init 4 0) h30_history_a) in
  let s2 := fst (run step (restart_close_h30 s1 0) h30_history_b) in
  let s2' := fst (run step s1 h30_history_b) in
  closed s1 = [(5, Regular)] /\ bad s2 <> [] /\ bad s2' = [].
Proof. vm_compute. split; [reflexivity|]. split; [discriminate|reflexivity]. Qed.

Lemma all_closed_at_rest_refuted : ~ all_closed_at_rest.
Proof.
  intros H. specialize (H 4 0 h12_inflight). cbv zeta in H.
  assert (Q : quiescent (reach 4 0 h12_inflight) = true) by (vm_compute; reflexivity).
  specialize (H Q). apply Permutation_length in H. vm_compute in H. discriminate.
Qed.

(** ** Non-vacuity: a history that issues a descriptor of every origin, closes one through each
    of the four paths (CLOSE from [Drop], files-update fallback with the queue full, [close(2)]
    fallback, CLOSE from a polled [close()] future) and comes to rest with everything closed. *)
Definition example_history : list event :=
  [Adopt 7; Adopt 9; StdStream 1; NewOp (CSocket Direct); PollOp 0; RingPoll; KComplete 0 0 0 false; RingPoll;
   PollOp 0; NewOp (CToFd 3); PollOp 1; RingPoll; KComplete 1 8 0 false; RingPoll; PollOp 1;
   DropOp 0; DropOp 1; DropFd 0; DropFd 3; DropFd 1; DropFd 2; CloseFd 4; PollClose 0; RingPoll;
   PollClose 0; RingPoll; PollClose 0].

Example descriptor_closed_exactly_once_nonvacuous :
  let s := reach 1 4 example_history in
  quiescent s = true /\ leak12 s = [] /\ leak19 s = []
  /\ issued s = [(7, Regular); (9, Regular); (0, Direct); (8, Regular)]
  /\ closed s = [(0, Direct); (9, Regular); (7, Regular); (8, Regular)]
  /\ bad s = [] /\ kopen s = [].
Proof. vm_compute. repeat split. Qed.

(** * The synchronous pipe2(2) fallback of [pipe] ([PipeOp::fallback]) *)

(** The completion [-EINVAL] for a pipe request, annotated with what pipe2(2) will answer. *)
Definition fallback_result (fd fd2 : N) : cqe := (RInval [fd; fd2], false).

(** A pipe whose request the kernel refused with EINVAL: when its future takes that result —
    for every history, every position and BOTH requested kinds ([o_kind o] is not looked at) —
    the two numbers pipe2(2) returns become two new entries of the process descriptor table
    (kind [Regular], issued at this moment, open), are wrapped in two new [AsyncFd]s whose word
    decodes to kind [Regular] and to the same numbers, and those are what the caller is told.
    Second half (non-vacuity, both kinds): for a pipe requested as regular and for one requested
    as direct there is a history that reaches such a state. *)
Definition pipe_fallback_wraps_regular : Prop :=
  (forall cap0 nslots0 es i o fd fd2 rest,
     let s := reach cap0 nslots0 es in
     nth_error (ops s) i = Some o -> o_st o = ODone -> o_res o = fallback_result fd fd2 :: rest ->
     all_fresh s [(fd, Regular); (fd2, Regular)] = true ->
     let s' := fst (step s (PollOp i)) in
     kopen s' = kopen s ++ [(fd, Regular); (fd2, Regular)]
     /\ issued s' = issued s ++ [(fd, Regular); (fd2, Regular)]
     /\ handles s' = handles s ++ [wrap fd Regular; wrap fd2 Regular]
     /\ owned s' = owned s ++ [(fd, Regular); (fd2, Regular)]
     /\ snd (step s (PollOp i)) = [11; 0; nz fd; 11; 0; nz fd2]%Z
     /\ kind_of (h_word (wrap fd Regular)) = Regular /\ fd_of (h_word (wrap fd Regular)) = fd
     /\ kind_of (h_word (wrap fd2 Regular)) = Regular /\ fd_of (h_word (wrap fd2 Regular)) = fd2)
  /\ (forall k, exists cap0 nslots0 es i o fd fd2,
        let s := reach cap0 nslots0 es in
        nth_error (ops s) i = Some o /\ o_cop o = CPipe k /\ o_kind o = k /\ o_st o = ODone
        /\ o_res o = [fallback_result fd fd2]
        /\ all_fresh s [(fd, Regular); (fd2, Regular)] = true).

(** A pipe is asked for (as [k]), submitted, refused with EINVAL, and the refusal processed. *)
Definition fallback_ready (k : kind) : list event :=
  [NewOp (CPipe k); PollOp 0; RingPoll; KPipeInval 0 5 6; RingPoll].

Lemma pipe_fallback_wraps_regular_holds : pipe_fallback_wraps_regular.
Proof.
  split.
  - intros c n es i o fd fd2 rest s Hn Hst Hres F. cbv zeta.
    pose proof F as F0. apply all_fresh_spec in F0. destruct F0 as (_ & Hds).
    assert (B1 : fd < two31) by (change fd with (fst (fd, Regular)); apply Hds; left; reflexivity).
    assert (B2 : fd2 < two31) by (change fd2 with (fst (fd2, Regular)); apply Hds; right; left; reflexivity).
    unfold step, step_with, poll_op_with. rewrite Hn, Hst, Hres.
    unfold deliver_with, fallback_result. cbn [fst]. cbn [pair_kind map]. rewrite all_fresh_set_op, F.
    unfold pipe_fallback_kind. cbn [hand_out fst snd app]. proj.
    rewrite <- !app_assoc. cbn [app].
    repeat (split; [reflexivity|]).
    split.
    { unfold owned; proj. rewrite !flat_map_app. cbn [flat_map]. rewrite !hdesc_wrap by assumption.
      rewrite <- !app_assoc. reflexivity. }
    split.
    { unfold wrap; cbn [h_word]. rewrite !fd_of_mk_word, !kind_of_mk_word by assumption. reflexivity. }
    unfold wrap; cbn [h_word]. rewrite !kind_of_mk_word, !fd_of_mk_word by assumption. repeat split.
  - intros k. exists 4, 4, (fallback_ready k), 0%nat,
      {| o_cop := CPipe k; o_kind := k; o_st := ODone; o_kin := false; o_posted := [];
         o_res := [fallback_result 5 6] |}, 5, 6.
    destruct k; vm_compute; repeat split.
Qed.

(** The fallback runs inside the poll of a live future and nowhere else: the refusal itself
    creates nothing, processing it ([Shared::update], whether or not the future still exists)
    creates nothing and loses nothing, dropping the future creates nothing, and a dropped future
    cannot be polled — so for an abandoned pipe pipe2(2) is never called. *)
Definition pipe_fallback_only_in_poll : Prop :=
  forall s i,
    (forall fd fd2, frame s (kpipe_inval s i fd fd2))
    /\ frame s (fst (process_all s))
    /\ frame s (drop_op s i)
    /\ (forall o fd fd2, snd (fst (update1 o (fallback_result fd fd2))) = [])
    /\ (forall o, nth_error (ops s) i = Some o -> fut_alive o = false -> step s (PollOp i) = (s, [])).

Lemma pipe_fallback_only_in_poll_holds : pipe_fallback_only_in_poll.
Proof.
  intros s i. split; [|split; [|split; [|split]]].
  - intros fd fd2. unfold kpipe_inval. destruct (nth_error (ops s) i) as [o|]; [|apply frame_refl].
    destruct (o_kin o && cop_pair (o_cop o)); [fr|apply frame_refl].
  - unfold process_all. fr.
  - unfold drop_op. destruct (nth_error (ops s) i) as [o|]; [|apply frame_refl].
    destruct (fut_alive o); [|apply frame_refl].
    destruct (o_st o); try fr. destruct (room s); fr.
  - intros o fd fd2. unfold update1. destruct (o_st o); reflexivity.
  - intros o Hn Hf. unfold step, step_with, poll_op_with. rewrite Hn.
    unfold fut_alive in Hf. destruct (o_st o); try discriminate; reflexivity.
Qed.

(** The whole life of a pipe requested as DIRECT on a kernel without IORING_OP_PIPE: two
    regular descriptors 5 and 6 come back; one is dropped with room in the queue (CLOSE with
    [sqe.fd = 5]), the other with the queue full ([close(6)]); the table of direct slots is
    never touched. *)
Example pipe_fallback_direct_request_closed_as_regular :
  let es := fallback_ready Direct ++ [PollOp 0; DropOp 0; DropFd 0; DropFd 1; RingPoll] in
  let s := reach 1 4 es in
  quiescent s = true /\ leak12 s = [] /\ leak19 s = [] /\ bad s = [] /\ kopen s = []
  /\ issued s = [(5, Regular); (6, Regular)] /\ closed s = [(6, Regular); (5, Regular)]
  /\ run_obs (init 1 4) es =
     [1; 1; 10; 1; 21; 0; 1; 1; 1; 11; 0; 5; 11; 0; 6; 1; 1; 1; 30; 6; 1; 20; 1; 5; 0; 0]%Z.
Proof. vm_compute. repeat split. Qed.

(** The future is dropped before the refusal is processed: no pipe2(2), nothing issued. *)
Example pipe_fallback_abandoned_no_pipe2 :
  let es := [NewOp (CPipe Direct); PollOp 0; RingPoll; DropOp 0; KPipeInval 0 5 6; RingPoll; RingPoll] in
  let s := reach 4 4 es in
  quiescent s = true /\ issued s = [] /\ kopen s = [] /\ leak12 s = [] /\ bad s = [].
Proof. vm_compute. repeat split. Qed.

(** ** The variant that wraps with the requested kind (seeded change C07-c) is refuted *)

(** A socket is created as direct and gets slot 5. A pipe requested as direct falls back to
    pipe2(2), which returns the process descriptors 5 and 6; the variant labels them direct.
    Dropping the first pipe end clears direct slot 5 — the socket's; dropping the second one and
    then the socket are closes of slots that are not open; the process descriptors 5 and 6 have
    no holder and stay open for ever. *)
Definition requested_kind_history : list event :=
  [NewOp (CSocket Direct); PollOp 0; RingPoll; KComplete 0 5 0 false; RingPoll; PollOp 0;
   NewOp (CPipe Direct); PollOp 1; RingPoll; KPipeInval 1 5 6; RingPoll; PollOp 1;
   DropOp 0; DropOp 1; DropFd 1; DropFd 2; DropFd 0; RingPoll; RingPoll].

Definition pipe_fallback_requested_kind_refuted_stmt : Prop :=
  exists cap0 nslots0 es,
    let s := fst (run step_requested_kind (init cap0 nslots0) es) in
    quiescent s = true /\ leak12 s = [] /\ leak19 s = []
    (* the two process descriptors are open, nobody holds them: leaked *)
    /\ kopen s = [(5, Regular); (6, Regular)] /\ owners s = []
    (* somebody else's direct slot was closed through the mislabelled AsyncFd … *)
    /\ nth_error (handles s) 0 = Some {| h_word := mk_word 5 Direct; h_std := false; h_live := false |}
    /\ nth_error (handles s) 1 = Some {| h_word := mk_word 5 Direct; h_std := false; h_live := false |}
    /\ closed s = [(5, Direct)]
    (* … and two closes hit nothing (the second pipe end, then the socket's own close) *)
    /\ bad s = [(6, Direct); (5, Direct)]
    (* while the code as it is, on the same history, closes everything correctly *)
    /\ (let s0 := reach cap0 nslots0 es in
        quiescent s0 = true /\ bad s0 = [] /\ kopen s0 = []
        /\ closed s0 = [(5, Regular); (6, Regular); (5, Direct)]).

Lemma pipe_fallback_requested_kind_refuted : pipe_fallback_requested_kind_refuted_stmt.
Proof. exists 4, 8, requested_kind_history. vm_compute. repeat split. Qed.

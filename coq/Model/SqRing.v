(** Model of the submission side of the ring: src/io_uring/sq.rs [Submissions::add] run by any
    number of threads against a kernel that consumes published entries in ring order (K1).

    Small-step: one thread step is the code between two scheduling points of hook B (lock
    acquisition, every load of a kernel-shared word, the tail store), exactly the granularity at
    which the baton scheduler interleaves the real threads. 32-bit counters with wrapping
    arithmetic as in the code after the repairs of H1 ([>=] in the locked check) and H2
    (wrapping subtraction). Ghost fields [g_*] record the unbounded history. *)
From A10 Require Import Base.Word Base.Run.

(** Scheduling point a thread is stopped at. *)
Inductive pc :=
  | POpLock      (* lock of the operation's own mutex (never contended) *)
  | PLoadH1 | PLoadT1   (* unlocked pre-check: [unsubmitted_submissions] *)
  | PLockSub     (* [lock(&shared.submissions_lock)] *)
  | PSpin        (* lock was taken: spinning *)
  | PLoadH2 | PLoadT2   (* re-load under the lock *)
  | PFill        (* reset + fill of the slot *)
  | PStore       (* tail store *)
  | PLockBlocked (* queue full: [wait_for_submission] takes the blocked list lock *)
  | PDone.

Definition pc_code (p : pc) : Z :=
  match p with
  | POpLock | PLockSub | PLockBlocked => 1   (* points::LOCK *)
  | PSpin => 2                               (* points::LOCK_SPIN *)
  | PLoadH1 | PLoadT1 | PLoadH2 | PLoadT2 => 4  (* points::LOAD_KERNEL_SHARED *)
  | PStore => 5                              (* points::STORE_SQ_TAIL *)
  | PFill => 9                               (* points::FILL_SQE *)
  | PDone => 0
  end.

Record thread := {
  pcv : pc;
  todo : list N;          (* payloads still to add; the head is the current one *)
  lh : N; lt : N;         (* locals [head], [tail] *)
}.

(** A slot holds a fully written entry, or is torn (being written: reset but not yet filled). *)
Inductive slot := Entry (p : N) | Torn.

Record sq := {
  len : N;
  khead : N; ktail : N;
  slots : N -> slot;
  holder : option nat;     (* who holds the submission lock *)
  threads : list thread;
  blocked : list N;        (* payloads whose future is parked on the blocked list *)
  panicked : list N;       (* payloads whose fill closure panicked (nothing may be published for them) *)
  consumed : list slot;    (* what the kernel read, in order *)
  (* ghost *)
  g_h : N; g_t : N;        (* entries consumed / published so far *)
  g_accepted : list N;     (* payloads in publication order *)
}.

Definition init (n h0 : N) (progs : list (list N)) : sq :=
  {| len := n; khead := h0; ktail := h0; slots := fun _ => Torn; holder := None;
     threads := map (fun p => {| pcv := match p with [] => PDone | _ => POpLock end;
                                 todo := p; lh := 0; lt := 0 |}) progs;
     blocked := []; panicked := []; consumed := []; g_h := 0; g_t := 0; g_accepted := [] |}.

Definition set_thread (s : sq) (i : nat) (t : thread) : sq :=
  {| len := len s; khead := khead s; ktail := ktail s; slots := slots s; holder := holder s;
     threads := firstn i (threads s) ++ t :: skipn (S i) (threads s);
     blocked := blocked s; panicked := panicked s; consumed := consumed s;
     g_h := g_h s; g_t := g_t s; g_accepted := g_accepted s |}.

Definition with_pc (t : thread) (p : pc) : thread :=
  {| pcv := p; todo := todo t; lh := lh t; lt := lt t |}.

Definition next_add (t : thread) : thread :=
  let rest := tl (todo t) in
  {| pcv := match rest with [] => PDone | _ => POpLock end; todo := rest; lh := lh t; lt := lt t |}.

Definition set_holder (s : sq) (h : option nat) : sq :=
  {| len := len s; khead := khead s; ktail := ktail s; slots := slots s; holder := h;
     threads := threads s; blocked := blocked s; panicked := panicked s; consumed := consumed s;
     g_h := g_h s; g_t := g_t s; g_accepted := g_accepted s |}.

Definition is_full (h t n : N) : bool := n <=? wsub32 t h.

(** Payloads from 1000 on stand for submissions whose fill closure panics (a buffer whose
    [parts] panics): the slot has been reset, nothing may be published, the lock is released by
    unwinding. *)
Definition is_faulty (p : N) : bool := 1000 <=? p.

(** One step of thread [i]: from the scheduling point it is stopped at to the next one.
    [full] is the fullness test used under the lock (parameter only so that the pre-repair
    code can be stated). *)
Definition tstep_with (full : N -> N -> N -> bool) (s : sq) (i : nat) : sq :=
  match nth_error (threads s) i with
  | None => s
  | Some t =>
    match pcv t with
    | PDone => s
    | POpLock => set_thread s i (with_pc t PLoadH1)
    | PLoadH1 => set_thread s i {| pcv := PLoadT1; todo := todo t; lh := khead s; lt := lt t |}
    | PLoadT1 =>
        let tl' := ktail s in
        if is_full (lh t) tl' (len s)
        then set_thread s i {| pcv := PLockBlocked; todo := todo t; lh := lh t; lt := tl' |}
        else set_thread s i {| pcv := PLockSub; todo := todo t; lh := lh t; lt := tl' |}
    | PLockSub | PSpin =>
        match holder s with
        | None => set_thread (set_holder s (Some i)) i (with_pc t PLoadH2)
        | Some _ => set_thread s i (with_pc t PSpin)
        end
    | PLoadH2 => set_thread s i {| pcv := PLoadT2; todo := todo t; lh := khead s; lt := lt t |}
    | PLoadT2 =>
        let tl' := ktail s in
        if full (lh t) tl' (len s)
        then set_thread (set_holder s None) i
               {| pcv := PLockBlocked; todo := todo t; lh := lh t; lt := tl' |}
        else set_thread s i {| pcv := PFill; todo := todo t; lh := lh t; lt := tl' |}
    | PFill =>
        (* reset + fill: until the tail store the slot is not a complete entry *)
        let idx := N.land (lt t) (len s - 1) in
        if is_faulty (hd 0 (todo t)) then
          (* the fill closure panics: the guard is dropped by unwinding, the tail is untouched *)
          let s' := {| len := len s; khead := khead s; ktail := ktail s;
                       slots := fun j => if j =? idx then Torn else slots s j;
                       holder := None; threads := threads s; blocked := blocked s;
                       panicked := panicked s ++ [hd 0 (todo t)];
                       consumed := consumed s;
                       g_h := g_h s; g_t := g_t s; g_accepted := g_accepted s |} in
          set_thread s' i (next_add t)
        else
        let s' := {| len := len s; khead := khead s; ktail := ktail s;
                     slots := fun j => if j =? idx then Torn else slots s j;
                     holder := holder s; threads := threads s; blocked := blocked s;
                     panicked := panicked s;
                     consumed := consumed s;
                     g_h := g_h s; g_t := g_t s; g_accepted := g_accepted s |} in
        set_thread s' i (with_pc t PStore)
    | PStore =>
        (* the fill is complete (fence), then the new tail is published and the lock released *)
        let idx := N.land (lt t) (len s - 1) in
        let p := hd 0 (todo t) in
        let s' := {| len := len s; khead := khead s; ktail := wadd32 (lt t) 1;
                     slots := fun j => if j =? idx then Entry p else slots s j;
                     holder := None; threads := threads s;
                     blocked := blocked s; panicked := panicked s; consumed := consumed s;
                     g_h := g_h s; g_t := g_t s + 1;
                     g_accepted := g_accepted s ++ [p] |} in
        set_thread s' i (next_add t)
    | PLockBlocked =>
        let s' := {| len := len s; khead := khead s; ktail := ktail s; slots := slots s;
                     holder := holder s; threads := threads s;
                     blocked := blocked s ++ [hd 0 (todo t)]; panicked := panicked s; consumed := consumed s;
                     g_h := g_h s; g_t := g_t s; g_accepted := g_accepted s |} in
        set_thread s' i (next_add t)
    end
  end.

Definition tstep := tstep_with is_full.

(** The kernel consumes one published entry (if any). *)
Definition kstep (s : sq) : sq :=
  if khead s =? ktail s then s
  else
    {| len := len s; khead := wadd32 (khead s) 1; ktail := ktail s; slots := slots s;
       holder := holder s; threads := threads s; blocked := blocked s; panicked := panicked s;
       consumed := consumed s ++ [slots s (N.land (khead s) (len s - 1))];
       g_h := g_h s + 1; g_t := g_t s; g_accepted := g_accepted s |}.

Inductive ev := T (i : nat) | K.

Definition step (s : sq) (e : ev) : sq * list Z :=
  match e with
  | T i => (tstep s i, [])
  | K => (kstep s, [])
  end.

(** The code before the repairs: [> len] in the locked check (H1). *)
Definition is_full_h1 (h t n : N) : bool := n <? wsub32 t h.
Definition step_h1 (s : sq) (e : ev) : sq * list Z :=
  match e with T i => (tstep_with is_full_h1 s i, []) | K => (kstep s, []) end.

(** * Correspondence driver.
    A case is the list of steps the scheduler actually executed, each with the scheduling
    point the implementation thread was resumed from; the model reports, per step, the code of
    the point it expects that thread to be at, then the entries the kernel consumed during the
    run, then what is still pending after it, then the parked payloads. *)
Definition slot_z (x : slot) : Z := match x with Entry p => nz p | Torn => (-7)%Z end.

Fixpoint pending_from (fuel : nat) (s : sq) (h : N) : list Z :=
  match fuel with
  | O => []
  | S f => if h =? ktail s then []
           else slot_z (slots s (N.land h (len s - 1))) :: pending_from f s (wadd32 h 1)
  end.

Fixpoint run_steps (s : sq) (es : list ev) : sq * list Z :=
  match es with
  | [] => (s, [])
  | e :: r =>
      let here := match e with
                  | T i => match nth_error (threads s) i with
                           | Some t => pc_code (pcv t) | None => (-9)%Z end
                  | K => 100%Z
                  end in
      let '(s1, o) := run_steps (fst (step s e)) r in (s1, here :: o)
  end.

(** Parked payloads are reported as a set (sorted): the harness cannot see the parking order. *)
Fixpoint insert_sorted (x : N) (l : list N) : list N :=
  match l with
  | [] => [x]
  | y :: r => if x <=? y then x :: l else y :: insert_sorted x r
  end.
Definition sort_n (l : list N) : list N := fold_right insert_sorted [] l.

Record sqcase := { sq_len : N; sq_kthread : bool (* SQPOLL ring: [enter] passes to_submit = 0 *);
                   sq_start : N; sq_progs : list (list N); sq_events : list ev }.

Definition run_sqcase (c : sqcase) : list Z :=
  let '(s, o) := run_steps (init (sq_len c) (sq_start c) (sq_progs c)) (sq_events c) in
  o ++ [(-1)%Z] ++ map slot_z (consumed s)
    ++ [(-2)%Z] ++ pending_from (N.to_nat (len s) + 1) s (khead s)
    ++ [(-3)%Z] ++ map nz (sort_n (blocked s))
    ++ [(-5)%Z] ++ map nz (sort_n (panicked s))
    (* what [enter] passes as to_submit afterwards: [unsubmitted_submissions] *)
    ++ [(-4)%Z; if sq_kthread c then 0%Z else nz (wsub32 (ktail s) (khead s))].

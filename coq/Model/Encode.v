(** C13 — operation encoding: every a10 operation as the submission queue entry it fills in.

    Three independent pieces:

    - [encode : op -> kind -> N -> sqe * memory] — transcription of every [fill_submission]
      (src/io_uring/{io,fs,net,process,pipe,mem,fd,poll}.rs, sq.rs for cancel/wake) followed by
      [OpTarget::set_flags] (src/io_uring/op.rs), AS THE CODE IS. Constants come from
      Gen/Consts.v (regenerated from the Rust sources).
    - [abi_decode : memory -> sqe -> option posix_call] — the trusted specification table:
      what the io_uring ABI says an SQE with these fields does (io_uring_enter(2), liburing's
      io_uring_prep_*, the per-opcode prep functions in io_uring/*.c). It uses its own pinned
      opcode numbers and Linux constants, never a10's.
    - [intended_call : op -> kind -> N -> posix_call] — the synchronous call the a10 method
      documents, with the arguments the caller passed.

    Pointers are abstract: a [word] of an SQE is either a number or a pointer to a named
    [resource]; what the kernel would read through a pointer is the [memory] image that
    accompanies the SQE (iovec arrays, the msghdr, path strings, socket addresses, length
    cells). No proofs in this file. *)
From A10 Require Import Base.Word Gen.Consts.

(** * Descriptors *)
Inductive kind := Regular | Direct.

(** What a call is made on: a descriptor number of the process, or an index into the ring's
    table of direct (registered) descriptors. *)
Inductive fdref := FdNum (n : Z) | FdFixed (i : Z).

(** How a call that creates a descriptor delivers it. *)
Inductive newfd := NewRegular | NewDirectAlloc | NewDirectSlot (i : N).

Definition target (k : kind) (fd : N) : fdref :=
  match k with Regular => FdNum (Z.of_N fd) | Direct => FdFixed (Z.of_N fd) end.

Definition created (k : kind) : newfd :=
  match k with Regular => NewRegular | Direct => NewDirectAlloc end.

(** * Abstract memory *)
Inductive resource :=
| RBuf (region off : N)   (* caller's memory: region number and offset into it *)
| RIov                    (* the operation's iovec array *)
| RMsg                    (* the operation's msghdr *)
| RAddr                   (* socket address storage *)
| RAddrLen                (* socklen_t cell next to it *)
| RPath (i : N)           (* i-th NUL terminated path *)
| REmptyPath              (* the static "" *)
| RStatx                  (* struct statx out buffer *)
| RSiginfo                (* siginfo_t out buffer *)
| RSigfdInfo              (* signalfd_siginfo out buffer *)
| ROptVal                 (* socket option storage *)
| RFds                    (* int[2] of pipe *)
| RFdCell.                (* the RawFd FILES_UPDATE reads and overwrites *)

Inductive word := Num (n : N) | Ptr (r : resource).
Inductive uptr := Null | Res (r : resource) | Raw (a : N).

Definition as_ptr (w : word) : uptr :=
  match w with Num 0 => Null | Num n => Raw n | Ptr r => Res r end.
Definition as_num (w : word) : option N :=
  match w with Num n => Some n | Ptr _ => None end.

(** What the kernel finds behind a pointer. *)
Inductive content :=
| CBytes (bs : list N)                       (* path without its NUL, socket address, option value *)
| CIov (iov : list (word * N))               (* iovec array: base, length *)
| CMsg (name : word) (namelen : N) (iov : word) (iovlen : N)
       (control : word) (controllen : N) (mflags : N)
| CU32 (v : N)                               (* a socklen_t cell *)
| CFds (fds : list Z)                        (* int array *)
| COut (cap : N).                            (* output buffer of this capacity *)

Definition memory := resource -> option content.

(** * Submission queue entry (the 64-byte layout; unions named after their first member) *)
Record sqe := mkSqe {
  s_opcode : N;   (* u8  @0  *)
  s_flags : N;    (* u8  @1  IOSQE_* *)
  s_ioprio : N;   (* u16 @2  *)
  s_fd : Z;       (* i32 @4  *)
  s_off : word;   (* u64 @8  off / addr2 / cmd_op+pad *)
  s_addr : word;  (* u64 @16 addr / splice_off_in / level+optname *)
  s_len : N;      (* u32 @24 *)
  s_opflags : N;  (* u32 @28 rw_flags / msg_flags / open_flags / ... *)
  s_bufidx : N;   (* u16 @40 buf_index / buf_group *)
  s_fileidx : N;  (* u32 @44 file_index / splice_fd_in / optlen / addr_len+pad *)
  s_addr3 : word  (* u64 @48 addr3 / optval *)
}.

Definition sqe0 : sqe := mkSqe 0 0 0 0%Z (Num 0) (Num 0) 0 0 0 0 (Num 0).

(** * Linux constants the a10 sources take from the libc crate (x86-64; the harness asserts
      them against libc at start-up) *)
Definition O_CLOEXEC : N := 524288.           (* 0x80000 = SOCK_CLOEXEC *)
Definition O_CLOEXEC_BIT : N := 19.
Definition AT_FDCWD : Z := (-100)%Z.
Definition AT_EMPTY_PATH : N := 4096.
Definition AT_REMOVEDIR : N := 512.
Definition MSG_NOSIGNAL : N := 16384.
Definition SPLICE_F_FD_IN_FIXED : N := 2147483648.   (* 1 << 31, io_uring only *)
Definition SPLICE_F_FD_IN_FIXED_BIT : N := 31.
Definition P_ALL : N := 0.
Definition P_PID : N := 1.
Definition P_PGID : N := 2.
Definition SHUT_RD : N := 0.
Definition SHUT_WR : N := 1.
Definition SHUT_RDWR : N := 2.
Definition EPOLLIN : N := 1.
Definition EPOLLERR : N := 8.
Definition EPOLLHUP : N := 16.
Definition EPOLLEXCLUSIVE : N := 268435456.
Definition EPOLLET : N := 2147483648.
Definition SIGNALFD_SIGINFO_SIZE : N := 128.
Definition MKDIR_MODE : N := 511.             (* 0o777 *)

(** [x as u32] of an [i32]. *)
Definition u32_of_i32 (z : Z) : N := Z.to_N (z mod 4294967296).
(** [x as u64] of an [i32] (sign extension). *)
Definition u64_of_i32 (z : Z) : N := Z.to_N (z mod 18446744073709551616).

(** * Operations and their arguments *)

(** A single buffer handed to read/recv: caller memory, or "pick one from this group". *)
Inductive bufarg := UserBuf (region off len : N) | PoolBuf (group : N).
(** One element of a vectored operation: caller memory. *)
Definition iovarg := (N * N * N)%type.   (* region, offset, length *)

Inductive waiton := WProcess (pid : N) | WGroup (pgid : N) | WAll.
Inductive shutdown_how := ShutRead | ShutWrite | ShutBoth.

Inductive op :=
(* io.rs *)
| ORead (b : bufarg) (offset : N)
| OReadv (iov : list iovarg) (offset : N)
| OWrite (region off len : N) (offset : N)
| OWritev (iov : list iovarg) (offset : N)
| OMultishotRead (group : N)
| OSpliceTo (target_fd : N) (len off_in off_out flags : N)
| OSpliceFrom (target_fd : N) (len off_in off_out flags : N)
| OClose
(* fs.rs *)
| OFsync (data_only : bool)
| OFallocate (offset len mode : N)
| OFadvise (offset len advice : N)
| OFtruncate (len : N)
| OStatx (mask : N)
| OOpen (path : list N) (flags mode : N) (nk : kind)
| OMkdir (path : list N)
| OUnlink (path : list N) (dir : bool)
| ORename (from to : list N)
(* net.rs *)
| OSocket (domain : Z) (ty proto : N) (nk : kind)
| OConnect (sa : list N)
| OBind (sa : list N)
| OListen (backlog : N)
| OAccept (addrcap : option N) (flags : N)
| OMultishotAccept (flags : N)
| OSend (region off len : N) (flags : N) (zc : bool)
| OSendTo (region off len : N) (sa : option (list N)) (flags : N) (zc : bool)
| OSendMsg (iov : list iovarg) (sa : option (list N)) (flags : N) (zc : bool)
| ORecv (b : bufarg) (flags : N)
| OMultishotRecv (group : N) (flags : N)
| ORecvMsg (iov : list iovarg) (addrcap : option N) (flags : N)
| ORecvFrom (b : bufarg) (addrcap : option N) (flags : N)
| OShutdown (how : shutdown_how)
| OGetSockOpt (level name optlen : N)
| OSetSockOpt (level name : N) (value : list N)
| OSockName (peer : bool) (addrcap : option N)
(* pipe.rs, process.rs, mem.rs, poll.rs, fd.rs, sq.rs *)
| OPipe (flags : N) (nk : kind)
| OWaitid (w : waiton) (options : N)
| OSignalRead
| OMadvise (region off len advice : N)
| OPollRing (ring_fd : N)
| OToDirect
| OToFd
| OCancel (user_data : N)
| OWake (ring_fd : N).

(** ** Helpers mirroring the Rust helpers *)

(** [Kind::use_flags]: the target's flag. *)
Definition IOSQE_FIXED_FILE : N := N.shiftl 1 IOSQE_FIXED_FILE_BIT.
Definition IOSQE_ASYNC : N := N.shiftl 1 IOSQE_ASYNC_BIT.
Definition IOSQE_BUFFER_SELECT : N := N.shiftl 1 IOSQE_BUFFER_SELECT_BIT.
Definition IOSQE_CQE_SKIP_SUCCESS : N := N.shiftl 1 IOSQE_CQE_SKIP_SUCCESS_BIT.

Definition use_flags (k : kind) (f : N) : N :=
  match k with Regular => f | Direct => N.lor f IOSQE_FIXED_FILE end.

(** [Kind::create_flags]: file_index of a created descriptor. *)
Definition create_index (k : kind) : N :=
  match k with Regular => 0 | Direct => u32_of_i32 IORING_FILE_INDEX_ALLOC end.

(** [Kind::cloexec_flag]. *)
Definition cloexec_flag (k : kind) : N :=
  match k with Regular => O_CLOEXEC | Direct => 0 end.

Definition iov_words (iov : list iovarg) : list (word * N) :=
  map (fun '(r, o, l) => (Ptr (RBuf r o), l)) iov.

(** [A::as_ptr]: pointer and length of an address to send ([NoAddress] is (NULL, 0)). *)
Definition sa_ptr (sa : option (list N)) : word :=
  match sa with Some _ => Ptr RAddr | None => Num 0 end.
Definition sa_len (sa : option (list N)) : N :=
  match sa with Some bs => N.of_nat (length bs) | None => 0 end.
(** [A::as_mut_ptr]: pointer and capacity of an address to receive. *)
Definition cap_ptr (c : option N) : word :=
  match c with Some _ => Ptr RAddr | None => Num 0 end.
Definition cap_len (c : option N) : N :=
  match c with Some n => n | None => 0 end.

Definition no_mem : memory := fun _ => None.
Definition mem1 (r : resource) (c : content) : memory :=
  fun q => match r, q with
           | RIov, RIov | RMsg, RMsg | RAddr, RAddr | RAddrLen, RAddrLen | REmptyPath, REmptyPath
           | RStatx, RStatx | RSiginfo, RSiginfo | RSigfdInfo, RSigfdInfo | ROptVal, ROptVal
           | RFds, RFds | RFdCell, RFdCell => Some c
           | RPath i, RPath j => if N.eqb i j then Some c else None
           | _, _ => None
           end.
Definition mem_or (a b : memory) : memory :=
  fun q => match a q with Some c => Some c | None => b q end.

Definition send_opcode (zc : bool) : N := if zc then IORING_OP_SEND_ZC else IORING_OP_SEND.
Definition sendmsg_opcode (zc : bool) : N := if zc then IORING_OP_SENDMSG_ZC else IORING_OP_SENDMSG.

(** [fill_recvmsg_submission] and the msghdr [init_recv] builds. *)
Definition recvmsg_sqe (fd : N) (flags : N) : sqe :=
  mkSqe IORING_OP_RECVMSG 0 0 (Z.of_N fd) (Num 0) (Ptr RMsg) 1 flags 0 0 (Num 0).
Definition recvmsg_mem (iov : list (word * N)) (addrcap : option N) : memory :=
  mem_or (mem1 RMsg (CMsg (cap_ptr addrcap) (cap_len addrcap) (Ptr RIov) (N.of_nat (length iov))
                          (Num 0) 0 0))
  (mem_or (mem1 RIov (CIov iov))
          (match addrcap with Some c => mem1 RAddr (COut c) | None => no_mem end)).

Definition with_flags (s : sqe) (f : N) : sqe :=
  mkSqe (s_opcode s) f (s_ioprio s) (s_fd s) (s_off s) (s_addr s) (s_len s) (s_opflags s)
        (s_bufidx s) (s_fileidx s) (s_addr3 s).
Definition with_bufidx (s : sqe) (g : N) : sqe :=
  mkSqe (s_opcode s) (s_flags s) (s_ioprio s) (s_fd s) (s_off s) (s_addr s) (s_len s)
        (s_opflags s) g (s_fileidx s) (s_addr3 s).

(** ** [fill_submission] of every operation; the flags are what the operation itself sets,
       [set_flags] is applied by [encode] below for operations on an [AsyncFd]. *)
Definition fill (o : op) (k : kind) (fd : N) : sqe * memory :=
  let zfd := Z.of_N fd in
  match o with
  | ORead (UserBuf r off l) offset =>
      (mkSqe IORING_OP_READ 0 0 zfd (Num offset) (Ptr (RBuf r off)) l 0 0 0 (Num 0), no_mem)
  | ORead (PoolBuf g) offset =>
      (mkSqe IORING_OP_READ IOSQE_BUFFER_SELECT 0 zfd (Num offset) (Num 0) 0 0 g 0 (Num 0), no_mem)
  | OReadv iov offset =>
      (mkSqe IORING_OP_READV 0 0 zfd (Num offset) (Ptr RIov) (trunc32 (N.of_nat (length iov))) 0 0 0 (Num 0),
       mem1 RIov (CIov (iov_words iov)))
  | OWrite r off l offset =>
      (mkSqe IORING_OP_WRITE 0 0 zfd (Num offset) (Ptr (RBuf r off)) l 0 0 0 (Num 0), no_mem)
  | OWritev iov offset =>
      (mkSqe IORING_OP_WRITEV 0 0 zfd (Num offset) (Ptr RIov) (trunc32 (N.of_nat (length iov))) 0 0 0 (Num 0),
       mem1 RIov (CIov (iov_words iov)))
  | OMultishotRead g =>
      (mkSqe IORING_OP_READ_MULTISHOT IOSQE_BUFFER_SELECT 0 zfd (Num 0) (Num 0) 0 0 g 0 (Num 0), no_mem)
  | OSpliceTo t len off_in off_out flags =>
      (* (fd_in, fd_out) = (fd.fd(), target) *)
      (mkSqe IORING_OP_SPLICE 0 0 (Z.of_N t) (Num off_out) (Num off_in) len flags 0 fd (Num 0), no_mem)
  | OSpliceFrom t len off_in off_out flags =>
      (* (fd_in, fd_out) = (target, fd.fd()) *)
      (mkSqe IORING_OP_SPLICE 0 0 zfd (Num off_out) (Num off_in) len flags 0 t (Num 0), no_mem)
  | OClose =>
      (* close_file_fd: not an AsyncFd operation (the descriptor was consumed) *)
      match k with
      | Regular => (mkSqe IORING_OP_CLOSE 0 0 zfd (Num 0) (Num 0) 0 0 0 0 (Num 0), no_mem)
      | Direct => (mkSqe IORING_OP_CLOSE 0 0 0%Z (Num 0) (Num 0) 0 0 0 (trunc32 (fd + 1)) (Num 0), no_mem)
      end
  | OFsync data_only =>
      (mkSqe IORING_OP_FSYNC 0 0 zfd (Num 0) (Num 0) 0 (if data_only then IORING_FSYNC_DATASYNC else 0)
             0 0 (Num 0), no_mem)
  | OFallocate offset len mode =>
      (mkSqe IORING_OP_FALLOCATE 0 0 zfd (Num offset) (Num len) mode 0 0 0 (Num 0), no_mem)
  | OFadvise offset len advice =>
      (mkSqe IORING_OP_FADVISE 0 0 zfd (Num offset) (Num 0) len advice 0 0 (Num 0), no_mem)
  | OFtruncate len =>
      (mkSqe IORING_OP_FTRUNCATE 0 0 zfd (Num len) (Num 0) 0 0 0 0 (Num 0), no_mem)
  | OStatx mask =>
      (mkSqe IORING_OP_STATX 0 0 zfd (Ptr RStatx) (Ptr REmptyPath) mask AT_EMPTY_PATH 0 0 (Num 0),
       mem_or (mem1 REmptyPath (CBytes [])) (mem1 RStatx (COut 256)))
  | OOpen path flags mode nk =>
      (* OpenOptions::open: args = (flags | kind.cloexec_flag(), mode) *)
      (mkSqe IORING_OP_OPENAT 0 0 AT_FDCWD (Num 0) (Ptr (RPath 0)) mode
             (N.lor flags (cloexec_flag nk)) 0 (create_index nk) (Num 0),
       mem1 (RPath 0) (CBytes path))
  | OMkdir path =>
      (mkSqe IORING_OP_MKDIRAT 0 0 AT_FDCWD (Num 0) (Ptr (RPath 0)) MKDIR_MODE 0 0 0 (Num 0),
       mem1 (RPath 0) (CBytes path))
  | OUnlink path dir =>
      (mkSqe IORING_OP_UNLINKAT 0 0 AT_FDCWD (Num 0) (Ptr (RPath 0)) 0
             (if dir then AT_REMOVEDIR else 0) 0 0 (Num 0),
       mem1 (RPath 0) (CBytes path))
  | ORename from to =>
      (mkSqe IORING_OP_RENAMEAT 0 0 AT_FDCWD (Ptr (RPath 1)) (Ptr (RPath 0)) (u32_of_i32 AT_FDCWD)
             0 0 0 (Num 0),
       mem_or (mem1 (RPath 0) (CBytes from)) (mem1 (RPath 1) (CBytes to)))
  | OSocket domain ty proto nk =>
      (mkSqe IORING_OP_SOCKET 0 0 domain (Num (N.lor ty (cloexec_flag nk))) (Num 0) proto 0 0
             (create_index nk) (Num 0), no_mem)
  | OConnect sa =>
      (mkSqe IORING_OP_CONNECT 0 0 zfd (Num (N.of_nat (length sa))) (Ptr RAddr) 0 0 0 0 (Num 0),
       mem1 RAddr (CBytes sa))
  | OBind sa =>
      (mkSqe IORING_OP_BIND 0 0 zfd (Num (N.of_nat (length sa))) (Ptr RAddr) 0 0 0 0 (Num 0),
       mem1 RAddr (CBytes sa))
  | OListen backlog =>
      (mkSqe IORING_OP_LISTEN 0 0 zfd (Num 0) (Num 0) backlog 0 0 0 (Num 0), no_mem)
  | OAccept addrcap flags =>
      (* the accepted descriptor has the kind of the listener *)
      (mkSqe IORING_OP_ACCEPT IOSQE_ASYNC 0 zfd (Ptr RAddrLen) (cap_ptr addrcap) 0
             (N.lor flags (cloexec_flag k)) 0 (create_index k) (Num 0),
       mem_or (mem1 RAddrLen (CU32 (cap_len addrcap)))
              (match addrcap with Some c => mem1 RAddr (COut c) | None => no_mem end))
  | OMultishotAccept flags =>
      (mkSqe IORING_OP_ACCEPT IOSQE_ASYNC (trunc16 IORING_ACCEPT_MULTISHOT) zfd (Num 0) (Num 0) 0
             (N.lor flags (cloexec_flag k)) 0 (create_index k) (Num 0), no_mem)
  | OSend r off l flags zc =>
      (mkSqe (send_opcode zc) 0 0 zfd (Num 0) (Ptr (RBuf r off)) l flags 0 0 (Num 0), no_mem)
  | OSendTo r off l sa flags zc =>
      (mkSqe (send_opcode zc) 0 0 zfd (sa_ptr sa) (Ptr (RBuf r off)) l flags 0
             (trunc16 (sa_len sa)) (Num 0),
       match sa with Some bs => mem1 RAddr (CBytes bs) | None => no_mem end)
  | OSendMsg iov sa flags zc =>
      (mkSqe (sendmsg_opcode zc) 0 0 zfd (Num 0) (Ptr RMsg) 1 flags 0 0 (Num 0),
       mem_or (mem1 RMsg (CMsg (sa_ptr sa) (sa_len sa) (Ptr RIov) (N.of_nat (length iov)) (Num 0) 0 0))
       (mem_or (mem1 RIov (CIov (iov_words iov)))
               (match sa with Some bs => mem1 RAddr (CBytes bs) | None => no_mem end)))
  | ORecv (UserBuf r off l) flags =>
      (mkSqe IORING_OP_RECV 0 0 zfd (Num 0) (Ptr (RBuf r off)) l flags 0 0 (Num 0), no_mem)
  | ORecv (PoolBuf g) flags =>
      (mkSqe IORING_OP_RECV IOSQE_BUFFER_SELECT 0 zfd (Num 0) (Num 0) 0 flags g 0 (Num 0), no_mem)
  | OMultishotRecv g flags =>
      (mkSqe IORING_OP_RECV IOSQE_BUFFER_SELECT (trunc16 IORING_RECV_MULTISHOT) zfd (Num 0) (Num 0) 0
             flags g 0 (Num 0), no_mem)
  | ORecvMsg iov addrcap flags =>
      (recvmsg_sqe fd flags, recvmsg_mem (iov_words iov) addrcap)
  | ORecvFrom (UserBuf r off l) addrcap flags =>
      (recvmsg_sqe fd flags, recvmsg_mem [(Ptr (RBuf r off), l)] addrcap)
  | ORecvFrom (PoolBuf g) addrcap flags =>
      (* IoMutSlice::new on a pool buffer not yet filled: the iovec is (NULL, 0) *)
      (with_bufidx (with_flags (recvmsg_sqe fd flags) IOSQE_BUFFER_SELECT) g,
       recvmsg_mem [(Num 0, 0)] addrcap)
  | OShutdown how =>
      (mkSqe IORING_OP_SHUTDOWN 0 0 zfd (Num 0) (Num 0)
             (match how with ShutRead => SHUT_RD | ShutWrite => SHUT_WR | ShutBoth => SHUT_RDWR end)
             0 0 0 (Num 0), no_mem)
  | OGetSockOpt level name optlen =>
      (mkSqe IORING_OP_URING_CMD 0 0 zfd (Num SOCKET_URING_OP_GETSOCKOPT)
             (Num (level + two32 * name)) 0 0 0 optlen (Ptr ROptVal),
       mem1 ROptVal (COut optlen))
  | OSetSockOpt level name value =>
      (mkSqe IORING_OP_URING_CMD 0 0 zfd (Num SOCKET_URING_OP_SETSOCKOPT)
             (Num (level + two32 * name)) 0 0 0 (N.of_nat (length value)) (Ptr ROptVal),
       mem1 ROptVal (CBytes value))
  | OSockName peer addrcap =>
      (mkSqe IORING_OP_URING_CMD 0 0 zfd (Num SOCKET_URING_OP_GETSOCKNAME) (cap_ptr addrcap) 0 0 0
             (if peer then 1 else 0) (Ptr RAddrLen),
       mem_or (mem1 RAddrLen (CU32 (cap_len addrcap)))
              (match addrcap with Some c => mem1 RAddr (COut c) | None => no_mem end))
  | OPipe flags nk =>
      (mkSqe IORING_OP_PIPE 0 0 0%Z (Num 0) (Ptr RFds) 0 (N.lor flags (cloexec_flag nk)) 0
             (create_index nk) (Num 0),
       mem1 RFds (COut 8))
  | OWaitid w options =>
      let '(idtype, id) := match w with
                           | WProcess p => (P_PID, p) | WGroup g => (P_PGID, g) | WAll => (P_ALL, 0)
                           end in
      (* pid as RawFd: u32 -> i32 *)
      (mkSqe IORING_OP_WAITID 0 0 (if id <? two31 then Z.of_N id else (Z.of_N id - 4294967296)%Z)
             (Ptr RSiginfo) (Num 0) idtype 0 0 options (Num 0),
       mem1 RSiginfo (COut 128))
  | OSignalRead =>
      (mkSqe IORING_OP_READ IOSQE_ASYNC 0 zfd (Num NO_OFFSET) (Ptr RSigfdInfo) SIGNALFD_SIGINFO_SIZE
             0 0 0 (Num 0),
       mem1 RSigfdInfo (COut SIGNALFD_SIGINFO_SIZE))
  | OMadvise r off len advice =>
      (mkSqe IORING_OP_MADVISE 0 0 (-1)%Z (Num 0) (Ptr (RBuf r off)) len advice 0 0 (Num 0), no_mem)
  | OPollRing ring_fd =>
      (mkSqe IORING_OP_POLL_ADD 0 0 (Z.of_N ring_fd) (Num 0) (Num 0) IORING_POLL_ADD_MULTI
             (N.lor (N.lor (N.lor (N.lor EPOLLIN EPOLLHUP) EPOLLERR) EPOLLET) EPOLLEXCLUSIVE)
             0 0 (Num 0), no_mem)
  | OToDirect =>
      (mkSqe IORING_OP_FILES_UPDATE 0 0 (-1)%Z (Num (u64_of_i32 IORING_FILE_INDEX_ALLOC)) (Ptr RFdCell) 1
             0 0 0 (Num 0),
       mem1 RFdCell (CFds [Z.of_N fd]))
  | OToFd =>
      (mkSqe IORING_OP_FIXED_FD_INSTALL 0 0 zfd (Num 0) (Num 0) 0 0 0 0 (Num 0), no_mem)
  | OCancel ud =>
      (mkSqe IORING_OP_ASYNC_CANCEL IOSQE_CQE_SKIP_SUCCESS 0 0%Z (Num 0) (Num ud) 0 0 0 0 (Num 0), no_mem)
  | OWake ring_fd =>
      (mkSqe IORING_OP_MSG_RING 0 0 (Z.of_N ring_fd) (Num WAKE_USER_DATA) (Num IORING_MSG_DATA) 0 0 0 0
             (Num 0), no_mem)
  end.

(** Operations implemented as [FdOp]/[FdIter] get [set_flags] from their [AsyncFd] target;
    [Op]/[Iter] operations (target = the submission queue) do not. *)
Definition on_async_fd (o : op) : bool :=
  match o with
  | OClose | OOpen _ _ _ _ | OMkdir _ | OUnlink _ _ | ORename _ _ | OSocket _ _ _ _ | OPipe _ _
  | OWaitid _ _ | OMadvise _ _ _ _ | OPollRing _ | OCancel _ | OWake _ => false
  | _ => true
  end.

Definition encode (o : op) (k : kind) (fd : N) : sqe * memory :=
  let '(s, m) := fill o k fd in
  (if on_async_fd o then with_flags s (use_flags k (s_flags s)) else s, m).

(** * The ABI: what an SQE means *)

(** Pinned uapi numbers (include/uapi/linux/io_uring.h), independent of a10's bindings. *)
Definition ABI_READV : N := 1.        Definition ABI_WRITEV : N := 2.
Definition ABI_FSYNC : N := 3.        Definition ABI_POLL_ADD : N := 6.
Definition ABI_SENDMSG : N := 9.      Definition ABI_RECVMSG : N := 10.
Definition ABI_ACCEPT : N := 13.      Definition ABI_ASYNC_CANCEL : N := 14.
Definition ABI_CONNECT : N := 16.     Definition ABI_FALLOCATE : N := 17.
Definition ABI_OPENAT : N := 18.      Definition ABI_CLOSE : N := 19.
Definition ABI_FILES_UPDATE : N := 20. Definition ABI_STATX : N := 21.
Definition ABI_READ : N := 22.        Definition ABI_WRITE : N := 23.
Definition ABI_FADVISE : N := 24.     Definition ABI_MADVISE : N := 25.
Definition ABI_SEND : N := 26.        Definition ABI_RECV : N := 27.
Definition ABI_SPLICE : N := 30.      Definition ABI_SHUTDOWN : N := 34.
Definition ABI_RENAMEAT : N := 35.    Definition ABI_UNLINKAT : N := 36.
Definition ABI_MKDIRAT : N := 37.     Definition ABI_MSG_RING : N := 40.
Definition ABI_SOCKET : N := 45.      Definition ABI_URING_CMD : N := 46.
Definition ABI_SEND_ZC : N := 47.     Definition ABI_SENDMSG_ZC : N := 48.
Definition ABI_READ_MULTISHOT : N := 49. Definition ABI_WAITID : N := 50.
Definition ABI_FIXED_FD_INSTALL : N := 54. Definition ABI_FTRUNCATE : N := 55.
Definition ABI_BIND : N := 56.        Definition ABI_LISTEN : N := 57.
Definition ABI_PIPE : N := 62.

Definition ABI_SQE_FIXED_FILE_BIT : N := 0.
Definition ABI_SQE_IO_DRAIN_BIT : N := 1.
Definition ABI_SQE_IO_LINK_BIT : N := 2.
Definition ABI_SQE_IO_HARDLINK_BIT : N := 3.
Definition ABI_SQE_ASYNC_BIT : N := 4.
Definition ABI_SQE_BUFFER_SELECT_BIT : N := 5.
Definition ABI_SQE_CQE_SKIP_SUCCESS_BIT : N := 6.
Definition ABI_FILE_INDEX_ALLOC : N := 4294967295.
Definition ABI_FSYNC_DATASYNC : N := 1.
Definition ABI_POLL_ADD_MULTI : N := 1.
Definition ABI_RECV_MULTISHOT : N := 2.
Definition ABI_ACCEPT_MULTISHOT : N := 1.
Definition ABI_MSG_DATA : N := 0.
Definition ABI_SOCKET_OP_GETSOCKOPT : N := 2.
Definition ABI_SOCKET_OP_SETSOCKOPT : N := 3.
Definition ABI_SOCKET_OP_GETSOCKNAME : N := 5.
Definition ABI_FIXED_FD_NO_CLOEXEC : N := 1.
Definition ABI_RW_CUR_POS : N := 18446744073709551615.   (* offset -1 *)

Inductive filepos := CurPos | AtPos (o : N).
Inductive bufref := BufMem (p : uptr) (len : N) | BufGroup (g : N).

(** Synchronous calls (and the three io_uring-only bookkeeping requests). Values behind
    pointers the kernel reads are inlined; output buffers stay pointers with a capacity. *)
Inductive posix_call :=
| PRead (f : fdref) (b : bufref) (pos : filepos)
| PReadMulti (f : fdref) (g : N) (pos : filepos)
| PWrite (f : fdref) (p : uptr) (len : N) (pos : filepos)
| PReadv (f : fdref) (iov : list (uptr * N)) (pos : filepos)
| PWritev (f : fdref) (iov : list (uptr * N)) (pos : filepos)
| PFsync (f : fdref) (datasync : bool)
| PFallocate (f : fdref) (mode offset len : N)
| PFadvise (f : fdref) (offset len advice : N)
| PFtruncate (f : fdref) (len : N)
| PStatx (dirfd : Z) (path : list N) (flags mask : N) (buf : uptr)
| POpenat (dirfd : Z) (path : list N) (flags mode : N) (nf : newfd)
| PClose (f : fdref)
| PMkdirat (dirfd : Z) (path : list N) (mode : N)
| PUnlinkat (dirfd : Z) (path : list N) (flags : N)
| PRenameat (olddirfd : Z) (old : list N) (newdirfd : Z) (new : list N) (flags : N)
| PSocket (domain : Z) (ty proto : N) (nf : newfd)
| PConnect (f : fdref) (sa : list N)
| PBind (f : fdref) (sa : list N)
| PListen (f : fdref) (backlog : N)
| PAccept (f : fdref) (addr : uptr) (addrcap : option N) (flags : N) (nf : newfd) (multi : bool)
| PSendto (f : fdref) (p : uptr) (len flags : N) (dest : option (list N)) (zc : bool)
| PSendmsg (f : fdref) (dest : option (list N)) (iov : list (uptr * N)) (control : uptr) (controllen : N)
           (flags : N) (zc : bool)
| PRecv (f : fdref) (b : bufref) (flags : N) (multi : bool)
| PRecvmsg (f : fdref) (name : uptr) (namecap : N) (iov : list (uptr * N)) (control : uptr)
           (controllen : N) (flags : N) (select : option N)
| PShutdown (f : fdref) (how : N)
| PGetsockopt (f : fdref) (level name : N) (val : uptr) (len : N)
| PSetsockopt (f : fdref) (level name : N) (val : list N)
| PGetsockname (f : fdref) (peer : bool) (addr : uptr) (cap : option N)
| PSplice (fin : fdref) (off_in : filepos) (fout : fdref) (off_out : filepos) (len flags : N)
| PPipe2 (fds : uptr) (flags : N) (nf : newfd)
| PWaitid (idtype : N) (id : Z) (info : uptr) (options : N)
| PMadvise (addr : uptr) (len advice : N)
| PPollAdd (f : fdref) (events : N) (multi : bool)
| PFilesUpdate (fds : list Z) (slot : option N)     (* None: allocate free slots *)
| PFixedFdInstall (i : Z) (cloexec : bool)
| PCancel (user_data : N)
| PMsgRing (ring : fdref) (value user_data : N).

Definition bit (x i : N) : bool := N.testbit x i.

(** IOSQE_FIXED_FILE qualifies [sqe.fd] and nothing else. *)
Definition sqe_file (s : sqe) : option fdref :=
  if bit (s_flags s) ABI_SQE_FIXED_FILE_BIT then Some (FdFixed (s_fd s)) else Some (FdNum (s_fd s)).

Definition pos_of (n : N) : filepos := if n =? ABI_RW_CUR_POS then CurPos else AtPos n.

(** [file_index]: 0 = an ordinary descriptor, ALLOC = any free slot, n+1 = slot n. *)
Definition slot_of (fi : N) : newfd :=
  if fi =? 0 then NewRegular else if fi =? ABI_FILE_INDEX_ALLOC then NewDirectAlloc
  else NewDirectSlot (fi - 1).

(** Requests whose result is a new descriptor refuse O_CLOEXEC/SOCK_CLOEXEC together with a
    direct result (-EINVAL in io_openat_prep, io_socket_prep, io_accept_prep, io_pipe_prep). *)
Definition cloexec_ok (fi flags : N) : bool :=
  if fi =? 0 then true else negb (bit flags O_CLOEXEC_BIT).

Definition option_bind {A B} (x : option A) (f : A -> option B) : option B :=
  match x with Some a => f a | None => None end.
Notation "'do' x <- e ; k" := (option_bind e (fun x => k))
  (at level 200, x name, e at level 100, k at level 200).
Definition guard (b : bool) : option unit := if b then Some tt else None.
Definition is0 (w : word) : bool := match w with Num 0 => true | _ => false end.

Definition bytes_at (m : memory) (w : word) (len : N) : option (list N) :=
  match w with
  | Ptr r => match m r with
             | Some (CBytes bs) => if N.of_nat (length bs) =? len then Some bs else None
             | _ => None
             end
  | Num _ => None
  end.
Definition cstr_at (m : memory) (w : word) : option (list N) :=
  match w with
  | Ptr r => match m r with Some (CBytes bs) => Some bs | _ => None end
  | Num _ => None
  end.
Definition iov_at (m : memory) (w : word) (n : N) : option (list (uptr * N)) :=
  match w with
  | Ptr r => match m r with
             | Some (CIov iov) =>
                 if N.of_nat (length iov) =? n
                 then Some (map (fun '(b, l) => (as_ptr b, l)) iov) else None
             | _ => None
             end
  | Num _ => None
  end.
Definition u32_at (m : memory) (w : word) : option N :=
  match w with
  | Ptr r => match m r with Some (CU32 v) => Some v | _ => None end
  | Num _ => None
  end.
Definition fds_at (m : memory) (w : word) (n : N) : option (list Z) :=
  match w with
  | Ptr r => match m r with
             | Some (CFds fds) => if N.of_nat (length fds) =? n then Some fds else None
             | _ => None
             end
  | Num _ => None
  end.
(** An optional address to send to: (NULL, 0) is "none". *)
Definition dest_at (m : memory) (w : word) (len : N) : option (option (list N)) :=
  if is0 w then (if len =? 0 then Some None else None)
  else do bs <- bytes_at m w len; Some (Some bs).
(** The length cell of accept/getsockname: NULL address means the cell is not consulted. *)
Definition cap_at (m : memory) (addr lenp : word) : option (option N) :=
  if is0 addr then Some None else do c <- u32_at m lenp; Some (Some c).

Definition no_generic_flags (s : sqe) : bool :=
  negb (bit (s_flags s) ABI_SQE_IO_DRAIN_BIT) && negb (bit (s_flags s) ABI_SQE_IO_LINK_BIT)
  && negb (bit (s_flags s) ABI_SQE_IO_HARDLINK_BIT).
Definition not_fixed (s : sqe) : bool := negb (bit (s_flags s) ABI_SQE_FIXED_FILE_BIT).
Definition no_select (s : sqe) : bool := negb (bit (s_flags s) ABI_SQE_BUFFER_SELECT_BIT).

(** A single receive buffer: provided-buffer selection or (addr, len). *)
Definition bufref_of (s : sqe) : option bufref :=
  if bit (s_flags s) ABI_SQE_BUFFER_SELECT_BIT
  then (do _ <- guard (is0 (s_addr s)); Some (BufGroup (s_bufidx s)))
  else (do _ <- guard (s_bufidx s =? 0); Some (BufMem (as_ptr (s_addr s)) (s_len s))).

Definition abi_send (m : memory) (s : sqe) (zc : bool) : option posix_call :=
  do f <- sqe_file s;
  do _ <- guard (no_select s && (s_ioprio s =? 0) && (s_bufidx s =? 0) && is0 (s_addr3 s)
                 && (s_fileidx s <? two16));       (* __pad3 must be zero *)
  do dest <- dest_at m (s_off s) (s_fileidx s);
  Some (PSendto f (as_ptr (s_addr s)) (s_len s) (N.lor (s_opflags s) MSG_NOSIGNAL) dest zc).

Definition abi_sendmsg (m : memory) (s : sqe) (zc : bool) : option posix_call :=
  do f <- sqe_file s;
  do _ <- guard (no_select s && (s_ioprio s =? 0) && (s_bufidx s =? 0) && is0 (s_off s)
                 && (s_fileidx s =? 0) && (s_len s =? 1));
  match s_addr s with
  | Ptr r =>
      match m r with
      | Some (CMsg name namelen iov iovlen control controllen _) =>
          do dest <- dest_at m name namelen;
          do v <- iov_at m iov iovlen;
          Some (PSendmsg f dest v (as_ptr control) controllen (N.lor (s_opflags s) MSG_NOSIGNAL) zc)
      | _ => None
      end
  | Num _ => None
  end.

Definition abi_recvmsg (m : memory) (s : sqe) : option posix_call :=
  do f <- sqe_file s;
  do _ <- guard ((s_ioprio s =? 0) && is0 (s_off s) && (s_fileidx s =? 0) && (s_len s =? 1));
  match s_addr s with
  | Ptr r =>
      match m r with
      | Some (CMsg name namelen iov iovlen control controllen _) =>
          do v <- iov_at m iov iovlen;
          let select := if bit (s_flags s) ABI_SQE_BUFFER_SELECT_BIT then Some (s_bufidx s) else None in
          do _ <- guard (match select with Some _ => iovlen =? 1 | None => s_bufidx s =? 0 end);
          Some (PRecvmsg f (as_ptr name) namelen v (as_ptr control) controllen (s_opflags s) select)
      | _ => None
      end
  | Num _ => None
  end.

Definition abi_uring_cmd (m : memory) (s : sqe) : option posix_call :=
  do f <- sqe_file s;
  do cmd <- as_num (s_off s);
  do _ <- guard (no_select s && (cmd <? two32) && (s_ioprio s =? 0) && (s_len s =? 0)
                 && (s_opflags s =? 0) && (s_bufidx s =? 0));
  if cmd =? ABI_SOCKET_OP_GETSOCKOPT then
    do lv <- as_num (s_addr s);
    Some (PGetsockopt f (lv mod two32) (lv / two32) (as_ptr (s_addr3 s)) (s_fileidx s))
  else if cmd =? ABI_SOCKET_OP_SETSOCKOPT then
    do lv <- as_num (s_addr s);
    do v <- bytes_at m (s_addr3 s) (s_fileidx s);
    Some (PSetsockopt f (lv mod two32) (lv / two32) v)
  else if cmd =? ABI_SOCKET_OP_GETSOCKNAME then
    do _ <- guard (s_fileidx s <=? 1);
    do c <- cap_at m (s_addr s) (s_addr3 s);
    Some (PGetsockname f (s_fileidx s =? 1) (as_ptr (s_addr s)) c)
  else None.

Definition abi_decode (m : memory) (s : sqe) : option posix_call :=
  let oc := s_opcode s in
  do _ <- guard (no_generic_flags s);
  if oc =? ABI_READ then
    do f <- sqe_file s; do off <- as_num (s_off s); do b <- bufref_of s;
    do _ <- guard ((s_opflags s =? 0) && (s_ioprio s =? 0) && (s_fileidx s =? 0) && is0 (s_addr3 s));
    Some (PRead f b (pos_of off))
  else if oc =? ABI_READ_MULTISHOT then
    do f <- sqe_file s; do off <- as_num (s_off s);
    do _ <- guard (bit (s_flags s) ABI_SQE_BUFFER_SELECT_BIT && is0 (s_addr s) && (s_len s =? 0)
                   && (s_opflags s =? 0) && (s_ioprio s =? 0) && (s_fileidx s =? 0) && is0 (s_addr3 s));
    Some (PReadMulti f (s_bufidx s) (pos_of off))
  else if oc =? ABI_WRITE then
    do f <- sqe_file s; do off <- as_num (s_off s);
    do _ <- guard (no_select s && (s_opflags s =? 0) && (s_ioprio s =? 0) && (s_bufidx s =? 0)
                   && (s_fileidx s =? 0) && is0 (s_addr3 s));
    Some (PWrite f (as_ptr (s_addr s)) (s_len s) (pos_of off))
  else if oc =? ABI_READV then
    do f <- sqe_file s; do off <- as_num (s_off s); do v <- iov_at m (s_addr s) (s_len s);
    do _ <- guard (no_select s && (s_opflags s =? 0) && (s_ioprio s =? 0) && (s_bufidx s =? 0)
                   && (s_fileidx s =? 0) && is0 (s_addr3 s));
    Some (PReadv f v (pos_of off))
  else if oc =? ABI_WRITEV then
    do f <- sqe_file s; do off <- as_num (s_off s); do v <- iov_at m (s_addr s) (s_len s);
    do _ <- guard (no_select s && (s_opflags s =? 0) && (s_ioprio s =? 0) && (s_bufidx s =? 0)
                   && (s_fileidx s =? 0) && is0 (s_addr3 s));
    Some (PWritev f v (pos_of off))
  else if oc =? ABI_FSYNC then
    (* io_fsync_prep: addr, buf_index, splice_fd_in zero; off/len = range (0,0: whole file) *)
    do f <- sqe_file s;
    do _ <- guard (no_select s && is0 (s_addr s) && is0 (s_off s) && (s_len s =? 0) && (s_bufidx s =? 0)
                   && (s_fileidx s =? 0) && (N.ldiff (s_opflags s) ABI_FSYNC_DATASYNC =? 0));
    Some (PFsync f (bit (s_opflags s) 0))
  else if oc =? ABI_FALLOCATE then
    (* io_uring_prep_fallocate: len = mode, off = offset, addr = len *)
    do f <- sqe_file s; do off <- as_num (s_off s); do l <- as_num (s_addr s);
    do _ <- guard (no_select s && (s_opflags s =? 0) && (s_bufidx s =? 0) && (s_fileidx s =? 0));
    Some (PFallocate f (s_len s) off l)
  else if oc =? ABI_FADVISE then
    do f <- sqe_file s; do off <- as_num (s_off s);
    do _ <- guard (no_select s && is0 (s_addr s) && (s_bufidx s =? 0) && (s_fileidx s =? 0));
    Some (PFadvise f off (s_len s) (s_opflags s))
  else if oc =? ABI_FTRUNCATE then
    (* io_ftruncate_prep: everything but fd and off zero *)
    do f <- sqe_file s; do l <- as_num (s_off s);
    do _ <- guard (no_select s && is0 (s_addr s) && (s_len s =? 0) && (s_opflags s =? 0)
                   && (s_bufidx s =? 0) && (s_fileidx s =? 0) && is0 (s_addr3 s));
    Some (PFtruncate f l)
  else if oc =? ABI_STATX then
    (* io_statx_prep: sqe.fd is a dirfd, never a registered file (-EBADF with FIXED_FILE) *)
    do _ <- guard (not_fixed s && no_select s && (s_bufidx s =? 0) && (s_fileidx s =? 0));
    do p <- cstr_at m (s_addr s);
    Some (PStatx (s_fd s) p (s_opflags s) (s_len s) (as_ptr (s_off s)))
  else if oc =? ABI_OPENAT then
    do _ <- guard (not_fixed s && no_select s && (s_bufidx s =? 0) && is0 (s_off s)
                   && cloexec_ok (s_fileidx s) (s_opflags s));
    do p <- cstr_at m (s_addr s);
    Some (POpenat (s_fd s) p (s_opflags s) (s_len s) (slot_of (s_fileidx s)))
  else if oc =? ABI_CLOSE then
    (* io_close_prep: off, addr, len, rw_flags, buf_index zero; FIXED_FILE -EBADF;
       file_index n+1 closes slot n and then fd must be 0 *)
    do _ <- guard (not_fixed s && no_select s && is0 (s_off s) && is0 (s_addr s) && (s_len s =? 0)
                   && (s_opflags s =? 0) && (s_bufidx s =? 0));
    if s_fileidx s =? 0 then Some (PClose (FdNum (s_fd s)))
    else (do _ <- guard ((s_fd s =? 0)%Z); Some (PClose (FdFixed (Z.of_N (s_fileidx s - 1)))))
  else if oc =? ABI_MKDIRAT then
    do _ <- guard (not_fixed s && no_select s && is0 (s_off s) && (s_opflags s =? 0) && (s_bufidx s =? 0)
                   && (s_fileidx s =? 0));
    do p <- cstr_at m (s_addr s);
    Some (PMkdirat (s_fd s) p (s_len s))
  else if oc =? ABI_UNLINKAT then
    do _ <- guard (not_fixed s && no_select s && is0 (s_off s) && (s_len s =? 0) && (s_bufidx s =? 0)
                   && (s_fileidx s =? 0) && (N.ldiff (s_opflags s) AT_REMOVEDIR =? 0));
    do p <- cstr_at m (s_addr s);
    Some (PUnlinkat (s_fd s) p (s_opflags s))
  else if oc =? ABI_RENAMEAT then
    (* io_uring_prep_renameat: fd = olddfd, addr = oldpath, len = newdfd, addr2 = newpath *)
    do _ <- guard (not_fixed s && no_select s && (s_bufidx s =? 0) && (s_fileidx s =? 0));
    do p <- cstr_at m (s_addr s); do q <- cstr_at m (s_off s);
    let nd := if s_len s <? two31 then Z.of_N (s_len s) else (Z.of_N (s_len s) - 4294967296)%Z in
    Some (PRenameat (s_fd s) p nd q (s_opflags s))
  else if oc =? ABI_SOCKET then
    (* io_socket_prep: fd = domain, off = type, len = protocol; addr, rw_flags, buf_index zero *)
    do ty <- as_num (s_off s);
    do _ <- guard (not_fixed s && no_select s && is0 (s_addr s) && (s_opflags s =? 0)
                   && (s_bufidx s =? 0) && (ty <? two32) && cloexec_ok (s_fileidx s) ty);
    Some (PSocket (s_fd s) ty (s_len s) (slot_of (s_fileidx s)))
  else if oc =? ABI_CONNECT then
    do f <- sqe_file s; do l <- as_num (s_off s);
    do _ <- guard (no_select s && (s_len s =? 0) && (s_opflags s =? 0) && (s_bufidx s =? 0)
                   && (s_fileidx s =? 0));
    do sa <- bytes_at m (s_addr s) l;
    Some (PConnect f sa)
  else if oc =? ABI_BIND then
    do f <- sqe_file s; do l <- as_num (s_off s);
    do _ <- guard (no_select s && (s_len s =? 0) && (s_opflags s =? 0) && (s_bufidx s =? 0)
                   && (s_fileidx s =? 0));
    do sa <- bytes_at m (s_addr s) l;
    Some (PBind f sa)
  else if oc =? ABI_LISTEN then
    do f <- sqe_file s;
    do _ <- guard (no_select s && is0 (s_addr s) && is0 (s_off s) && (s_opflags s =? 0)
                   && (s_bufidx s =? 0) && (s_fileidx s =? 0));
    Some (PListen f (s_len s))
  else if oc =? ABI_ACCEPT then
    (* io_accept_prep: addr = sockaddr, addr2 = socklen_t*, accept_flags, ioprio = IORING_ACCEPT_*,
       file_index; len and buf_index zero; multishot takes no address *)
    do f <- sqe_file s;
    do _ <- guard (no_select s && (s_len s =? 0) && (s_bufidx s =? 0)
                   && (N.ldiff (s_ioprio s) ABI_ACCEPT_MULTISHOT =? 0)
                   && cloexec_ok (s_fileidx s) (s_opflags s));
    let multi := bit (s_ioprio s) 0 in
    do _ <- guard (if multi then is0 (s_addr s) && is0 (s_off s)
                                 && ((s_fileidx s =? 0) || (s_fileidx s =? ABI_FILE_INDEX_ALLOC))
                   else true);
    do c <- cap_at m (s_addr s) (s_off s);
    Some (PAccept f (as_ptr (s_addr s)) c (s_opflags s) (slot_of (s_fileidx s)) multi)
  else if oc =? ABI_SEND then abi_send m s false
  else if oc =? ABI_SEND_ZC then abi_send m s true
  else if oc =? ABI_SENDMSG then abi_sendmsg m s false
  else if oc =? ABI_SENDMSG_ZC then abi_sendmsg m s true
  else if oc =? ABI_RECV then
    do f <- sqe_file s; do b <- bufref_of s;
    do _ <- guard (is0 (s_off s) && (s_fileidx s =? 0) && is0 (s_addr3 s)
                   && (N.ldiff (s_ioprio s) ABI_RECV_MULTISHOT =? 0));
    let multi := bit (s_ioprio s) 1 in
    do _ <- guard (if multi then (match b with BufGroup _ => true | _ => false end) && (s_len s =? 0)
                   else true);
    Some (PRecv f b (s_opflags s) multi)
  else if oc =? ABI_RECVMSG then abi_recvmsg m s
  else if oc =? ABI_SHUTDOWN then
    do f <- sqe_file s;
    do _ <- guard (no_select s && is0 (s_off s) && is0 (s_addr s) && (s_opflags s =? 0)
                   && (s_bufidx s =? 0) && (s_fileidx s =? 0));
    Some (PShutdown f (s_len s))
  else if oc =? ABI_URING_CMD then abi_uring_cmd m s
  else if oc =? ABI_SPLICE then
    (* io_uring_prep_splice: fd = fd_out, off = off_out, splice_off_in, splice_fd_in, len,
       splice_flags; the input is a registered file iff SPLICE_F_FD_IN_FIXED *)
    do fout <- sqe_file s; do oo <- as_num (s_off s); do oi <- as_num (s_addr s);
    do _ <- guard (no_select s && (s_bufidx s =? 0) && (s_fileidx s <? two31));
    let fin := if bit (s_opflags s) SPLICE_F_FD_IN_FIXED_BIT then FdFixed (Z.of_N (s_fileidx s))
               else FdNum (Z.of_N (s_fileidx s)) in
    Some (PSplice fin (pos_of oi) fout (pos_of oo) (s_len s) (N.ldiff (s_opflags s) SPLICE_F_FD_IN_FIXED))
  else if oc =? ABI_PIPE then
    (* io_pipe_prep: fd, off, addr3 zero; addr = int[2]; pipe_flags; file_index *)
    do _ <- guard (not_fixed s && no_select s && (s_fd s =? 0)%Z && is0 (s_off s) && is0 (s_addr3 s)
                   && (s_len s =? 0) && (s_bufidx s =? 0) && cloexec_ok (s_fileidx s) (s_opflags s));
    Some (PPipe2 (as_ptr (s_addr s)) (s_opflags s) (slot_of (s_fileidx s)))
  else if oc =? ABI_WAITID then
    (* io_uring_prep_waitid: fd = id, len = idtype, file_index = options, addr2 = infop,
       waitid_flags = 0 *)
    do _ <- guard (not_fixed s && no_select s && is0 (s_addr s) && (s_opflags s =? 0)
                   && (s_bufidx s =? 0) && is0 (s_addr3 s));
    Some (PWaitid (s_len s) (s_fd s) (as_ptr (s_off s)) (s_fileidx s))
  else if oc =? ABI_MADVISE then
    do _ <- guard (not_fixed s && no_select s && is0 (s_off s) && (s_bufidx s =? 0) && (s_fileidx s =? 0));
    Some (PMadvise (as_ptr (s_addr s)) (s_len s) (s_opflags s))
  else if oc =? ABI_POLL_ADD then
    do f <- sqe_file s;
    do _ <- guard (no_select s && is0 (s_off s) && is0 (s_addr s) && (s_bufidx s =? 0)
                   && (s_fileidx s =? 0) && (N.ldiff (s_len s) ABI_POLL_ADD_MULTI =? 0));
    Some (PPollAdd f (s_opflags s) (bit (s_len s) 0))
  else if oc =? ABI_FILES_UPDATE then
    (* io_files_update_prep: no FIXED_FILE/BUFFER_SELECT; rw_flags, splice_fd_in zero; nr = len > 0;
       offset is the low 32 bits of off *)
    do off <- as_num (s_off s);
    do _ <- guard (not_fixed s && no_select s && (s_opflags s =? 0) && (s_fileidx s =? 0)
                   && negb (s_len s =? 0));
    do fds <- fds_at m (s_addr s) (s_len s);
    Some (PFilesUpdate fds (if off mod two32 =? ABI_FILE_INDEX_ALLOC then None else Some (off mod two32)))
  else if oc =? ABI_FIXED_FD_INSTALL then
    (* io_install_fixed_fd_prep: only registered files; everything else zero *)
    do _ <- guard (bit (s_flags s) ABI_SQE_FIXED_FILE_BIT && no_select s && is0 (s_off s) && is0 (s_addr s)
                   && (s_len s =? 0) && (s_bufidx s =? 0) && (s_fileidx s =? 0) && is0 (s_addr3 s)
                   && (N.ldiff (s_opflags s) ABI_FIXED_FD_NO_CLOEXEC =? 0));
    Some (PFixedFdInstall (s_fd s) (negb (bit (s_opflags s) 0)))
  else if oc =? ABI_ASYNC_CANCEL then
    do ud <- as_num (s_addr s);
    do _ <- guard (not_fixed s && no_select s && is0 (s_off s) && (s_len s =? 0) && (s_opflags s =? 0)
                   && (s_bufidx s =? 0) && (s_fileidx s =? 0));
    Some (PCancel ud)
  else if oc =? ABI_MSG_RING then
    do f <- sqe_file s; do ud <- as_num (s_off s); do cmd <- as_num (s_addr s);
    do _ <- guard (no_select s && (cmd =? ABI_MSG_DATA) && (s_opflags s =? 0) && (s_bufidx s =? 0)
                   && (s_fileidx s =? 0));
    Some (PMsgRing f (s_len s) ud)
  else None.

(** * What each a10 method documents *)
Definition iov_ptrs (iov : list iovarg) : list (uptr * N) :=
  map (fun '(r, o, l) => (Res (RBuf r o), l)) iov.

Definition bufref_arg (b : bufarg) : bufref :=
  match b with UserBuf r o l => BufMem (Res (RBuf r o)) l | PoolBuf g => BufGroup g end.

Definition out_addr (c : option N) : uptr := match c with Some _ => Res RAddr | None => Null end.

Definition intended_call (o : op) (k : kind) (fd : N) : posix_call :=
  let f := target k fd in
  match o with
  | ORead b offset => PRead f (bufref_arg b) (pos_of offset)                 (* read / pread *)
  | OReadv iov offset => PReadv f (iov_ptrs iov) (pos_of offset)             (* readv / preadv *)
  | OWrite r off l offset => PWrite f (Res (RBuf r off)) l (pos_of offset)   (* write / pwrite *)
  | OWritev iov offset => PWritev f (iov_ptrs iov) (pos_of offset)
  | OMultishotRead g => PReadMulti f g (AtPos 0)
      (* a10 leaves the offset word 0; READ_MULTISHOT is restricted to pollable (stream) files,
         for which the kernel ignores the position *)
  | OSpliceTo t len oi oo flags =>       (* splice(self, off_in, target, off_out, len, flags) *)
      PSplice f (pos_of oi) (FdNum (Z.of_N t)) (pos_of oo) len flags
  | OSpliceFrom t len oi oo flags =>     (* splice(target, off_in, self, off_out, len, flags) *)
      PSplice (FdNum (Z.of_N t)) (pos_of oi) f (pos_of oo) len flags
  | OClose => PClose f
  | OFsync data_only => PFsync f data_only                                   (* fsync / fdatasync *)
  | OFallocate offset len mode => PFallocate f mode offset len
  | OFadvise offset len advice => PFadvise f offset len advice
  | OFtruncate len => PFtruncate f len
  | OStatx mask =>
      (* statx(fd, "", AT_EMPTY_PATH, mask, &buf): only expressible for a regular descriptor *)
      PStatx (match f with FdNum n => n | FdFixed _ => (-1)%Z end) [] AT_EMPTY_PATH mask (Res RStatx)
  | OOpen path flags mode nk =>
      POpenat AT_FDCWD path (match nk with Regular => N.lor flags O_CLOEXEC | Direct => flags end)
              mode (created nk)
  | OMkdir path => PMkdirat AT_FDCWD path MKDIR_MODE
  | OUnlink path dir => PUnlinkat AT_FDCWD path (if dir then AT_REMOVEDIR else 0)
  | ORename from to => PRenameat AT_FDCWD from AT_FDCWD to 0
  | OSocket domain ty proto nk =>
      PSocket domain (match nk with Regular => N.lor ty O_CLOEXEC | Direct => ty end) proto (created nk)
  | OConnect sa => PConnect f sa
  | OBind sa => PBind f sa
  | OListen backlog => PListen f backlog
  | OAccept addrcap flags =>
      PAccept f (out_addr addrcap) addrcap
              (match k with Regular => N.lor flags O_CLOEXEC | Direct => flags end) (created k) false
  | OMultishotAccept flags =>
      PAccept f Null None (match k with Regular => N.lor flags O_CLOEXEC | Direct => flags end)
              (created k) true
  | OSend r off l flags zc => PSendto f (Res (RBuf r off)) l (N.lor flags MSG_NOSIGNAL) None zc
  | OSendTo r off l sa flags zc => PSendto f (Res (RBuf r off)) l (N.lor flags MSG_NOSIGNAL) sa zc
  | OSendMsg iov sa flags zc => PSendmsg f sa (iov_ptrs iov) Null 0 (N.lor flags MSG_NOSIGNAL) zc
  | ORecv b flags => PRecv f (bufref_arg b) flags false
  | OMultishotRecv g flags => PRecv f (BufGroup g) flags true
  | ORecvMsg iov addrcap flags =>
      PRecvmsg f (out_addr addrcap) (cap_len addrcap) (iov_ptrs iov) Null 0 flags None
  | ORecvFrom (UserBuf r off l) addrcap flags =>
      PRecvmsg f (out_addr addrcap) (cap_len addrcap) [(Res (RBuf r off), l)] Null 0 flags None
  | ORecvFrom (PoolBuf g) addrcap flags =>
      (* a zero-length iovec with buffer selection: the whole selected buffer *)
      PRecvmsg f (out_addr addrcap) (cap_len addrcap) [(Null, 0)] Null 0 flags (Some g)
  | OShutdown how =>
      PShutdown f (match how with ShutRead => SHUT_RD | ShutWrite => SHUT_WR | ShutBoth => SHUT_RDWR end)
  | OGetSockOpt level name optlen => PGetsockopt f level name (Res ROptVal) optlen
  | OSetSockOpt level name value => PSetsockopt f level name value
  | OSockName peer addrcap => PGetsockname f peer (out_addr addrcap) addrcap
  | OPipe flags nk =>
      PPipe2 (Res RFds) (match nk with Regular => N.lor flags O_CLOEXEC | Direct => flags end) (created nk)
  | OWaitid w options =>
      match w with
      | WProcess p => PWaitid P_PID (if p <? two31 then Z.of_N p else (Z.of_N p - 4294967296)%Z)
                              (Res RSiginfo) options
      | WGroup g => PWaitid P_PGID (if g <? two31 then Z.of_N g else (Z.of_N g - 4294967296)%Z)
                            (Res RSiginfo) options
      | WAll => PWaitid P_ALL 0%Z (Res RSiginfo) options
      end
  | OSignalRead => PRead f (BufMem (Res RSigfdInfo) SIGNALFD_SIGINFO_SIZE) CurPos
  | OMadvise r off len advice => PMadvise (Res (RBuf r off)) len advice
  | OPollRing ring_fd =>
      PPollAdd (FdNum (Z.of_N ring_fd))
               (N.lor (N.lor (N.lor (N.lor EPOLLIN EPOLLHUP) EPOLLERR) EPOLLET) EPOLLEXCLUSIVE) true
  | OToDirect => PFilesUpdate [Z.of_N fd] None
  | OToFd => PFixedFdInstall (Z.of_N fd) true
  | OCancel ud => PCancel ud
  | OWake ring_fd => PMsgRing (FdNum (Z.of_N ring_fd)) 0 WAKE_USER_DATA
  end.

(** * Argument domains (what the Rust types allow) *)
Definition u16 (n : N) : Prop := n < two16.
Definition u31 (n : N) : Prop := n < two31.
Definition u32 (n : N) : Prop := n < two32.
Definition u64 (n : N) : Prop := n < two64.
Definition i32 (z : Z) : Prop := (-2147483648 <= z < 2147483648)%Z.

Definition no_cloexec (flags : N) : Prop := N.testbit flags O_CLOEXEC_BIT = false.
Definition no_in_fixed (flags : N) : Prop := N.testbit flags SPLICE_F_FD_IN_FIXED_BIT = false.

Definition wf_buf (b : bufarg) : Prop :=
  match b with UserBuf _ _ l => u32 l | PoolBuf g => u16 g end.
Definition wf_iov (iov : list iovarg) : Prop :=
  u32 (N.of_nat (length iov)) /\ Forall (fun '(_, _, l) => u64 l) iov.
Definition wf_sa (sa : list N) : Prop := u16 (N.of_nat (length sa)).
Definition wf_osa (sa : option (list N)) : Prop :=
  match sa with Some bs => wf_sa bs /\ bs <> [] | None => True end.
Definition wf_cap (c : option N) : Prop := match c with Some n => u32 n | None => True end.

(** [wf_op]: the values the public constructors and builder methods can produce. The flag
    words are arbitrary 32-bit values except for the bits a10 reserves for itself
    (O_CLOEXEC/SOCK_CLOEXEC on descriptor-creating calls, SPLICE_F_FD_IN_FIXED). *)
Definition wf_op (o : op) : Prop :=
  match o with
  | ORead b offset => wf_buf b /\ u64 offset
  | OReadv iov offset | OWritev iov offset => wf_iov iov /\ u64 offset
  | OWrite _ _ l offset => u32 l /\ u64 offset
  | OMultishotRead g => u16 g
  | OSpliceTo t len oi oo flags | OSpliceFrom t len oi oo flags =>
      u31 t /\ u32 len /\ u64 oi /\ u64 oo /\ u32 flags /\ no_in_fixed flags
  | OClose | OToDirect | OToFd | OSignalRead => True
  | OFsync _ => True
  | OFallocate offset len mode => u64 offset /\ u32 len /\ u32 mode
  | OFadvise offset len advice => u64 offset /\ u32 len /\ u32 advice
  | OFtruncate len => u64 len
  | OStatx mask => u32 mask
  | OOpen _ flags mode _ => u32 flags /\ u32 mode /\ no_cloexec flags
  | OMkdir _ | OUnlink _ _ | ORename _ _ => True
  | OSocket domain ty proto _ => i32 domain /\ u32 ty /\ u32 proto /\ no_cloexec ty
  | OConnect sa | OBind sa => wf_sa sa /\ sa <> []
  | OListen backlog => u32 backlog
  | OAccept c flags => wf_cap c /\ u32 flags /\ no_cloexec flags
  | OMultishotAccept flags => u32 flags /\ no_cloexec flags
  | OSend _ _ l flags _ => u32 l /\ u32 flags
  | OSendTo _ _ l sa flags _ => u32 l /\ wf_osa sa /\ u32 flags
  | OSendMsg iov sa flags _ => wf_iov iov /\ wf_osa sa /\ u32 flags
  | ORecv b flags => wf_buf b /\ u32 flags
  | OMultishotRecv g flags => u16 g /\ u32 flags
  | ORecvMsg iov c flags => wf_iov iov /\ wf_cap c /\ u32 flags
  | ORecvFrom b c flags => wf_buf b /\ wf_cap c /\ u32 flags
  | OShutdown _ => True
  | OGetSockOpt level name optlen => u32 level /\ u32 name /\ u32 optlen
  | OSetSockOpt level name value => u32 level /\ u32 name /\ u32 (N.of_nat (length value))
  | OSockName _ c => wf_cap c
  | OPipe flags _ => u32 flags /\ no_cloexec flags
  | OWaitid w options =>
      u32 options /\ match w with WProcess p => u32 p | WGroup g => u32 g | WAll => True end
  | OMadvise _ _ len advice => u32 len /\ u32 advice
  | OPollRing r | OWake r => u31 r
  | OCancel ud => u64 ud
  end.

(** Descriptor kinds an operation can be invoked with: [to_direct_descriptor] needs a regular
    descriptor and [to_file_descriptor] a direct one (debug assertions in src/io_uring/fd.rs);
    operations that are not methods of an [AsyncFd] have no target (we fix [Regular]). *)
Definition kind_ok (o : op) (k : kind) : Prop :=
  match o with
  | OToDirect => k = Regular
  | OToFd => k = Direct
  | OOpen _ _ _ _ | OMkdir _ | OUnlink _ _ | ORename _ _ | OSocket _ _ _ _ | OPipe _ _ | OWaitid _ _
  | OMadvise _ _ _ _ | OPollRing _ | OCancel _ | OWake _ => k = Regular
  | _ => True
  end.

(** * Correspondence driver: the canonical rendering of an SQE and of the memory behind it *)
Definition zN (n : N) : Z := Z.of_N n.

(** Pointer classes as the harness canonicalises them: 0 = a number (or NULL), 10+r = caller
    region r (second component: offset), 3 = memory owned by the operation. *)
Definition render_word (w : word) : list Z :=
  match w with
  | Num n => [0%Z; zN n]
  | Ptr (RBuf r o) => [(10 + zN r)%Z; zN o]
  | Ptr _ => [3%Z; 0%Z]
  end.

Definition render_sqe (s : sqe) : list Z :=
  [zN (s_opcode s); zN (s_flags s); zN (s_ioprio s); s_fd s] ++ render_word (s_off s)
  ++ render_word (s_addr s) ++ [zN (s_len s); zN (s_opflags s); zN (s_bufidx s); zN (s_fileidx s)]
  ++ render_word (s_addr3 s).

Definition render_bytes (bs : list N) : list Z := zN (N.of_nat (length bs)) :: map zN bs.

Definition render_iov (iov : list (word * N)) : list Z :=
  zN (N.of_nat (length iov)) :: flat_map (fun '(b, l) => render_word b ++ [zN l]) iov.

Definition render_at (m : memory) (w : word) : list Z :=
  match w with
  | Ptr r => match m r with
             | Some (CBytes bs) => render_bytes bs
             | Some (CIov iov) => render_iov iov
             | Some (CU32 v) => [zN v]
             | Some (CFds fds) => zN (N.of_nat (length fds)) :: fds
             | Some (COut _) => []
             | Some (CMsg _ _ _ _ _ _ _) => []
             | None => [(-1)%Z]
             end
  | Num _ => []
  end.

Definition render_msg (m : memory) (w : word) (sending : bool) : list Z :=
  match w with
  | Ptr r => match m r with
             | Some (CMsg name namelen iov iovlen control controllen mflags) =>
                 render_word name ++ [zN namelen]
                 ++ (if sending then render_at m name else [])
                 ++ [zN iovlen] ++ render_at m iov
                 ++ render_word control ++ [zN controllen; zN mflags]
             | _ => [(-1)%Z]
             end
  | Num _ => [(-2)%Z]
  end.

(** What the kernel reads through the pointers of an SQE, by (pinned) opcode. *)
Definition render_mem (m : memory) (s : sqe) : list Z :=
  let oc := s_opcode s in
  if (oc =? ABI_READV) || (oc =? ABI_WRITEV) then render_at m (s_addr s)
  else if (oc =? ABI_OPENAT) || (oc =? ABI_MKDIRAT) || (oc =? ABI_UNLINKAT) || (oc =? ABI_STATX)
  then render_at m (s_addr s)
  else if oc =? ABI_RENAMEAT then render_at m (s_addr s) ++ render_at m (s_off s)
  else if (oc =? ABI_CONNECT) || (oc =? ABI_BIND) then render_at m (s_addr s)
  else if oc =? ABI_ACCEPT then render_at m (s_off s)
  else if (oc =? ABI_SEND) || (oc =? ABI_SEND_ZC) then render_at m (s_off s)
  else if (oc =? ABI_SENDMSG) || (oc =? ABI_SENDMSG_ZC) then render_msg m (s_addr s) true
  else if oc =? ABI_RECVMSG then render_msg m (s_addr s) false
  else if oc =? ABI_URING_CMD then
    match s_off s with
    | Num c => if c =? ABI_SOCKET_OP_SETSOCKOPT then render_at m (s_addr3 s)
               else if c =? ABI_SOCKET_OP_GETSOCKNAME then render_at m (s_addr3 s) else []
    | Ptr _ => []
    end
  else if oc =? ABI_FILES_UPDATE then render_at m (s_addr s)
  else [].

Definition run_encode (o : op) (k : kind) (fd : N) : list Z :=
  let '(s, m) := encode o k fd in render_sqe s ++ render_mem m s.

(** Model of [Config::build] (src/config.rs, src/io_uring/config.rs: [build_sys]), of what it
    calls ([Shared::new], the [mmap] helper and [Drop for Shared] in src/io_uring/mod.rs,
    [Completions::new] and [Drop for Completions] in src/io_uring/cq.rs) and of dropping the
    [Ring] it returns (src/lib.rs).

    The configuration is the private [Config] struct reached through the public setters. The
    kernel is an oracle: one recorded answer per question [build_sys] can ask (io_uring_setup,
    three mmap, three madvise, io_uring_register). [build] transcribes the code as it is, step
    by step, and produces the list of system-level events, including which clean-up runs at
    which [?]:
      - [rfd : OwnedFd] is a local of [build_sys] until it is moved into [Shared::new]; there it
        is a by-value argument (closed when the function returns early) until it is moved into
        the [Shared] value; from then on [Drop for Shared] followed by the field drop closes it;
      - a failing second mmap runs the explicit [munmap] in [inspect_err];
      - a failing [madvise] runs the [munmap] inside the [mmap] helper;
      - a failing [Completions::new] drops the local [submissions] (the only [Arc<Shared>]);
      - a failing registration drops [completions], then [submissions].
    [u32] arithmetic on the values the kernel wrote back is written out: with overflow checks
    ([checked]) an overflow unwinds (outcome [EPanic], locals dropped as for an early return),
    without them it wraps.

    Executable definitions only; proofs are in Proofs/BuildProofs.v. *)
From A10 Require Import Base.Word Base.Run Gen.Consts.

Definition u32_max : N := two32 - 1.

(** * Configuration *)
Record config := {
  c_sq : N;                (* submission_entries: u32 *)
  c_cq : option N;         (* completion_entries: Option<u32> *)
  c_clamp : bool;
  c_kthread : bool;        (* kernel_thread *)
  c_cpu : option N;        (* cpu_affinity: Option<u32> *)
  c_idle : option N;       (* idle_timeout: Option<u32>, milliseconds *)
  c_single : bool;         (* single_issuer *)
  c_defer : bool;          (* defer_taskrun *)
  c_disabled : bool;
  c_attach : option N;     (* attach: the other ring's descriptor *)
  c_direct : option N      (* direct_descriptors: Option<u32> *)
}.

(** [Config::new] *)
Definition config_new : config :=
  {| c_sq := 32; c_cq := None; c_clamp := false; c_kthread := false; c_cpu := None; c_idle := None;
     c_single := false; c_defer := false; c_disabled := false; c_attach := None; c_direct := None |}.

(** The public setters of [a10::Config]. *)
Inductive setter :=
  | SubmissionQueueSize (n : N)        (* with_submission_queue_size *)
  | CompletionQueueSize (n : N)        (* with_completion_queue_size *)
  | MaximumQueueSize                   (* with_maximum_queue_size *)
  | SingleIssuer                       (* single_issuer *)
  | DeferTaskRun                       (* defer_task_run *)
  | KernelThread                       (* with_kernel_thread *)
  | CpuAffinity (cpu : N)              (* with_cpu_affinity *)
  | IdleTimeout (secs nanos : N)       (* with_idle_timeout(Duration) *)
  | DirectDescriptors (n : N)          (* with_direct_descriptors *)
  | Disable                            (* disable *)
  | Attach (fd : N).                   (* attach / attach_queue: descriptor of the other ring *)

(** [Duration::as_millis] saturated to [u32]. *)
Definition idle_millis (secs nanos : N) : N :=
  let millis := secs * 1000 + nanos / 1000000 in
  if u32_max <? millis then u32_max else millis.

Definition apply_setter (c : config) (s : setter) : config :=
  match s with
  | SubmissionQueueSize n =>
      {| c_sq := n; c_cq := c_cq c; c_clamp := c_clamp c; c_kthread := c_kthread c; c_cpu := c_cpu c;
         c_idle := c_idle c; c_single := c_single c; c_defer := c_defer c; c_disabled := c_disabled c;
         c_attach := c_attach c; c_direct := c_direct c |}
  | CompletionQueueSize n =>
      {| c_sq := c_sq c; c_cq := Some n; c_clamp := c_clamp c; c_kthread := c_kthread c; c_cpu := c_cpu c;
         c_idle := c_idle c; c_single := c_single c; c_defer := c_defer c; c_disabled := c_disabled c;
         c_attach := c_attach c; c_direct := c_direct c |}
  | MaximumQueueSize =>
      {| c_sq := u32_max; c_cq := c_cq c; c_clamp := true; c_kthread := c_kthread c; c_cpu := c_cpu c;
         c_idle := c_idle c; c_single := c_single c; c_defer := c_defer c; c_disabled := c_disabled c;
         c_attach := c_attach c; c_direct := c_direct c |}
  | SingleIssuer =>
      {| c_sq := c_sq c; c_cq := c_cq c; c_clamp := c_clamp c; c_kthread := c_kthread c; c_cpu := c_cpu c;
         c_idle := c_idle c; c_single := true; c_defer := c_defer c; c_disabled := c_disabled c;
         c_attach := c_attach c; c_direct := c_direct c |}
  | DeferTaskRun =>
      {| c_sq := c_sq c; c_cq := c_cq c; c_clamp := c_clamp c; c_kthread := c_kthread c; c_cpu := c_cpu c;
         c_idle := c_idle c; c_single := c_single c; c_defer := true; c_disabled := c_disabled c;
         c_attach := c_attach c; c_direct := c_direct c |}
  | KernelThread =>
      {| c_sq := c_sq c; c_cq := c_cq c; c_clamp := c_clamp c; c_kthread := true; c_cpu := c_cpu c;
         c_idle := c_idle c; c_single := c_single c; c_defer := c_defer c; c_disabled := c_disabled c;
         c_attach := c_attach c; c_direct := c_direct c |}
  | CpuAffinity cpu =>
      {| c_sq := c_sq c; c_cq := c_cq c; c_clamp := c_clamp c; c_kthread := c_kthread c; c_cpu := Some cpu;
         c_idle := c_idle c; c_single := c_single c; c_defer := c_defer c; c_disabled := c_disabled c;
         c_attach := c_attach c; c_direct := c_direct c |}
  | IdleTimeout secs nanos =>
      {| c_sq := c_sq c; c_cq := c_cq c; c_clamp := c_clamp c; c_kthread := c_kthread c; c_cpu := c_cpu c;
         c_idle := Some (idle_millis secs nanos); c_single := c_single c; c_defer := c_defer c;
         c_disabled := c_disabled c; c_attach := c_attach c; c_direct := c_direct c |}
  | DirectDescriptors n =>
      {| c_sq := c_sq c; c_cq := c_cq c; c_clamp := c_clamp c; c_kthread := c_kthread c; c_cpu := c_cpu c;
         c_idle := c_idle c; c_single := c_single c; c_defer := c_defer c; c_disabled := c_disabled c;
         c_attach := c_attach c; c_direct := Some n |}
  | Disable =>
      {| c_sq := c_sq c; c_cq := c_cq c; c_clamp := c_clamp c; c_kthread := c_kthread c; c_cpu := c_cpu c;
         c_idle := c_idle c; c_single := c_single c; c_defer := c_defer c; c_disabled := true;
         c_attach := c_attach c; c_direct := c_direct c |}
  | Attach fd =>
      {| c_sq := c_sq c; c_cq := c_cq c; c_clamp := c_clamp c; c_kthread := c_kthread c; c_cpu := c_cpu c;
         c_idle := c_idle c; c_single := c_single c; c_defer := c_defer c; c_disabled := c_disabled c;
         c_attach := Some fd; c_direct := c_direct c |}
  end.

(** [Ring::config().a().b()...] *)
Definition apply_setters (ss : list setter) : config := fold_left apply_setter ss config_new.

(** * The parameter block handed to [io_uring_setup] *)
Record params := {
  p_sq_entries : N;
  p_cq_entries : N;
  p_flags : N;
  p_sq_thread_cpu : N;
  p_sq_thread_idle : N;
  p_wq_fd : N
}.

Definition or_if (b : bool) (w f : N) : N := if b then N.lor w f else w.
Definition is_some {A : Type} (o : option A) : bool := match o with Some _ => true | None => false end.
Definition some_or0 (o : option N) : N := match o with Some n => n | None => 0 end.

(** The flag word, in the order [build_sys] ORs it together (the struct starts zeroed). *)
Definition flags_of_config (c : config) : N :=
  let f := N.lor IORING_SETUP_SUBMIT_ALL IORING_SETUP_NO_SQARRAY in
  let f := if c_kthread c then N.lor f IORING_SETUP_SQPOLL else N.lor f IORING_SETUP_COOP_TASKRUN in
  let f := or_if (c_disabled c) f IORING_SETUP_R_DISABLED in
  let f := or_if (c_single c) f IORING_SETUP_SINGLE_ISSUER in
  let f := or_if (c_defer c) f IORING_SETUP_DEFER_TASKRUN in
  let f := or_if (is_some (c_cq c)) f IORING_SETUP_CQSIZE in
  let f := or_if (c_clamp c) f IORING_SETUP_CLAMP in
  let f := or_if (is_some (c_cpu c)) f IORING_SETUP_SQ_AFF in
  let f := or_if (is_some (c_attach c)) f IORING_SETUP_ATTACH_WQ in
  f.

Definition params_of_config (c : config) : params :=
  {| p_sq_entries := c_sq c;
     p_cq_entries := some_or0 (c_cq c);
     p_flags := flags_of_config c;
     p_sq_thread_cpu := some_or0 (c_cpu c);
     p_sq_thread_idle := some_or0 (c_idle c);
     p_wq_fd := match c_attach c with Some fd => trunc32 fd (* [ring_fd() as u32] *) | None => 0 end |}.

(** First argument of [io_uring_setup]: [parameters.sq_entries]. *)
Definition setup_entries (c : config) : N := p_sq_entries (params_of_config c).

(** * The kernel's answers *)
(** What a successful [io_uring_setup] returns and writes back into the parameter block (only
    the fields [build_sys] reads afterwards). *)
Record granted := {
  g_fd : N;
  g_sq : N;          (* sq_entries *)
  g_cq : N;          (* cq_entries *)
  g_flags : N;       (* flags as left in the block *)
  g_features : N;
  g_sq_array : N;    (* sq_off.array *)
  g_cq_cqes : N      (* cq_off.cqes *)
}.

Inductive setup_answer := SetupErr (errno : N) | SetupOk (g : granted).
Inductive map_answer := MapOk (addr : N) | MapErr (errno : N).
Inductive sys_answer := SysOk | SysErr (errno : N).

Record answers := {
  a_setup : setup_answer;
  a_map0 : map_answer; a_adv0 : sys_answer;    (* submission ring *)
  a_map1 : map_answer; a_adv1 : sys_answer;    (* submission entries *)
  a_map2 : map_answer; a_adv2 : sys_answer;    (* completion ring *)
  a_register : sys_answer                      (* IORING_REGISTER_FILES2 *)
}.

(** * Events *)
Inductive event :=
  | EOpen (fd : N)                                  (* io_uring_setup returned a descriptor *)
  | EClose (fd : N)                                 (* OwnedFd dropped *)
  | EMap (addr len off : N)                         (* mmap succeeded *)
  | EMapFail (len off : N)                          (* mmap failed *)
  | EAdvise (addr len : N) (ok : bool)              (* madvise(MADV_DONTFORK) *)
  | EUnmap (addr len : N)                           (* munmap *)
  | ERegister (opcode nr_args rsrc_nr rsrc_flags : N) (ok : bool).

Inductive error :=
  | EOs (errno : N)                 (* io::Error::last_os_error() *)
  | EUnsupported (feature : N)      (* check_feature! *)
  | EPanic.                         (* arithmetic overflow with overflow checks *)

(** * Values *)
(** [Shared] (fields that matter for resources and modes). *)
Record shared := {
  sh_ring : N;        (* submission_ring *)
  sh_ring_len : N;    (* submission_ring_len: u32 *)
  sh_sqes : N;        (* submissions *)
  sh_entries : N;     (* submissions_len: u32 *)
  sh_kthread : bool;
  sh_single : bool;
  sh_fd : N           (* rfd *)
}.

(** [Completions]. *)
Record completions := {
  co_ring : N;
  co_ring_len : N;    (* ring_len: u32 *)
  co_entries : N      (* entries_len: u32 *)
}.

(** [Ring { cq, sq }]; [sq] holds the only [Arc<Shared>]. *)
Record ring := { r_cq : completions; r_sq : shared }.

Inductive outcome := Built (r : ring) | Failed (e : error).

(** Sizes fixed by the ABI: [size_of::<__u32>()], [size_of::<sq::Submission>()],
    [size_of::<Completion>()], [size_of::<io_uring_rsrc_register>()]. *)
Definition SIZE_U32 : N := 4.
Definition SIZE_SQE : N := 64.
Definition SIZE_CQE : N := 16.
Definition SIZE_RSRC_REGISTER : N := 32.
(** libc::MADV_DONTFORK *)
Definition MADV_DONTFORK : N := 10.

(** [a * b] and [a + b] on [u32]: [None] = overflow panic. *)
Definition mul32 (checked : bool) (a b : N) : option N :=
  if checked && (two32 <=? a * b) then None else Some (trunc32 (a * b)).
Definition add32 (checked : bool) (a b : N) : option N :=
  if checked && (two32 <=? a + b) then None else Some (trunc32 (a + b)).

(** The [mmap] helper of src/io_uring/mod.rs: mmap, then madvise; a failing madvise unmaps. *)
Definition mmap_helper (len off : N) (m : map_answer) (adv : sys_answer) : (N + N) * list event :=
  match m with
  | MapErr e => (inr e, [EMapFail len off])
  | MapOk addr =>
      match adv with
      | SysOk => (inl addr, [EMap addr len off; EAdvise addr len true])
      | SysErr e => (inr e, [EMap addr len off; EAdvise addr len false; EUnmap addr len])
      end
  end.

(** [Drop for Shared], then its fields ([rfd] last). *)
Definition drop_shared (s : shared) : list event :=
  [EUnmap (sh_sqes s) (sh_entries s * SIZE_SQE);
   EUnmap (sh_ring s) (sh_ring_len s);
   EClose (sh_fd s)].

(** [Drop for Completions]. *)
Definition drop_completions (c : completions) : list event :=
  [EUnmap (co_ring c) (co_ring_len c)].

(** [parameters.sq_off.array + parameters.sq_entries * size_of::<__u32>() as u32] *)
Definition sq_ring_len (checked : bool) (g : granted) : option N :=
  match mul32 checked (g_sq g) SIZE_U32 with
  | None => None
  | Some x => add32 checked (g_sq_array g) x
  end.

(** [parameters.cq_off.cqes + parameters.cq_entries * size_of::<Completion>() as u32] *)
Definition cq_ring_len (checked : bool) (g : granted) : option N :=
  match mul32 checked (g_cq g) SIZE_CQE with
  | None => None
  | Some entries_len => add32 checked (g_cq_cqes g) entries_len
  end.

(** [Shared::new(rfd, &parameters)]. *)
Definition shared_new (checked : bool) (g : granted) (a : answers) : (shared + error) * list event :=
  let fd := g_fd g in
  match sq_ring_len checked g with
  | None => (inr EPanic, [EClose fd])                                 (* unwinding drops [rfd] *)
  | Some ring_len =>
      let '(m0, ev0) := mmap_helper ring_len IORING_OFF_SQ_RING (a_map0 a) (a_adv0 a) in
      match m0 with
      | inr e => (inr (EOs e), ev0 ++ [EClose fd])                    (* [?]: the argument [rfd] is dropped *)
      | inl ring_addr =>
          let sqes_len := g_sq g * SIZE_SQE in                        (* usize arithmetic *)
          let '(m1, ev1) := mmap_helper sqes_len IORING_OFF_SQES (a_map1 a) (a_adv1 a) in
          match m1 with
          | inr e =>                                                  (* inspect_err, then [?] *)
              (inr (EOs e), ev0 ++ ev1 ++ [EUnmap ring_addr ring_len; EClose fd])
          | inl sqes_addr =>
              (inl {| sh_ring := ring_addr; sh_ring_len := ring_len; sh_sqes := sqes_addr;
                      sh_entries := g_sq g;
                      sh_kthread := negb (N.land (g_flags g) IORING_SETUP_SQPOLL =? 0);
                      sh_single := negb (N.land (g_flags g) IORING_SETUP_SINGLE_ISSUER =? 0);
                      sh_fd := fd |},
               ev0 ++ ev1)
          end
      end
  end.

(** [Completions::new(rfd, &parameters)]: owns nothing until its mmap succeeded. *)
Definition completions_new (checked : bool) (g : granted) (a : answers)
  : (completions + error) * list event :=
  match cq_ring_len checked g with
  | None => (inr EPanic, [])
  | Some ring_len =>
      let '(m2, ev2) := mmap_helper ring_len IORING_OFF_CQ_RING (a_map2 a) (a_adv2 a) in
      match m2 with
      | inr e => (inr (EOs e), ev2)
      | inl addr => (inl {| co_ring := addr; co_ring_len := ring_len; co_entries := g_cq g |}, ev2)
      end
  end.

Definition missing (features f : N) : bool := N.land features f =? 0.

(** The four [check_feature!] in order. *)
Definition required_features : list N :=
  [IORING_FEAT_NODROP; IORING_FEAT_SUBMIT_STABLE; IORING_FEAT_RW_CUR_POS; IORING_FEAT_SQPOLL_NONFIXED].

Fixpoint first_missing (features : N) (req : list N) : option N :=
  match req with
  | [] => None
  | f :: r => if missing features f then Some f else first_missing features r
  end.

(** [Config::build] = [build_sys] + [Ring { cq, sq }]. *)
Definition build (checked : bool) (c : config) (a : answers) : outcome * list event :=
  match a_setup a with
  | SetupErr e => (Failed (EOs e), [])
  | SetupOk g =>
      let fd := g_fd g in
      let ev := [EOpen fd] in
      match first_missing (g_features g) required_features with
      | Some f => (Failed (EUnsupported f), ev ++ [EClose fd])          (* local [rfd] dropped *)
      | None =>
          let '(s, ev_s) := shared_new checked g a in
          match s with
          | inr e => (Failed e, ev ++ ev_s)
          | inl sh =>
              (* [submissions = Submissions::new(shared)] *)
              let '(cq, ev_c) := completions_new checked g a in
              match cq with
              | inr e => (Failed e, ev ++ ev_s ++ ev_c ++ drop_shared sh)
              | inl co =>
                  match c_direct c with
                  | None => (Built {| r_cq := co; r_sq := sh |}, ev ++ ev_s ++ ev_c)
                  | Some size =>
                      match a_register a with
                      | SysOk =>
                          (Built {| r_cq := co; r_sq := sh |},
                           ev ++ ev_s ++ ev_c
                              ++ [ERegister IORING_REGISTER_FILES2 SIZE_RSRC_REGISTER size
                                            IORING_RSRC_REGISTER_SPARSE true])
                      | SysErr e =>
                          (Failed (EOs e),
                           ev ++ ev_s ++ ev_c
                              ++ [ERegister IORING_REGISTER_FILES2 SIZE_RSRC_REGISTER size
                                            IORING_RSRC_REGISTER_SPARSE false]
                              ++ drop_completions co ++ drop_shared sh)
                      end
                  end
              end
          end
      end
  end.

(** Dropping the [Ring]: [Drop for Ring] makes no resource call; then the fields in
    declaration order: [cq], [sq]. *)
Definition drop_ring (r : ring) : list event := drop_completions (r_cq r) ++ drop_shared (r_sq r).

(** * Resources *)
Inductive resource := RFd (fd : N) | RMap (addr len : N).

Definition acquired_by (e : event) : list resource :=
  match e with EOpen fd => [RFd fd] | EMap addr len _ => [RMap addr len] | _ => [] end.
Definition released_by (e : event) : list resource :=
  match e with EClose fd => [RFd fd] | EUnmap addr len => [RMap addr len] | _ => [] end.
Definition acquired (l : list event) : list resource := flat_map acquired_by l.
Definition released (l : list event) : list resource := flat_map released_by l.

(** What a [Ring] holds: the descriptor and the three mappings, in order of acquisition. *)
Definition held (r : ring) : list resource :=
  [RFd (sh_fd (r_sq r));
   RMap (sh_ring (r_sq r)) (sh_ring_len (r_sq r));
   RMap (sh_sqes (r_sq r)) (sh_entries (r_sq r) * SIZE_SQE);
   RMap (co_ring (r_cq r)) (co_ring_len (r_cq r))].

Definition resource_eqb (x y : resource) : bool :=
  match x, y with
  | RFd f, RFd f' => f =? f'
  | RMap p n, RMap p' n' => (p =? p') && (n =? n')
  | _, _ => false
  end.

(** Remove one occurrence; [None] when there is none (release of something not held). *)
Fixpoint take_out (x : resource) (h : list resource) : option (list resource) :=
  match h with
  | [] => None
  | y :: h' => if resource_eqb x y then Some h'
               else match take_out x h' with Some h'' => Some (y :: h'') | None => None end
  end.

(** Replay an event list against the multiset of held resources (newest first). *)
Fixpoint replay (h : list resource) (l : list event) : option (list resource) :=
  match l with
  | [] => Some h
  | e :: l' =>
      match e with
      | EOpen fd => replay (RFd fd :: h) l'
      | EMap addr len _ => replay (RMap addr len :: h) l'
      | EClose fd => match take_out (RFd fd) h with Some h' => replay h' l' | None => None end
      | EUnmap addr len => match take_out (RMap addr len) h with Some h' => replay h' l' | None => None end
      | _ => replay h l'
      end
  end.

(** * The verdict as a function of the answers alone
    The first refusal in the order the questions are asked; [wants_files] = a direct
    descriptor table was requested (the registration is only asked for then). Written
    independently of [build] (it shares only the two length computations). *)
Definition map_refusal (m : map_answer) (adv : sys_answer) : option N :=
  match m with
  | MapErr e => Some e
  | MapOk _ => match adv with SysErr e => Some e | SysOk => None end
  end.

Definition first_refusal (checked wants_files : bool) (a : answers) : option error :=
  match a_setup a with
  | SetupErr e => Some (EOs e)
  | SetupOk g =>
      match first_missing (g_features g) required_features with
      | Some f => Some (EUnsupported f)
      | None =>
          match sq_ring_len checked g with None => Some EPanic | Some _ =>
          match map_refusal (a_map0 a) (a_adv0 a) with Some e => Some (EOs e) | None =>
          match map_refusal (a_map1 a) (a_adv1 a) with Some e => Some (EOs e) | None =>
          match cq_ring_len checked g with None => Some EPanic | Some _ =>
          match map_refusal (a_map2 a) (a_adv2 a) with Some e => Some (EOs e) | None =>
          if wants_files then match a_register a with SysErr e => Some (EOs e) | SysOk => None end
          else None
          end end end end end
      end
  end.

(** * Correspondence driver
    A case: the setter calls, the answers the (simulated) kernel gave, whether the code under
    test was built with overflow checks. Observation:
      [entries; sq_entries; cq_entries; flags; sq_thread_cpu; sq_thread_idle; wq_fd]
      outcome: [0] | [1; errno] | [2; feature] | [3]
      [-1] the system calls in order (descriptor open/close are not visible as calls)
      [-2; descriptor still open]
      for a ring: [-3; sq entries; cq entries; kernel_thread; single_issuer; fd is the kernel's]
                  [-4] the system calls of dropping it [-5; descriptor still open]. *)
Record bcase18 := { b_checked : bool; b_setters : list setter; b_answers : answers }.

Definition obs_event (e : event) : list Z :=
  match e with
  | EOpen _ | EClose _ => []
  | EMap addr len off => [10; nz addr; nz len; nz off]
  | EMapFail len off => [11; nz len; nz off]
  | EAdvise addr len ok => [12; nz addr; nz len; nz MADV_DONTFORK; bz ok]
  | EUnmap addr len => [13; nz addr; nz len]
  | ERegister op n rn rf ok => if ok then [14; nz op; nz n; nz rn; nz rf; 1] else [14; nz op; nz n; 0]
  end%Z.

Definition count_open (l : list event) : Z :=
  fold_left (fun (z : Z) e => match e with EOpen _ => z + 1 | EClose _ => z - 1 | _ => z end%Z) l 0%Z.

Definition obs_error (e : error) : list Z :=
  match e with EOs n => [1; nz n] | EUnsupported f => [2; nz f] | EPanic => [3] end%Z.

Definition granted_fd (a : answers) : N :=
  match a_setup a with SetupOk g => g_fd g | SetupErr _ => 0 end.

Definition run_bcase18 (b : bcase18) : list Z :=
  let c := apply_setters (b_setters b) in
  let p := params_of_config c in
  let '(o, log) := build (b_checked b) c (b_answers b) in
  ([nz (setup_entries c); nz (p_sq_entries p); nz (p_cq_entries p); nz (p_flags p);
    nz (p_sq_thread_cpu p); nz (p_sq_thread_idle p); nz (p_wq_fd p)]
   ++ match o with Built _ => [0] | Failed e => obs_error e end
   ++ [-1] ++ flat_map obs_event log ++ [-2; count_open log]
   ++ match o with
      | Failed _ => []
      | Built r =>
          [-3; nz (sh_entries (r_sq r)); nz (co_entries (r_cq r)); bz (sh_kthread (r_sq r));
           bz (sh_single (r_sq r)); bz (N.eqb (sh_fd (r_sq r)) (granted_fd (b_answers b)))]
          ++ [-4] ++ flat_map obs_event (drop_ring r) ++ [-5; count_open (log ++ drop_ring r)]
      end)%Z.

(** Byte-level model of the socket address conversions of src/net.rs: the trait
    [SocketAddress] ([into_storage], [as_ptr], [as_mut_ptr], [init]) and its five
    implementations: [SocketAddrV4] (storage [sockaddr_in], 16 bytes), [SocketAddrV6]
    ([sockaddr_in6], 28 bytes), [SocketAddr] (either family, storage [sockaddr_in6]),
    [std::os::unix::net::SocketAddr] ([sockaddr_un], 2 + 108 bytes) and [NoAddress].

    Storage is the list of bytes of the C structure as laid out on x86-64 Linux (fields in
    host = little-endian order; the port is byte-swapped by [u16::to_be] first). The parts of
    std the Unix implementation leans on ([from_pathname], [from_abstract_name],
    [as_pathname], [as_abstract_name]) are modelled by what they accept and return.

    [variant]: [Fixed] is the code in /repo (after the repairs of H7, H8 and H29: the Unix storage
    carries the address length, [init] drops the terminating NUL of a pathname and reads a length
    below [sizeof(sa_family_t)] as the unnamed address); [AsIs] is the code before those repairs,
    kept for the refutation lemmas. Executable definitions only; proofs are in Proofs/SockAddrProofs.v. *)
From A10 Require Import Base.Word Base.Run.

(** * Constants (libc, x86-64 Linux). The harness asserts them against libc at start-up. *)
Definition AF_UNIX : N := 1.
Definition AF_INET : N := 2.
Definition AF_INET6 : N := 10.
Definition SIZEOF_IN : N := 16.
Definition SIZEOF_IN6 : N := 28.
Definition SIZEOF_UN : N := 110.
Definition SUN_PATH_OFFSET : N := 2.
Definition SUN_PATH_LEN : nat := 108.

(** * Integers and bytes *)
Definition u16_le (x : N) : list N := [x mod 256; (x / 256) mod 256].
Definition u32_le (x : N) : list N :=
  [x mod 256; (x / 256) mod 256; (x / 65536) mod 256; (x / 16777216) mod 256].
Definition byte_at (bs : list N) (i : nat) : N := nth i bs 0.
Definition le_u16 (bs : list N) : N := byte_at bs 0 + 256 * byte_at bs 1.
Definition le_u32 (bs : list N) : N :=
  byte_at bs 0 + 256 * byte_at bs 1 + 65536 * byte_at bs 2 + 16777216 * byte_at bs 3.
(** [u16::to_be] / [u16::from_be] on a little-endian host: swap the two bytes. *)
Definition swap16 (x : N) : N := (x mod 256) * 256 + (x / 256) mod 256.

Definition sub (off n : nat) (l : list N) : list N := firstn n (skipn off l).
Definition zeros (n : nat) : list N := repeat 0 n.
(** [l] copied to the front of an [n]-byte zeroed array. *)
Definition pad_to (n : nat) (l : list N) : list N := firstn n (l ++ zeros n).

(** * Addresses (the Rust values) and the implementing types *)
Inductive addr :=
  | V4 (ip : list N) (port : N)                         (* 4 octets *)
  | V6 (ip : list N) (port flowinfo scope_id : N)       (* 16 octets *)
  | UnUnnamed
  | UnPath (path : list N)                              (* no NUL, 1..107 bytes *)
  | UnAbstract (name : list N)                          (* any bytes, 0..107 *)
  | NoAddr.

Inductive impl := ISockAddrV4 | ISockAddrV6 | ISockAddr | IUnix | INoAddress.
Inductive variant := AsIs | Fixed.

(** Bytes of [Self::Storage] plus the length stored next to them ([Fixed] Unix only, else 0). *)
Definition storage := (list N * N)%type.

(** * into_storage *)
Definition store_in (ip : list N) (port : N) : list N :=
  u16_le AF_INET ++ u16_le (swap16 port) ++ u32_le (le_u32 ip) ++ zeros 8.

Definition store_in6 (ip : list N) (port flow scope : N) : list N :=
  u16_le AF_INET6 ++ u16_le (swap16 port) ++ u32_le flow ++ ip ++ u32_le scope.

Definition sun_path_of (a : addr) : list N :=
  match a with
  | UnPath p => p            (* path[..bytes.len()].copy_from_slice(bytes) *)
  | UnAbstract n => 0 :: n   (* path[1..][..bytes.len()].copy_from_slice(bytes) *)
  | _ => []                  (* unnamed: all zero *)
  end.

Definition store_un (a : addr) : list N := u16_le AF_UNIX ++ pad_to SUN_PATH_LEN (sun_path_of a).

(** [Fixed]: the length std computes for the same address. *)
Definition un_len (a : addr) : N :=
  match a with
  | UnPath p => SUN_PATH_OFFSET + N.of_nat (length p) + 1
  | UnAbstract n => SUN_PATH_OFFSET + 1 + N.of_nat (length n)
  | _ => SUN_PATH_OFFSET
  end.

Definition into_storage (v : variant) (i : impl) (a : addr) : storage :=
  match i, a with
  | ISockAddrV4, V4 ip port => (store_in ip port, 0)
  | ISockAddrV6, V6 ip port flow scope => (store_in6 ip port flow scope, 0)
  | ISockAddr, V4 ip port => (store_in ip port ++ zeros 12, 0)  (* written over a zeroed sockaddr_in6 *)
  | ISockAddr, V6 ip port flow scope => (store_in6 ip port flow scope, 0)
  | IUnix, _ => (store_un a, match v with AsIs => 0 | Fixed => un_len a end)
  | _, _ => ([], 0)   (* NoAddress (zero sized); other combinations do not type-check in Rust *)
  end.

(** * as_ptr / as_mut_ptr: the lengths (the pointer is always the start of the structure;
      [NoAddress] passes a null pointer with length 0). *)
Definition as_ptr_len (v : variant) (i : impl) (st : storage) : N :=
  match i with
  | ISockAddrV4 => SIZEOF_IN
  | ISockAddrV6 => SIZEOF_IN6
  | ISockAddr => if le_u16 (fst st) =? AF_INET then SIZEOF_IN else SIZEOF_IN6
  | IUnix => match v with AsIs => SIZEOF_UN | Fixed => snd st end
  | INoAddress => 0
  end.

Definition as_mut_ptr_len (i : impl) : N :=
  match i with
  | ISockAddrV4 => SIZEOF_IN
  | ISockAddrV6 | ISockAddr => SIZEOF_IN6
  | IUnix => SIZEOF_UN
  | INoAddress => 0
  end.

(** * init. [None] = a [debug_assert!] fails (the harness is a debug build), or the length
      is outside what the storage holds (release: arithmetic underflow / out-of-bounds read). *)
Definition init_in (b : list N) (len : N) : option addr :=
  if negb (len =? SIZEOF_IN) then None
  else if negb (le_u16 b =? AF_INET) then None
  else Some (V4 (u32_le (le_u32 (sub 4 4 b))) (swap16 (le_u16 (sub 2 2 b)))).

Definition init_in6 (b : list N) (len : N) : option addr :=
  if negb (len =? SIZEOF_IN6) then None
  else if negb (le_u16 b =? AF_INET6) then None
  else Some (V6 (sub 8 16 b) (swap16 (le_u16 (sub 2 2 b))) (le_u32 (sub 4 4 b)) (le_u32 (sub 24 4 b))).

Definition init_sockaddr (b : list N) (len : N) : option addr :=
  if len <? 2 then None
  else if le_u16 b =? AF_INET then init_in (firstn 16 b) len
  else init_in6 b len.

(** std's [SocketAddr::from_pathname]: rejects interior NULs and 108 bytes or more; the empty
    path is the unnamed address. On rejection a10 falls back to the unnamed address. *)
Definition from_pathname (p : list N) : addr :=
  if existsb (N.eqb 0) p then UnUnnamed
  else if (SUN_PATH_LEN <=? length p)%nat then UnUnnamed
  else match p with [] => UnUnnamed | _ => UnPath p end.

(** [Fixed]: [path.strip_suffix(&[0]).unwrap_or(path)]. *)
Definition strip_nul (p : list N) : list N :=
  match rev p with
  | 0 :: r => rev r
  | _ => p
  end.

(** A length below [sizeof(sa_family_t)] (recvmsg reports 0 when the sender is not bound: the
    kernel writes nothing, not even the family) is the unnamed address since the repair of H29;
    before it the code computed [length - 2] on it ([None]: assertion failure in a debug build,
    wrap-around and an out-of-bounds slice in a release build). *)
Definition init_un (v : variant) (b : list N) (len : N) : option addr :=
  if len <? SUN_PATH_OFFSET then (match v with Fixed => Some UnUnnamed | AsIs => None end)
  else if SIZEOF_UN <? len then None
  else if negb (le_u16 b =? AF_UNIX) then None
  else
    let path := sub 2 (N.to_nat (len - SUN_PATH_OFFSET)) b in
    match path with
    | 0 :: name => Some (UnAbstract name)   (* from_abstract_name accepts up to 107 bytes *)
    | _ => Some (from_pathname (match v with AsIs => path | Fixed => strip_nul path end))
    end.

Definition init (v : variant) (i : impl) (b : list N) (len : N) : option addr :=
  match i with
  | ISockAddrV4 => init_in b len
  | ISockAddrV6 => init_in6 b len
  | ISockAddr => init_sockaddr b len
  | IUnix => init_un v b len
  | INoAddress => if len =? 0 then Some NoAddr else None
  end.

(** * What Linux reports as the length of an address (getsockname, accept, recvmsg). *)
Definition kernel_len (a : addr) : N :=
  match a with
  | V4 _ _ => 16
  | V6 _ _ _ _ => 28
  | UnUnnamed => 2
  | UnPath p => 2 + N.of_nat (length p) + 1    (* includes the terminating NUL *)
  | UnAbstract n => 2 + 1 + N.of_nat (length n)
  | NoAddr => 0
  end.

(** What recvmsg reports as [msg_namelen] for the SENDER of a datagram: as above, except that a
    Unix sender that is not bound has length 0 (unix_copy_addr: nothing is copied). *)
Definition kernel_len_recv (a : addr) : N :=
  match a with UnUnnamed => 0 | _ => kernel_len a end.

(** * The two directions as the kernel sees them.
    [sent]: the bytes covered by the pointer/length pair of [as_ptr].
    [reply]: a fresh storage of [as_mut_ptr] bytes in which the kernel has written the first
    [len] bytes of that representation; the rest still holds [fill]. *)
Definition sent (v : variant) (i : impl) (a : addr) : list N :=
  let st := into_storage v i a in firstn (N.to_nat (as_ptr_len v i st)) (fst st).

Definition pad_fill (cap : nat) (fill : N) (l : list N) : list N := firstn cap (l ++ repeat fill cap).

Definition reply (v : variant) (i : impl) (a : addr) (len fill : N) : list N :=
  pad_fill (N.to_nat (as_mut_ptr_len i)) fill (firstn (N.to_nat len) (sent v i a)).

Definition read_back (v : variant) (i : impl) (a : addr) (len fill : N) : option addr :=
  init v i (reply v i a len fill) len.

(** * Correspondence driver *)
Inductive sacase :=
  (** convert [a], pass it to the kernel, read it back with the kernel's length (for a
      pathname also without the NUL) and with each of [extra] *)
  | CaseAddr (i : impl) (a : addr) (fill : N) (extra : list N)
  (** [init] on arbitrary storage contents ([as_mut_ptr] bytes) and length *)
  | CaseRaw (i : impl) (bytes : list N) (len : N).

Definition enc_bytes (l : list N) : list Z := nz (N.of_nat (length l)) :: map nz l.

Definition enc_addr (a : option addr) : list Z :=
  match a with
  | None => [(-1)%Z]
  | Some (V4 ip port) => 4%Z :: enc_bytes ip ++ [nz port]
  | Some (V6 ip port flow scope) => 6%Z :: enc_bytes ip ++ [nz port; nz flow; nz scope]
  | Some UnUnnamed => [0%Z]
  | Some (UnPath p) => 1%Z :: enc_bytes p
  | Some (UnAbstract n) => 2%Z :: enc_bytes n
  | Some NoAddr => [9%Z]
  end.

Definition run_sacase_v (v : variant) (c : sacase) : list Z :=
  match c with
  | CaseAddr i a fill extra =>
      let st := into_storage v i a in
      [nz (as_ptr_len v i st); nz (as_mut_ptr_len i)]
      ++ enc_bytes (sent v i a)
      ++ enc_addr (read_back v i a (kernel_len a) fill)
      ++ (match a with UnPath _ => enc_addr (read_back v i a (kernel_len a - 1) fill) | _ => [] end)
      ++ (match a with UnUnnamed => enc_addr (read_back v i a (kernel_len_recv a) fill) | _ => [] end)
      ++ flat_map (fun l => enc_addr (read_back v i a l fill)) extra
  | CaseRaw i bytes len => enc_addr (init v i bytes len)
  end.

(** The code before the repairs (refutation lemmas only). *)
Definition run_sacase : sacase -> list Z := run_sacase_v AsIs.
(** The model wired into the check: the code as it is in /repo. *)
Definition run_sacase_fixed : sacase -> list Z := run_sacase_v Fixed.

(** Model of the provided-buffer pool: src/io_uring/io.rs [ReadBufPool::{new, init_buffer,
    release}], src/io/read_buf.rs [ReadBuf] ([owned: Option<NonNull<[u8]>>], [release] and
    [Drop] through [Option::take]), the pool branches of [ReadOp/RecvOp::map_ok] and
    [MultishotReadOp/MultishotRecvOp::map_next], and what the operation state machine
    (src/io_uring/op.rs) does with completions carrying a buffer id when the future is gone.

    The pool has [n = 2^k] buffers of [size] bytes at offsets [i * size] from the start of the
    allocation (addresses are canonicalised to that offset). The ring shared with the kernel
    has [n] slots holding (address, length, buffer id); the user side publishes with a 16-bit
    tail, the kernel consumes with a private 16-bit head. Ghost fields [g_t], [g_h] count the
    entries ever published / consumed without wrapping.

    Every buffer id is, at any moment, in one of: offered (ring entries in [head, tail)), in
    transit (picked by the kernel for an operation whose completion has not been turned into a
    [ReadBuf] yet), owned by a live [ReadBuf], being released (between the entry write and the
    tail store of a [release] running on some thread), or lost.

    [release] is split at the scheduling points of hook B (lock of [reregister_lock]; the tail
    store) for the threads started by [Spawn]; the sequential events [Release]/[DropBuf] run
    the same pieces back to back. *)
From A10 Require Import Base.Word Base.Run.

(** * State *)
Record entry := { e_addr : N; e_len : N; e_bid : N }.
Definition no_entry : entry := {| e_addr := 0; e_len := 0; e_bid := 0 |}.

Inductive kind := Single | Multi.

(** A completion queued for an operation: a buffer was selected ([IORING_CQE_F_BUFFER],
    [bid], [res = len]), the read failed with [-ENOBUFS], or it returned 0 without a buffer. *)
Inductive cres := CBuf (bid len : N) | CErr | CEof.

(** The future/stream as the caller sees it. *)
Inductive ustate := UNone | ULive | UDropped | UDone.

Record op := {
  okind : kind;
  ocancel : bool;      (* an ASYNC_CANCEL that reaches the kernel while the request is in flight wins *)
  kalive : bool;       (* the request is in the kernel's in-flight table *)
  oqueue : list cres;  (* completions posted for it and not yet handed to the caller *)
  oust : ustate;
  ocancelq : bool;     (* a cancellation request is queued (submitted by the drop of the future) *)
  ofin : bool;         (* the final completion has been processed by [Ring::poll] *)
  oref : bool;         (* the operation state still holds its pool reference ([Arc]) *)
}.

Definition op0 : op :=
  {| okind := Single; ocancel := false; kalive := false; oqueue := []; oust := UNone;
     ocancelq := false; ofin := false; oref := false |}.

(** A place where the harness keeps a [ReadBuf]: none, or one with [owned = None] /
    [owned = Some (offset, len)]. *)
Inductive slot := SEmpty | SBuf (owned : option (N * N)).

(** Scheduling point a releasing thread is stopped at. *)
Inductive pc := PLock | PSpin | PStore | PDone.

Definition pc_code (p : pc) : Z :=
  match p with
  | PLock => 1     (* points::LOCK *)
  | PSpin => 2     (* points::LOCK_SPIN *)
  | PStore => 7    (* points::STORE_BUF_RING_TAIL *)
  | PDone => 0
  end.

Record thread := {
  tpc : pc;
  ttodo : list (bool * nat);  (* (drop?, slot) still to release; the head is the current one *)
  tptr : N; tbid : N; tlt : N (* locals of [release]: ptr (offset), buf_id, tail *)
}.

Record pool := {
  pn : N; psz : N;
  ring : N -> entry;
  tail : N;                 (* 16-bit, written by [release] *)
  khead : N;                (* 16-bit, private to the kernel *)
  handle : bool;            (* the harness still holds its [ReadBufPool] *)
  registered : bool;        (* the shared pool has not been dropped (unregistered and freed) *)
  ops : list op;
  bufs : list slot;
  holder : option nat;      (* who holds [reregister_lock] *)
  threads : list thread;
  lost : list N;            (* ids picked for an abandoned operation: never offered again *)
  (* ghost *)
  g_t : N; g_h : N;
}.

Definition upd {A} (l : list A) (i : nat) (x : A) : list A := firstn i l ++ x :: skipn (S i) l.

Definition iota (n : N) : list N := map N.of_nat (seq 0 (N.to_nat n)).

(** Slot update. The new content is tabulated so that long histories do not build a chain of
    closures; on slots below [n] it is the obvious function update. *)
Definition ring_set (n : N) (r : N -> entry) (idx : N) (e : entry) : N -> entry :=
  let l := map (fun j => if j =? idx then e else r j) (iota n) in
  fun j => nth (N.to_nat j) l no_entry.

(** ReadBufPool::new: entry i = (bufs_addr + i * buf_size, buf_size, i); tail := pool_size. *)
Definition init_ring (n sz : N) : N -> entry :=
  let l := map (fun i => {| e_addr := i * sz; e_len := sz; e_bid := i |}) (iota n) in
  fun j => nth (N.to_nat j) l no_entry.

Definition init (k sz : N) (nops nbufs : nat) : pool :=
  let n := 2 ^ k in
  {| pn := n; psz := sz; ring := init_ring n sz;
     tail := n; khead := 0; handle := true; registered := true;
     ops := repeat op0 nops; bufs := repeat SEmpty nbufs;
     holder := None; threads := []; lost := []; g_t := n; g_h := 0 |}.

(** ** Field updates *)
Definition set_ring (s : pool) (r : N -> entry) : pool :=
  {| pn := pn s; psz := psz s; ring := r; tail := tail s; khead := khead s; handle := handle s;
     registered := registered s; ops := ops s; bufs := bufs s; holder := holder s;
     threads := threads s; lost := lost s; g_t := g_t s; g_h := g_h s |}.
Definition set_tail (s : pool) (t gt : N) : pool :=
  {| pn := pn s; psz := psz s; ring := ring s; tail := t; khead := khead s; handle := handle s;
     registered := registered s; ops := ops s; bufs := bufs s; holder := holder s;
     threads := threads s; lost := lost s; g_t := gt; g_h := g_h s |}.
Definition set_khead (s : pool) (h gh : N) : pool :=
  {| pn := pn s; psz := psz s; ring := ring s; tail := tail s; khead := h; handle := handle s;
     registered := registered s; ops := ops s; bufs := bufs s; holder := holder s;
     threads := threads s; lost := lost s; g_t := g_t s; g_h := gh |}.
Definition set_handle (s : pool) (b : bool) : pool :=
  {| pn := pn s; psz := psz s; ring := ring s; tail := tail s; khead := khead s; handle := b;
     registered := registered s; ops := ops s; bufs := bufs s; holder := holder s;
     threads := threads s; lost := lost s; g_t := g_t s; g_h := g_h s |}.
Definition set_registered (s : pool) (b : bool) : pool :=
  {| pn := pn s; psz := psz s; ring := ring s; tail := tail s; khead := khead s; handle := handle s;
     registered := b; ops := ops s; bufs := bufs s; holder := holder s;
     threads := threads s; lost := lost s; g_t := g_t s; g_h := g_h s |}.
Definition set_ops (s : pool) (x : list op) : pool :=
  {| pn := pn s; psz := psz s; ring := ring s; tail := tail s; khead := khead s; handle := handle s;
     registered := registered s; ops := x; bufs := bufs s; holder := holder s;
     threads := threads s; lost := lost s; g_t := g_t s; g_h := g_h s |}.
Definition set_bufs (s : pool) (x : list slot) : pool :=
  {| pn := pn s; psz := psz s; ring := ring s; tail := tail s; khead := khead s; handle := handle s;
     registered := registered s; ops := ops s; bufs := x; holder := holder s;
     threads := threads s; lost := lost s; g_t := g_t s; g_h := g_h s |}.
Definition set_holder (s : pool) (x : option nat) : pool :=
  {| pn := pn s; psz := psz s; ring := ring s; tail := tail s; khead := khead s; handle := handle s;
     registered := registered s; ops := ops s; bufs := bufs s; holder := x;
     threads := threads s; lost := lost s; g_t := g_t s; g_h := g_h s |}.
Definition set_threads (s : pool) (x : list thread) : pool :=
  {| pn := pn s; psz := psz s; ring := ring s; tail := tail s; khead := khead s; handle := handle s;
     registered := registered s; ops := ops s; bufs := bufs s; holder := holder s;
     threads := x; lost := lost s; g_t := g_t s; g_h := g_h s |}.
Definition set_lost (s : pool) (x : list N) : pool :=
  {| pn := pn s; psz := psz s; ring := ring s; tail := tail s; khead := khead s; handle := handle s;
     registered := registered s; ops := ops s; bufs := bufs s; holder := holder s;
     threads := threads s; lost := x; g_t := g_t s; g_h := g_h s |}.

Definition set_op (s : pool) (o : nat) (x : op) : pool := set_ops s (upd (ops s) o x).
Definition set_buf (s : pool) (b : nat) (x : slot) : pool := set_bufs s (upd (bufs s) b x).
Definition set_thread (s : pool) (i : nat) (t : thread) : pool := set_threads s (upd (threads s) i t).

Definition with_k (x : op) (ka : bool) (q : list cres) : op :=
  {| okind := okind x; ocancel := ocancel x; kalive := ka; oqueue := q; oust := oust x;
     ocancelq := ocancelq x; ofin := ofin x; oref := oref x |}.
Definition with_u (x : op) (q : list cres) (u : ustate) (r : bool) : op :=
  {| okind := okind x; ocancel := ocancel x; kalive := kalive x; oqueue := q; oust := u;
     ocancelq := ocancelq x; ofin := ofin x; oref := r |}.

Definition is_multi (k : kind) : bool := match k with Multi => true | Single => false end.

(** * [ReadBufPool::release] *)

(** [((ptr - bufs_addr) as usize / buf_size as usize) as u16] *)
Definition rel_id (sz off : N) : N := trunc16 (off / sz).

Definition rel_entry (sz off : N) : entry :=
  {| e_addr := off; e_len := sz; e_bid := rel_id sz off |}.

(** Under the lock: [tail = ring_tail.load()], the fields [addr], [len], [bid] of the entry at
    [tail & tail_mask] are written one by one. The fourth field, [resv], is left alone: for slot
    0 it is the ring tail itself (the tail lives in the last two bytes of the first entry). *)
Definition rel_write (s : pool) (off lt : N) : pool :=
  set_ring s (ring_set (pn s) (ring s) (N.land lt (pn s - 1)) (rel_entry (psz s) off)).

(** The code before the repair of H26 wrote a whole [io_uring_buf { addr, len, bid, resv: 0 }]:
    a write to slot 0 left 0 in the published tail until the tail store that follows. *)
Definition rel_write_h26 (s : pool) (off lt : N) : pool :=
  let s1 := rel_write s off lt in
  if N.land lt (pn s - 1) =? 0 then set_tail s1 0 (g_t s1) else s1.

(** [ring_tail.store(tail.wrapping_add(1))] *)
Definition rel_store (s : pool) (lt : N) : pool := set_tail s (wadd16 lt 1) (g_t s + 1).

Definition release_now_with (rw : pool -> N -> N -> pool) (s : pool) (off : N) : pool :=
  let lt := tail s in rel_store (rw s off lt) lt.
Definition release_now := release_now_with rel_write.

(** * Events *)
Inductive bev :=
  | Start (o : nat) (k : kind) (c : bool)  (* new read/recv (k = Single) or multishot_read/recv on the
                                              pool, polled once and consumed by the kernel *)
  | KPick (o : nat) (len : N)    (* the kernel selects the buffer at its head for request [o], stores
                                    [min len entry.len] bytes and posts the completion; -ENOBUFS when
                                    nothing is offered *)
  | KEof (o : nat)               (* the request ends with result 0 and no buffer *)
  | RingPoll                     (* Ring::poll until nothing is left to submit or process *)
  | Deliver (o : nat) (b : nat)  (* Ring::poll, then the future/stream is polled; a ReadBuf goes to slot b *)
  | DropOp (o : nat)             (* the future/stream is dropped *)
  | Edit (b : nat) (newlen : N)  (* truncate / extend within the capacity *)
  | Release (b : nat)            (* ReadBuf::release *)
  | DropBuf (b : nat)            (* drop of the ReadBuf *)
  | PoolDrop                     (* the harness drops its ReadBufPool *)
  | Spawn (progs : list (list (bool * nat)))  (* threads releasing (false) / dropping (true) ReadBufs *)
  | T (i : nat)                  (* thread i runs from its scheduling point to the next *)
  | Join.

Inductive ev := E (e : bev) | Rep (k : N) (body : list bev).

(** [Ring::poll] to quiescence: queued cancellations reach the kernel (and win when the target
    is still in flight and cancellable), every posted completion is processed; the state of a
    dropped operation is freed with its final completion. *)
Definition settle_op (x : op) : op :=
  let ka := kalive x && negb (ocancelq x && ocancel x) in
  let fin := ofin x || negb ka in
  {| okind := okind x; ocancel := ocancel x; kalive := ka; oqueue := oqueue x; oust := oust x;
     ocancelq := false; ofin := fin;
     oref := match oust x with UDropped => oref x && negb fin | _ => oref x end |}.

Definition settle (s : pool) : pool := set_ops s (map settle_op (ops s)).

Definition op_free (x : op) : bool :=
  negb (kalive x) && negb (oref x)
  && match oust x with ULive => false | _ => true end
  && match oqueue x with [] => true | _ => false end.

Definition cbufs (q : list cres) : list N :=
  flat_map (fun c => match c with CBuf b _ => [b] | _ => [] end) q.

Definition finish_item (s : pool) (i : nat) (t : thread) (d : bool) (b : nat) (rest : list (bool * nat)) : pool :=
  let s' := if d then match nth_error (bufs s) b with
                      | Some (SBuf None) => set_buf s b SEmpty
                      | _ => s end
            else s in
  set_thread s' i {| tpc := match rest with [] => PDone | _ => PLock end; ttodo := rest;
                     tptr := tptr t; tbid := tbid t; tlt := tlt t |}.

Definition with_pc (t : thread) (p : pc) : thread :=
  {| tpc := p; ttodo := ttodo t; tptr := tptr t; tbid := tbid t; tlt := tlt t |}.

Definition mk_thread (p : list (bool * nat)) : thread :=
  {| tpc := match p with [] => PDone | _ => PLock end; ttodo := p; tptr := 0; tbid := 0; tlt := 0 |}.

Definition thread_done (t : thread) : bool := match tpc t with PDone => true | _ => false end.

Definition enobufs : Z := (-105)%Z.

(** [rw] is the entry write of [release] (a parameter only so that the code before the repair of
    H26 can be stated). *)
Definition step_reg_with (rw : pool -> N -> N -> pool) (s : pool) (e : bev) : pool * list Z :=
  match e with
  | Start o k c =>
      match nth_error (ops s) o with
      | Some x =>
          if handle s && op_free x then
            (set_op (settle s) o
               {| okind := k; ocancel := c; kalive := true; oqueue := []; oust := ULive;
                  ocancelq := false; ofin := false; oref := true |}, [1%Z])
          else (s, [0%Z])
      | None => (s, [0%Z])
      end
  | KPick o len =>
      match nth_error (ops s) o with
      | Some x =>
          if kalive x then
            if khead s =? tail s then
              (set_op s o (with_k x false (match oust x with ULive => oqueue x ++ [CErr] | _ => oqueue x end)),
               [enobufs])
            else
              let e := ring s (N.land (khead s) (pn s - 1)) in
              let l := N.min len (e_len e) in
              let s1 := set_khead s (wadd16 (khead s) 1) (g_h s + 1) in
              let o_ := [nz (e_bid e); nz (e_addr e); nz l] in
              match oust x with
              | ULive => (set_op s1 o (with_k x (is_multi (okind x)) (oqueue x ++ [CBuf (e_bid e) l])), o_)
              | _ => (set_lost (set_op s1 o (with_k x (is_multi (okind x)) (oqueue x))) (lost s ++ [e_bid e]), o_)
              end
          else (s, [(-9)%Z])
      | None => (s, [(-9)%Z])
      end
  | KEof o =>
      match nth_error (ops s) o with
      | Some x =>
          if kalive x then
            (set_op s o (with_k x false (match oust x with ULive => oqueue x ++ [CEof] | _ => oqueue x end)), [0%Z])
          else (s, [(-9)%Z])
      | None => (s, [(-9)%Z])
      end
  | RingPoll => (settle s, [])
  | Deliver o b =>
      let s1 := settle s in
      match nth_error (ops s1) o with
      | Some x =>
          match oust x with
          | ULive =>
              match oqueue x with
              | [] =>
                  if is_multi (okind x) && negb (kalive x)
                  then (set_op s1 o (with_u x [] UDone false), [13%Z])   (* end of the stream *)
                  else (s1, [10%Z])                                        (* Pending *)
              | c :: r =>
                  let x' := match okind x with
                            | Single => with_u x r UDone false
                            | Multi => with_u x r ULive (oref x)
                            end in
                  match c with
                  | CErr => (set_op s1 o x', [12%Z; enobufs])
                  | CBuf bid l =>
                      match nth_error (bufs s1) b with
                      | Some SEmpty =>
                          (* init_buffer: bufs_addr + id * buf_size, length n *)
                          (set_buf (set_op s1 o x') b (SBuf (Some (bid * psz s, l))),
                           [11%Z; nz (bid * psz s); nz l])
                      | _ => (s1, [19%Z])
                      end
                  | CEof =>
                      match nth_error (bufs s1) b with
                      | Some SEmpty => (set_buf (set_op s1 o x') b (SBuf None), [11%Z; (-1)%Z; 0%Z])
                      | _ => (s1, [19%Z])
                      end
                  end
              end
          | _ => (s1, [18%Z])
          end
      | None => (s1, [18%Z])
      end
  | DropOp o =>
      match nth_error (ops s) o with
      | Some x =>
          match oust x with
          | ULive =>
              (* Running: the state is marked Dropped and later completions are ignored; Done: the
                 state (with the queued results) is freed at once. Either way the buffer ids of the
                 queued results are not given back. *)
              (set_lost (set_op s o {| okind := okind x; ocancel := ocancel x; kalive := kalive x;
                                       oqueue := []; oust := UDropped; ocancelq := true;
                                       ofin := ofin x; oref := oref x && negb (ofin x) |})
                        (lost s ++ cbufs (oqueue x)), [1%Z])
          | _ => (s, [0%Z])
          end
      | None => (s, [0%Z])
      end
  | Edit b nl =>
      match nth_error (bufs s) b with
      | Some (SBuf (Some (off, len))) =>
          if nl <=? psz s then (set_buf s b (SBuf (Some (off, nl))), [nz off; nz nl])
          else (s, [(-8)%Z])
      | Some (SBuf None) => (s, [(-1)%Z; 0%Z])
      | _ => (s, [(-9)%Z])
      end
  | Release b =>
      match nth_error (bufs s) b with
      | Some (SBuf (Some (off, _))) =>
          match holder s with
          | None => (release_now_with rw (set_buf s b (SBuf None)) off, [1%Z])   (* owned.take() *)
          | Some _ => (s, [(-7)%Z])
          end
      | Some (SBuf None) => (s, [0%Z])
      | _ => (s, [(-9)%Z])
      end
  | DropBuf b =>
      match nth_error (bufs s) b with
      | Some (SBuf (Some (off, _))) =>
          match holder s with
          | None => (release_now_with rw (set_buf s b SEmpty) off, [1%Z])
          | Some _ => (s, [(-7)%Z])
          end
      | Some (SBuf None) => (set_buf s b SEmpty, [0%Z])
      | _ => (s, [(-9)%Z])
      end
  | PoolDrop => (set_handle s false, [])
  | Spawn progs =>
      match threads s with
      | [] => (set_threads s (map mk_thread progs), [1%Z])
      | _ => (s, [0%Z])
      end
  | T i =>
      match nth_error (threads s) i with
      | None => (s, [(-9)%Z])
      | Some t =>
          let code := pc_code (tpc t) in
          match tpc t with
          | PDone => (s, [code])
          | PLock | PSpin =>
              match ttodo t with
              | [] => (set_thread s i (with_pc t PDone), [code])
              | (d, b) :: rest =>
                  match nth_error (bufs s) b with
                  | Some (SBuf (Some (off, _))) =>
                      match holder s with
                      | None =>
                          (* owned.take(); id from the pointer; lock; load tail; write the entry *)
                          let lt := tail s in
                          let s1 := set_holder (set_buf s b (SBuf None)) (Some i) in
                          let s2 := rw s1 off lt in
                          (set_thread s2 i {| tpc := PStore; ttodo := ttodo t; tptr := off;
                                              tbid := rel_id (psz s) off; tlt := lt |}, [code])
                      | Some _ => (set_thread s i (with_pc t PSpin), [code])
                      end
                  | _ => (finish_item s i t d b rest, [code])
                  end
              end
          | PStore =>
              (* tail store, unlock; a dropped ReadBuf is gone *)
              let s1 := set_holder (rel_store s (tlt t)) None in
              match ttodo t with
              | (d, b) :: rest => (finish_item s1 i t d b rest, [code])
              | [] => (set_thread s1 i (with_pc t PDone), [code])
              end
          end
      end
  | Join =>
      if forallb thread_done (threads s) then (set_threads s [], [])
      else (s, [(-7)%Z])
  end.

Definition step_reg := step_reg_with rel_write.

(** The shared pool is alive while the harness handle, a [ReadBuf] or an operation state
    refers to it; the last reference unregisters the ring and frees the memory. *)
Definition slot_used (x : slot) : bool := match x with SEmpty => false | SBuf _ => true end.
Definition refs (s : pool) : bool :=
  handle s || existsb slot_used (bufs s) || existsb oref (ops s).

Definition step_with (rw : pool -> N -> N -> pool) (s : pool) (e : bev) : pool * list Z :=
  if registered s then
    let '(s', o) := step_reg_with rw s e in (set_registered s' (refs s'), o)
  else (s, [(-3)%Z]).

Definition step := step_with rel_write.
(** The code before the repair of H26. *)
Definition step_h26 := step_with rel_write_h26.

(** * Observation *)

(** The entries the kernel sees between its head and the published tail (16-bit arithmetic),
    as the simulator's [pbuf_available] reads them. *)
Fixpoint window_from (fuel : nat) (s : pool) (h : N) : list entry :=
  match fuel with
  | O => []
  | S f => if h =? tail s then []
           else ring s (N.land h (pn s - 1)) :: window_from f s (wadd16 h 1)
  end.
Definition window (s : pool) : list entry := window_from (S (N.to_nat (pn s))) s (khead s).

Fixpoint insert_sorted (x : N) (l : list N) : list N :=
  match l with
  | [] => [x]
  | y :: r => if x <=? y then x :: l else y :: insert_sorted x r
  end.
Definition sort_n (l : list N) : list N := fold_right insert_sorted [] l.

Fixpoint bufs_obs (i : Z) (l : list slot) : list Z :=
  match l with
  | [] => []
  | x :: r =>
      match x with
      | SEmpty => []
      | SBuf None => [i; (-1)%Z; 0%Z]
      | SBuf (Some (off, len)) => [i; nz off; nz len]
      end ++ bufs_obs (i + 1)%Z r
  end.

Definition snapshot (s : pool) : list Z :=
  if registered s then
    [(-1)%Z] ++ map nz (sort_n (map e_bid (window s)))
    ++ [(-2)%Z] ++ flat_map (fun e => [nz (e_bid e); nz (e_addr e); nz (e_len e)]) (window s)
    ++ [(-4)%Z] ++ bufs_obs 0%Z (bufs s)
  else [(-3)%Z].

Definition par (s : pool) : bool := match threads s with [] => false | _ => true end.

(** One event and what is observed after it (nothing can be looked at while threads run). *)
Definition step_obs (s : pool) (e : bev) : pool * list Z :=
  let '(s', o) := step s e in (s', o ++ if par s' then [] else snapshot s').

Definition digest (h : Z) (o : list Z) : Z :=
  fold_left (fun h x => Z.land (Z.shiftl h 5 + h + x + 7) 1073741823)%Z o h.

(** A repeated block: every event's own observation and, once per round, the snapshot are
    folded into a checksum (a list of all of them would be too long to write down). *)
Fixpoint run_body (s : pool) (h : Z) (es : list bev) : pool * Z :=
  match es with
  | [] => (s, if par s then h else digest h (snapshot s))
  | e :: r => let '(s', o) := step s e in run_body s' (digest h o) r
  end.

Definition exec_ev (s : pool) (e : ev) : pool * list Z :=
  match e with
  | E b => step_obs s b
  | Rep k body =>
      let '(s', h) := N.iter k (fun sh => run_body (fst sh) (snd sh) body) (s, 0%Z) in
      (s', [(-50)%Z; h] ++ snapshot s')
  end.

(** * Correspondence driver *)
Record bpcase := {
  bp_k : N;            (* pool_size = 2^k *)
  bp_size : N;         (* buf_size *)
  bp_nops : nat; bp_nbufs : nat;
  bp_events : list ev;
}.

Definition run_bpcase (c : bpcase) : list Z :=
  let s0 := init (bp_k c) (bp_size c) (bp_nops c) (bp_nbufs c) in
  snapshot s0 ++ snd (run exec_ev s0 (bp_events c)).

(** Model of the operation life cycle: src/io_uring/op.rs ([State], [Shared::update],
    [poll_inner], [State::drop]), the dispatch in src/io_uring/cq.rs, and the submission /
    wake-blocked bookkeeping of src/io_uring/{sq,mod}.rs, for any number of operations sharing
    one ring, against a kernel obeying K1, K2 and K4 of DESIGN.md §5.

    The rings themselves are abstracted to FIFO lists here (their 32-bit mechanics are C04 and
    C05): [sq] is the submission queue with [cap] slots, [cq] the completions published and not
    yet processed. One model step is one call of the public API ([Poll], [DropOp], [RingPoll])
    or one kernel action ([KPost]); the per-operation mutex makes the API calls atomic with
    respect to completion processing. Executable definitions only.

    Fields named [g_…] are GHOST history bookkeeping (ledgers used to state C02/C03): no
    executable field, no observation and no branch ever reads them, so [run_opcase] does not
    depend on them. *)
From A10 Require Import Base.Word Base.Run.

Definition EINTR : Z := 4.
Definition ECANCELED : Z := 125.
Definition ENOENT : Z := 2.
Definition EALREADY : Z := 114.

Inductive kind := Single | Multi.

(** A completion as the kernel posts it for an operation: result and the two flag bits the
    state machine looks at (IORING_CQE_F_MORE, IORING_CQE_F_NOTIF). *)
Record cqe := { res : Z; more : bool; notif : bool }.
Definition default_cqe : cqe := {| res := 0; more := false; notif := false |}.

Inductive status :=
  | NotStarted
  | Running (rs : list cqe)
  | Done (rs : list cqe)
  | Dropped
  | Complete.

(** Submission queue entries (abstract). *)
Inductive sqe := Submit (i : nat) | Cancel (i : nat).

(** Observations. *)
Inductive obs :=
  | OPending | OReady (v : Z) | OErr (e : Z) | OEnd | OPanic
  | OConsumed (s : sqe) | OWake (w : N) | OFree (i : nat) | OFreeRes (i : nat).

Record op := {
  kd : kind;
  st : status;
  waker : option N;
  freed : bool;        (* the boxed state has been deallocated *)
  res_live : bool;     (* the resources (buffers, …) are still owned by the state *)
  attempts : N;        (* submissions made for it so far *)
  cancelable : bool;   (* kernel side: an ASYNC_CANCEL for it wins *)
  (* ghost *)
  g_in : list cqe;     (* completions [update] accepted for it in the current attempt, in order *)
  g_out : list obs;    (* OReady/OErr/OEnd its [poll] handed out in the current attempt, in order *)
  g_recv : list cqe;   (* every completion [update] ever accepted for it, in order *)
  g_lastw : option N;  (* waker of the most recent poll that returned Pending by registering it,
                          unless a readying completion has been processed since *)
}.

Record sys := {
  ops : list op;
  cap : N;                     (* submission queue slots *)
  sq : list sqe;               (* queued, not yet consumed by the kernel *)
  inflight : list nat;         (* consumed, final completion not yet posted *)
  cq : list (option nat * cqe);(* posted, not yet processed; [None] = bookkeeping entry *)
  blocked : list N;            (* wakers waiting for a submission slot *)
  (* ghost *)
  g_posted : list (nat * cqe); (* every operation completion ever appended to [cq], in order *)
  g_disp : list (nat * cqe);   (* every (operation, completion) [process] handed to [update], in order *)
}.

Definition new_op (k : kind) (c : bool) : op :=
  {| kd := k; st := NotStarted; waker := None; freed := false; res_live := true;
     attempts := 0; cancelable := c; g_in := []; g_out := []; g_recv := []; g_lastw := None |}.

Definition init (cap0 : N) (kinds : list (kind * bool)) : sys :=
  {| ops := map (fun '(k, c) => new_op k c) kinds; cap := cap0; sq := []; inflight := [];
     cq := []; blocked := []; g_posted := []; g_disp := [] |}.

Definition set_op (s : sys) (i : nat) (o : op) : sys :=
  {| ops := firstn i (ops s) ++ o :: skipn (S i) (ops s);
     cap := cap s; sq := sq s; inflight := inflight s; cq := cq s; blocked := blocked s;
     g_posted := g_posted s; g_disp := g_disp s |}.

Definition with_st (o : op) (x : status) : op :=
  {| kd := kd o; st := x; waker := waker o; freed := freed o; res_live := res_live o;
     attempts := attempts o; cancelable := cancelable o;
     g_in := g_in o; g_out := g_out o; g_recv := g_recv o; g_lastw := g_lastw o |}.
Definition with_waker (o : op) (w : option N) : op :=
  {| kd := kd o; st := st o; waker := w; freed := freed o; res_live := res_live o;
     attempts := attempts o; cancelable := cancelable o;
     g_in := g_in o; g_out := g_out o; g_recv := g_recv o; g_lastw := g_lastw o |}.
(** Ghost only: replace the ledgers. *)
Definition with_ghost (o : op) (gi : list cqe) (go : list obs) (gr : list cqe) (gl : option N) : op :=
  {| kd := kd o; st := st o; waker := waker o; freed := freed o; res_live := res_live o;
     attempts := attempts o; cancelable := cancelable o;
     g_in := gi; g_out := go; g_recv := gr; g_lastw := gl |}.
(** Ghost: [poll] hands [x] out / registers waker [w] and returns Pending / a new attempt begins /
    [update] accepts completion [c]. *)
Definition hand_out (o : op) (x : obs) : op :=
  with_ghost o (g_in o) (g_out o ++ [x]) (g_recv o) (g_lastw o).
Definition registered (o : op) (w : N) : op :=
  with_ghost o (g_in o) (g_out o) (g_recv o) (Some w).
Definition new_attempt (o : op) : op := with_ghost o [] [] (g_recv o) (g_lastw o).
(** A completion that makes the future ready: the final one, or any one of a multishot. *)
Definition readying (k : kind) (c : cqe) : bool :=
  negb (more c) || match k with Multi => true | Single => false end.
Definition accepted (o : op) (c : cqe) (clear : bool) : op :=
  with_ghost o (g_in o ++ [c]) (g_out o) (g_recv o ++ [c]) (if clear then None else g_lastw o).

Definition has_room (s : sys) : bool := N.of_nat (length (sq s)) <? cap s.

Definition push_sq (s : sys) (e : sqe) : sys :=
  {| ops := ops s; cap := cap s; sq := sq s ++ [e]; inflight := inflight s; cq := cq s;
     blocked := blocked s; g_posted := g_posted s; g_disp := g_disp s |}.
Definition push_blocked (s : sys) (w : N) : sys :=
  {| ops := ops s; cap := cap s; sq := sq s; inflight := inflight s; cq := cq s;
     blocked := blocked s ++ [w]; g_posted := g_posted s; g_disp := g_disp s |}.

Definition is_restart (c : cqe) : bool := (res c =? - EINTR)%Z || (res c =? - ECANCELED)%Z.

(** [poll_inner], status [NotStarted]: submit, or park on the blocked list when the queue is full. *)
Definition poll_start (s : sys) (i : nat) (o : op) (w : N) : sys * list obs :=
  if has_room s then
    let o' := {| kd := kd o;
                 st := Running (match kd o with Single => [default_cqe] | Multi => [] end);
                 waker := Some w; freed := freed o; res_live := res_live o;
                 attempts := attempts o + 1; cancelable := cancelable o;
                 g_in := []; g_out := []; g_recv := g_recv o; g_lastw := Some w |} in
    (push_sq (set_op s i o') (Submit i), [OPending])
  else (push_blocked (set_op s i o) w, [OPending]).

(** Taking the resources out of the state (single-shot result / fallback) or dropping them
    (end of a multishot stream). *)
Definition take_res (o : op) : op :=
  {| kd := kd o; st := st o; waker := waker o; freed := freed o; res_live := false;
     attempts := attempts o; cancelable := cancelable o;
     g_in := g_in o; g_out := g_out o; g_recv := g_recv o; g_lastw := g_lastw o |}.

Definition poll (s : sys) (i : nat) (w : N) : sys * list obs :=
  match nth_error (ops s) i with
  | None => (s, [OPanic])
  | Some o =>
    match st o with
    | NotStarted => poll_start s i o w
    | Running rs =>
        match kd o, rs with
        | Multi, c :: rs' =>
            let x := if (res c <? 0)%Z then OErr (res c) else OReady (res c) in
            (set_op s i (hand_out (with_st o (Running rs')) x), [x])
        | _, _ => (set_op s i (registered (with_waker o (Some w)) w), [OPending])
        end
    | Done rs =>
        match kd o, rs with
        | Multi, [] =>
            (set_op s i (hand_out (take_res (with_st o Complete)) OEnd), [OEnd; OFreeRes i])
        | Single, [] => (s, [OPanic])
        | Single, c :: _ =>
            if (0 <=? res c)%Z then
              (set_op s i (hand_out (take_res (with_st o Complete)) (OReady (res c))), [OReady (res c)])
            else if is_restart c then poll_start s i (new_attempt (with_st o NotStarted)) w
            else (set_op s i (hand_out (take_res (with_st o Complete)) (OErr (res c))), [OErr (res c)])
        | Multi, c :: rs' =>
            if (0 <=? res c)%Z then
              (set_op s i (hand_out (with_st o (Done rs')) (OReady (res c))), [OReady (res c)])
            else if is_restart c then
              match rs' with
              | [] => poll_start s i (new_attempt (with_st o NotStarted)) w
              | _ => (set_op s i (with_st o (Done rs')), [OPanic])
              end
            else (set_op s i (hand_out (with_st o (Done rs')) (OErr (res c))), [OErr (res c)])
        end
    | Dropped => (s, [OPanic])
    | Complete => (s, [OPanic])
    end
  end.

(** The boxed state is deallocated (resources dropped with it). *)
Definition free_op (o : op) : op :=
  {| kd := kd o; st := st o; waker := waker o; freed := true; res_live := false;
     attempts := attempts o; cancelable := cancelable o;
     g_in := g_in o; g_out := g_out o; g_recv := g_recv o; g_lastw := g_lastw o |}.

(** [State::drop]. *)
Definition drop_op (s : sys) (i : nat) : sys * list obs :=
  match nth_error (ops s) i with
  | None => (s, [])
  | Some o =>
    match st o with
    | Running _ =>
        let s1 := if has_room s then push_sq s (Cancel i) else s in
        (set_op s1 i (with_st o Dropped), [])
    | Dropped => (s, [OPanic])
    | _ =>
        (set_op s i (free_op o),
         (if res_live o then [OFreeRes i] else []) ++ (if 0 <? attempts o then [OFree i] else []))
    end
  end.

(** [Shared::update] + what [Completion::process] does with its answer. *)
Definition update (s : sys) (i : nat) (c : cqe) : sys * list obs :=
  match nth_error (ops s) i with
  | None => (s, [OPanic])
  | Some o =>
    match st o with
    | Running rs | Done rs =>
        let rs' := match kd o with
                   | Single => if notif c then rs else [c]
                   | Multi => rs ++ [c]
                   end in
        let done := negb (more c) in
        let st' := if done then Done rs'
                   else match st o with Done _ => Done rs' | _ => Running rs' end in
        let multi := match kd o with Multi => true | Single => false end in
        let o1 := accepted o c (readying (kd o) c) in
        if done || multi then
          match waker o with
          | Some w => (set_op s i (with_waker (with_st o1 st') None), [OWake w])
          | None => (set_op s i (with_st o1 st'), [])
          end
        else (set_op s i (with_st o1 st'), [])
    | Dropped =>
        if more c then (set_op s i (accepted o c false), [])
        else
          (set_op s i (free_op (accepted o c false)),
           (if res_live o then [OFreeRes i] else []) ++ [OFree i])
    | NotStarted | Complete => (s, [OPanic])
    end
  end.

Definition post (s : sys) (e : option nat * cqe) : sys :=
  {| ops := ops s; cap := cap s; sq := sq s; inflight := inflight s; cq := cq s ++ [e];
     blocked := blocked s;
     g_posted := g_posted s ++ match fst e with Some i => [(i, snd e)] | None => [] end;
     g_disp := g_disp s |}.

Fixpoint remove_first (i : nat) (l : list nat) : list nat :=
  match l with
  | [] => []
  | j :: r => if Nat.eqb i j then r else j :: remove_first i r
  end.

Definition set_inflight (s : sys) (l : list nat) : sys :=
  {| ops := ops s; cap := cap s; sq := sq s; inflight := l; cq := cq s; blocked := blocked s;
     g_posted := g_posted s; g_disp := g_disp s |}.

(** The kernel consumes one submission (K1, K4). *)
Definition kconsume (s : sys) (e : sqe) : sys :=
  match e with
  | Submit i => set_inflight s (inflight s ++ [i])
  | Cancel i =>
      if existsb (Nat.eqb i) (inflight s) then
        match nth_error (ops s) i with
        | Some o =>
            if cancelable o then
              post (set_inflight s (remove_first i (inflight s)))
                   (Some i, {| res := - ECANCELED; more := false; notif := false |})
            else post s (None, {| res := - EALREADY; more := false; notif := false |})
        | None => s
        end
      else post s (None, {| res := - ENOENT; more := false; notif := false |})
  end.

Definition set_sq (s : sys) (q : list sqe) : sys :=
  {| ops := ops s; cap := cap s; sq := q; inflight := inflight s; cq := cq s; blocked := blocked s;
     g_posted := g_posted s; g_disp := g_disp s |}.
Definition take_sq (s : sys) : sys := set_sq s [].

(** [wake_blocked_futures] after a successful [enter]: with the whole queue just consumed every
    slot is available. *)
Definition wake_blocked (s : sys) : sys * list obs :=
  let avail := N.to_nat (cap s - N.of_nat (length (sq s))) in
  let ws := firstn avail (blocked s) in
  ({| ops := ops s; cap := cap s; sq := sq s; inflight := inflight s; cq := cq s;
      blocked := skipn avail (blocked s); g_posted := g_posted s; g_disp := g_disp s |},
   map OWake ws).

(** [Completions::poll] pops the first published completion; operation completions are
    recorded in the dispatch ledger. *)
Definition pop_cq (s : sys) (t : option nat) (c : cqe) (r : list (option nat * cqe)) : sys :=
  {| ops := ops s; cap := cap s; sq := sq s; inflight := inflight s; cq := r;
     blocked := blocked s; g_posted := g_posted s;
     g_disp := g_disp s ++ match t with Some i => [(i, c)] | None => [] end |}.

Fixpoint process (fuel : nat) (s : sys) : sys * list obs :=
  match fuel with
  | O => (s, [])
  | S f =>
      match cq s with
      | [] => (s, [])
      | (t, c) :: r =>
          let s0 := pop_cq s t c r in
          match t with
          | None => process f s0
          | Some i =>
              let '(s1, o1) := update s0 i c in
              let '(s2, o2) := process f s1 in (s2, o1 ++ o2)
          end
      end
  end.

(** [Ring::poll] with a zero timeout: enter the kernel only when no completion is pending. *)
Definition ring_poll (s : sys) : sys * list obs :=
  let '(s1, o1) :=
    match cq s with
    | [] =>
        let queued := sq s in
        let s' := fold_left kconsume queued (take_sq s) in
        let consumed := map OConsumed queued in
        (* enter reports success when it submitted something or a completion is there *)
        if negb (Nat.eqb (length queued) 0) || negb (Nat.eqb (length (cq s')) 0) then
          let '(s'', ow) := wake_blocked s' in (s'', consumed ++ ow)
        else (s', consumed)
    | _ => (s, [])
    end in
  let '(s2, o2) := process (length (cq s1)) s1 in
  (s2, o1 ++ o2).

(** The kernel posts a completion for in-flight operation [i] (K2): ignored unless [i] is in flight. *)
Definition kpost (s : sys) (i : nat) (c : cqe) : sys :=
  if existsb (Nat.eqb i) (inflight s) then
    post (if more c then s else set_inflight s (remove_first i (inflight s))) (Some i, c)
  else s.

Inductive ev :=
  | Poll (i : nat) (w : N)
  | DropOp (i : nat)
  | RingPoll
  | KPost (i : nat) (c : cqe).

Definition step (s : sys) (e : ev) : sys * list obs :=
  match e with
  | Poll i w => poll s i w
  | DropOp i => drop_op s i
  | RingPoll => ring_poll s
  | KPost i c => (kpost s i c, [])
  end.

(** * Correspondence driver: observations flattened to integers, one marker per event. *)
Definition obs_z (o : obs) : list Z :=
  match o with
  | OPending => [10]
  | OReady v => [11; v]
  | OErr e => [12; e]
  | OEnd => [13]
  | OPanic => [14]
  | OConsumed (Submit i) => [20; Z.of_nat i]
  | OConsumed (Cancel i) => [21; Z.of_nat i]
  | OWake w => [30; nz w]
  | OFree i => [40; Z.of_nat i]
  | OFreeRes _ => []   (* resource blocks are checked by the tracking allocator, not diffed *)
  end%Z.

(** Within one event the harness sees three separate logs (kernel, wakers, allocator), so the
    observations of an event are grouped: results, consumed submissions, wake-ups, frees. *)
Definition is_kernel (o : obs) : bool := match o with OConsumed _ => true | _ => false end.
Definition is_wake (o : obs) : bool := match o with OWake _ => true | _ => false end.
Definition is_free (o : obs) : bool := match o with OFree _ | OFreeRes _ => true | _ => false end.
Definition is_result (o : obs) : bool := negb (is_kernel o || is_wake o || is_free o).
Definition grouped (o : list obs) : list obs :=
  filter is_result o ++ filter is_kernel o ++ filter is_wake o ++ filter is_free o.

Fixpoint run_obs (s : sys) (es : list ev) : list Z :=
  match es with
  | [] => []
  | e :: r => let '(s1, o) := step s e in (1 :: flat_map obs_z (grouped o))%Z ++ run_obs s1 r
  end.

Record opcase := { oc_cap : N; oc_ops : list (kind * bool); oc_events : list ev }.
Definition run_opcase (c : opcase) : list Z := run_obs (init (oc_cap c) (oc_ops c)) (oc_events c).

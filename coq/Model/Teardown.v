(** Model of tearing a ring down in any order (C12): [Drop for Ring] (src/lib.rs) =
    [Completions::drop] + [Drop for Completions] (src/io_uring/cq.rs), [Drop for Shared]
    (src/io_uring/mod.rs) reached through the [Arc<Shared>] inside every [Submissions] clone,
    [Drop for AsyncFd] (src/io_uring/fd.rs), [State::drop] and the completion dispatch
    (src/io_uring/op.rs, cq.rs), [Drop for ReadBufPool] and [ReadBuf::release]
    (src/io_uring/io.rs, src/io/read_buf.rs).

    Objects: the [Ring], [SubmissionQueue] clones, [AsyncFd]s, operations (futures that borrow an
    [AsyncFd] or own a [SubmissionQueue]), [ReadBufPool] handles and the [ReadBuf]s taken from
    them. Who holds which reference count is read off the structs:
      - [Arc<Shared>] (field [shared] of [Submissions]): the [Ring] ([Ring.sq]), every
        [SubmissionQueue] clone, every [AsyncFd] ([AsyncFd.sq]), every operation future created from
        a [SubmissionQueue] (field [sq] of the future; futures on an [AsyncFd] hold [&AsyncFd]), every
        pool ([sys::io::ReadBufPool.sq], alive as long as its [Arc] is);
      - [Arc<sys::io::ReadBufPool>]: the [ReadBufPool] handle and every [ReadBuf].
    The counters are stored and decremented as the code does; that they equal the number of live
    holders is an invariant proved in Proofs/TeardownProofs.v, not a definition.

    Resources: the ring descriptor and the three mappings (completion ring: [Completions], i.e. the
    [Ring]; submission ring and entries: [Shared]), per pool one registration and two allocations,
    per operation its boxed state, per [AsyncFd] its kernel descriptor.

    The kernel is the contract K1-K4 of DESIGN.md §5 as the simulated kernel implements it:
    submissions are consumed in order on [enter]; CLOSE executes at once; ASYNC_CANCEL removes
    its target from the in-flight table and posts the target's final completion (its own
    completion is skipped on success, posted with ENOENT / EALREADY otherwise);
    REGISTER_SYNC_CANCEL(ANY|ALL) does the same for everything in flight that can be cancelled; a
    completion goes into the ring when there is room and nothing waits on the overflow list, else
    onto that list; every [enter] moves entries from the overflow list into free slots.

    Two sorts of request are not finished by a cancellation (K2, K4):
      - a request the kernel cannot cancel ([d_surv]: e.g. I/O that is already executing). An
        ASYNC_CANCEL naming it answers EALREADY; REGISTER_SYNC_CANCEL leaves it in flight and fails
        with ETIME for the call as a whole, which [Completions::drop] logs and ignores. Such a
        request is still in flight after the [Ring] was dropped; its completion arrives later or
        never, and nobody processes it.
      - a two-step request ([d_two]: a zero-copy send, IORING_OP_SEND_ZC / SENDMSG_ZC) posts its
        result with IORING_CQE_F_MORE ([CMore]) and, once the network stack has let go of the
        buffer, a notification without it ([COp], the final completion). Before the result is
        posted ([k_first]) a cancellation makes it post both at once (ECANCELED with F_MORE, then
        the notification); once only the notification is outstanding nothing can hurry it.

    A third sort never gets in flight ([d_rej]): the kernel refuses the request while preparing it
    (a descriptor that is not open, a path that does not exist, ...) and posts its only completion,
    the error, at the moment it consumes the submission. The ring is set up with
    IORING_SETUP_SUBMIT_ALL, so the submissions queued behind it are consumed by the same [enter];
    without the flag the kernel would stop there ([execute_stop] / [consume_stop] below state that
    kernel, for the refutation of seeded change C12-k).

    One model step = dropping one object, or the kernel taking the next step of one in-flight
    request ([KComplete]: the result of a two-step request whose result is due, else the final
    completion). Each step returns the log of what it did, including every access to a mapping
    ([LUse]), every use of an operation state by the completion handler ([LProcess]) and every
    release. Executable definitions only. *)
From A10 Require Import Base.Word Base.Run.
Local Open Scope nat_scope.

(** * Objects *)
Inductive ost := NotStarted | Running | Done | Dropped | Complete.

Record op := {
  o_on : option nat;   (* [Some h]: the future holds [&AsyncFd] h; [None]: it owns a [SubmissionQueue] *)
  o_fut : bool;        (* the future has not been dropped *)
  o_st : ost;          (* [Status] inside the boxed state *)
  o_box : bool         (* the boxed state is allocated *)
}.

Record pool := {
  p_rc : nat;          (* strong count of [Arc<sys::io::ReadBufPool>] *)
  p_handle : bool      (* the [ReadBufPool] handle has not been dropped *)
}.

Inductive sqe := SClose (h : nat) | SOp (o : nat) | SCancel (o : nat).
Inductive cqe :=
  | COp (o : nat)     (* final completion of operation o (no IORING_CQE_F_MORE) *)
  | CMore (o : nat)   (* result of the two-step operation o, IORING_CQE_F_MORE set: the notification follows *)
  | CBook.            (* user_data 0-3 *)

Record kern := {
  k_sqq : list sqe;        (* published, not consumed *)
  k_inflight : list nat;   (* consumed, no final completion yet *)
  k_first : list nat;      (* two-step requests in flight whose result (F_MORE) has not been posted *)
  k_cq : list cqe;         (* in the completion ring, not processed *)
  k_ovf : list cqe         (* overflow list *)
}.

Record dims := {
  d_sqn : nat; d_cqn : nat;                       (* entries *)
  d_len_sq : N; d_len_sqes : N; d_len_cq : N;     (* lengths of the three mappings as mapped *)
  d_two : list nat;                               (* operations that complete in two steps (zero-copy sends) *)
  d_surv : list nat;                              (* operations the kernel does not cancel *)
  d_rej : list nat                                (* operations the kernel refuses when it consumes their submission *)
}.

Record state := {
  s_d : dims;
  s_ring : bool;              (* the [Ring] has not been dropped: the completion ring is mapped *)
  s_rc : nat;                 (* strong count of [Arc<Shared>] *)
  s_clones : list bool;       (* live? *)
  s_fds : list bool;          (* live? *)
  s_ops : list op;
  s_pools : list pool;
  s_bufs : list (nat * bool); (* pool, live? *)
  s_k : kern
}.

Definition set_ring (s : state) (b : bool) : state :=
  {| s_d := s_d s; s_ring := b; s_rc := s_rc s; s_clones := s_clones s; s_fds := s_fds s;
     s_ops := s_ops s; s_pools := s_pools s; s_bufs := s_bufs s; s_k := s_k s |}.
Definition set_rc (s : state) (n : nat) : state :=
  {| s_d := s_d s; s_ring := s_ring s; s_rc := n; s_clones := s_clones s; s_fds := s_fds s;
     s_ops := s_ops s; s_pools := s_pools s; s_bufs := s_bufs s; s_k := s_k s |}.
Definition set_clones (s : state) (l : list bool) : state :=
  {| s_d := s_d s; s_ring := s_ring s; s_rc := s_rc s; s_clones := l; s_fds := s_fds s;
     s_ops := s_ops s; s_pools := s_pools s; s_bufs := s_bufs s; s_k := s_k s |}.
Definition set_fds (s : state) (l : list bool) : state :=
  {| s_d := s_d s; s_ring := s_ring s; s_rc := s_rc s; s_clones := s_clones s; s_fds := l;
     s_ops := s_ops s; s_pools := s_pools s; s_bufs := s_bufs s; s_k := s_k s |}.
Definition set_ops (s : state) (l : list op) : state :=
  {| s_d := s_d s; s_ring := s_ring s; s_rc := s_rc s; s_clones := s_clones s; s_fds := s_fds s;
     s_ops := l; s_pools := s_pools s; s_bufs := s_bufs s; s_k := s_k s |}.
Definition set_pools (s : state) (l : list pool) : state :=
  {| s_d := s_d s; s_ring := s_ring s; s_rc := s_rc s; s_clones := s_clones s; s_fds := s_fds s;
     s_ops := s_ops s; s_pools := l; s_bufs := s_bufs s; s_k := s_k s |}.
Definition set_bufs (s : state) (l : list (nat * bool)) : state :=
  {| s_d := s_d s; s_ring := s_ring s; s_rc := s_rc s; s_clones := s_clones s; s_fds := s_fds s;
     s_ops := s_ops s; s_pools := s_pools s; s_bufs := l; s_k := s_k s |}.
Definition set_k (s : state) (k : kern) : state :=
  {| s_d := s_d s; s_ring := s_ring s; s_rc := s_rc s; s_clones := s_clones s; s_fds := s_fds s;
     s_ops := s_ops s; s_pools := s_pools s; s_bufs := s_bufs s; s_k := k |}.

(** Replace element [i] of [l] by [f] of it (out of range: unchanged). *)
Fixpoint upd {A : Type} (i : nat) (f : A -> A) (l : list A) : list A :=
  match l, i with
  | [], _ => []
  | x :: r, 0 => f x :: r
  | x :: r, S j => x :: upd j f r
  end.

Definition dead_op : op := {| o_on := None; o_fut := false; o_st := Complete; o_box := false |}.
Definition dead_pool : pool := {| p_rc := 0; p_handle := false |}.
Definition get_op (s : state) (o : nat) : op := nth o (s_ops s) dead_op.
Definition get_pool (s : state) (p : nat) : pool := nth p (s_pools s) dead_pool.

(** * Log *)
Inductive mapping := MSq | MSqes | MCq.
Inductive allocation := ABox (o : nat) | APoolRing (p : nat) | APoolBufs (p : nat).
Inductive regop := RSyncCancel | RUnregPbuf (p : nat).

Inductive lev :=
  | LUse (m : mapping)                  (* user space reads or writes the mapping *)
  | LEnter (to_submit : nat) (getevents : bool)   (* io_uring_enter on the ring descriptor *)
  | LConsumed (q : sqe)                 (* the kernel consumed a submission; a CLOSE closes its descriptor *)
  | LRegister (r : regop)               (* io_uring_register on the ring descriptor *)
  | LMunmap (m : mapping) (len : N)
  | LCloseRing                          (* [rfd: OwnedFd] dropped *)
  | LSysClose (h : nat)                 (* close(2): the fallback of [AsyncFd::drop] *)
  | LUsePool (p : nat)                  (* [ReadBuf::release] writes the pool's ring and buffer *)
  | LProcess (o : nat) (final : bool)   (* [Completion::process] locks the state of operation o and updates it *)
  | LFree (a : allocation).

Definition len_of (d : dims) (m : mapping) : N :=
  match m with MSq => d_len_sq d | MSqes => d_len_sqes d | MCq => d_len_cq d end.

(** * [Arc<Shared>]: one strong reference dropped; the last one runs [Drop for Shared] (entries,
    then ring) and then the fields, [rfd] last. *)
Definition dec_shared (s : state) : state * list lev :=
  let rc' := pred (s_rc s) in
  (set_rc s rc',
   if rc' =? 0
   then [LMunmap MSqes (d_len_sqes (s_d s)); LMunmap MSq (d_len_sq (s_d s)); LCloseRing]
   else []).

(** [Submissions::add]: [unsubmitted_submissions() >= len] ⇒ [QueueFull]; else fill the slot and
    publish the tail. *)
Definition sq_add (s : state) (q : sqe) : state * bool * list lev :=
  let k := s_k s in
  if length (k_sqq k) <? d_sqn (s_d s)
  then (set_k s {| k_sqq := k_sqq k ++ [q]; k_inflight := k_inflight k; k_first := k_first k; k_cq := k_cq k; k_ovf := k_ovf k |},
        true, [LUse MSq; LUse MSqes; LUse MSq])
  else (s, false, [LUse MSq]).

(** * Dropping the handles *)
Definition drop_clone (s : state) (c : nat) : state * list lev :=
  if nth c (s_clones s) false
  then dec_shared (set_clones s (upd c (fun _ => false) (s_clones s)))
  else (s, []).

(** [Drop for AsyncFd]: queue a CLOSE, or close synchronously when the queue is full; then the
    field [sq]. *)
Definition drop_fd (s : state) (h : nat) : state * list lev :=
  if nth h (s_fds s) false
  then
    let '(s1, ok, l1) := sq_add s (SClose h) in
    let l2 := if ok then [] else [LSysClose h] in
    let '(s2, l3) := dec_shared (set_fds s1 (upd h (fun _ => false) (s_fds s1))) in
    (s2, l1 ++ l2 ++ l3)
  else (s, []).

(** The future's [Drop]: [State::drop(&mut state, sq)], then the fields ([sq] for futures that own
    a queue). [Running]: ask for cancellation (a full queue is only logged) and leave the state to
    the completion handler; any other status: [drop_state] frees the box now. *)
Definition drop_op (s : state) (o : nat) : state * list lev :=
  let x := get_op s o in
  if o_fut x
  then
    let '(s1, l1) :=
      match o_st x with
      | Running =>
          let '(s1, _, l1) := sq_add s (SCancel o) in
          (set_ops s1 (upd o (fun x => {| o_on := o_on x; o_fut := false; o_st := Dropped; o_box := o_box x |}) (s_ops s1)), l1)
      | _ =>
          (set_ops s (upd o (fun x => {| o_on := o_on x; o_fut := false; o_st := o_st x; o_box := false |}) (s_ops s)),
           [LFree (ABox o)])
      end in
    match o_on x with
    | Some _ => (s1, l1)
    | None => let '(s2, l2) := dec_shared s1 in (s2, l1 ++ l2)
    end
  else (s, []).

(** One strong reference to pool [p] dropped; the last one runs [Drop for ReadBufPool]:
    unregister, free the ring, free the buffers; then the field [sq]. *)
Definition dec_pool (s : state) (p : nat) : state * list lev :=
  let rc' := pred (p_rc (get_pool s p)) in
  let s1 := set_pools s (upd p (fun x => {| p_rc := rc'; p_handle := p_handle x |}) (s_pools s)) in
  if rc' =? 0
  then let '(s2, l2) := dec_shared s1 in
       (s2, [LRegister (RUnregPbuf p); LFree (APoolRing p); LFree (APoolBufs p)] ++ l2)
  else (s1, []).

Definition drop_pool (s : state) (p : nat) : state * list lev :=
  if p_handle (get_pool s p)
  then dec_pool (set_pools s (upd p (fun x => {| p_rc := p_rc x; p_handle := false |}) (s_pools s))) p
  else (s, []).

(** [Drop for ReadBuf]: [release] puts the buffer back (writes the pool's ring), then the [Arc]. *)
Definition drop_buf (s : state) (b : nat) : state * list lev :=
  let '(p, live) := nth b (s_bufs s) (0, false) in
  if live
  then let '(s1, l1) := dec_pool (set_bufs s (upd b (fun x => (fst x, false)) (s_bufs s))) p in
       (s1, LUsePool p :: l1)
  else (s, []).

(** * Kernel *)
Definition post (cqn : nat) (k : kern) (c : cqe) : kern :=
  match k_ovf k with
  | [] => if length (k_cq k) <? cqn
          then {| k_sqq := k_sqq k; k_inflight := k_inflight k; k_first := k_first k; k_cq := k_cq k ++ [c]; k_ovf := [] |}
          else {| k_sqq := k_sqq k; k_inflight := k_inflight k; k_first := k_first k; k_cq := k_cq k; k_ovf := [c] |}
  | _ => {| k_sqq := k_sqq k; k_inflight := k_inflight k; k_first := k_first k; k_cq := k_cq k; k_ovf := k_ovf k ++ [c] |}
  end.

Definition flush_overflow (cqn : nat) (k : kern) : kern :=
  let room := cqn - length (k_cq k) in
  {| k_sqq := k_sqq k; k_inflight := k_inflight k; k_first := k_first k;
     k_cq := k_cq k ++ firstn room (k_ovf k); k_ovf := skipn room (k_ovf k) |}.

Fixpoint remove_nat (x : nat) (l : list nat) : list nat :=
  match l with
  | [] => []
  | y :: r => if y =? x then r else y :: remove_nat x r
  end.

Fixpoint mem_nat (x : nat) (l : list nat) : bool :=
  match l with [] => false | y :: r => (y =? x) || mem_nat x r end.

(** Can a cancellation finish request [o] now? It is in flight, the kernel is able to cancel it,
    and it is not a two-step request that only waits for its notification. *)
Definition cancelable (d : dims) (k : kern) (o : nat) : bool :=
  mem_nat o (k_inflight k) && negb (mem_nat o (d_surv d)) &&
  (negb (mem_nat o (d_two d)) || mem_nat o (k_first k)).

(** Cancelling request [o]: its final completion is posted; a two-step request whose result is
    due posts that first (ECANCELED, F_MORE). *)
Definition cancel_req (d : dims) (k : kern) (o : nat) : kern :=
  let k0 := {| k_sqq := k_sqq k; k_inflight := remove_nat o (k_inflight k); k_first := remove_nat o (k_first k);
               k_cq := k_cq k; k_ovf := k_ovf k |} in
  if mem_nat o (k_first k)
  then post (d_cqn d) (post (d_cqn d) k0 (CMore o)) (COp o)
  else post (d_cqn d) k0 (COp o).

(** The kernel executes one consumed submission. *)
Definition execute (d : dims) (k : kern) (q : sqe) : kern :=
  match q with
  | SClose _ => k
  | SOp o =>
      if mem_nat o (d_rej d)
      then post (d_cqn d) k (COp o)
      else {| k_sqq := k_sqq k; k_inflight := k_inflight k ++ [o];
              k_first := if mem_nat o (d_two d) then k_first k ++ [o] else k_first k;
              k_cq := k_cq k; k_ovf := k_ovf k |}
  | SCancel o =>
      if cancelable d k o
      then cancel_req d k o
      else post (d_cqn d) k CBook
  end.

(** [enter] submitting everything that is queued. *)
Definition consume_all (d : dims) (k : kern) : kern :=
  fold_left (execute d)
            (k_sqq k)
            {| k_sqq := []; k_inflight := k_inflight k; k_first := k_first k; k_cq := k_cq k; k_ovf := k_ovf k |}.

(** A kernel whose ring was set up WITHOUT IORING_SETUP_SUBMIT_ALL (not the code as it is: kept for
    the refutation of seeded change C12-k): [enter] stops consuming after the first submission it
    refuses (the refused one is consumed and answered, what is queued behind it stays queued). *)
Fixpoint consume_stop_from (d : dims) (q : list sqe) (k : kern) : kern :=
  match q with
  | [] => {| k_sqq := []; k_inflight := k_inflight k; k_first := k_first k; k_cq := k_cq k; k_ovf := k_ovf k |}
  | SOp o :: r =>
      if mem_nat o (d_rej d)
      then let k1 := post (d_cqn d) k (COp o) in
           {| k_sqq := r; k_inflight := k_inflight k1; k_first := k_first k1; k_cq := k_cq k1; k_ovf := k_ovf k1 |}
      else consume_stop_from d r (execute d k (SOp o))
  | x :: r => consume_stop_from d r (execute d k x)
  end.
Definition consume_stop (d : dims) (k : kern) : kern := consume_stop_from d (k_sqq k) k.

(** REGISTER_SYNC_CANCEL(ANY|ALL): every request in flight that can be cancelled, in order. What
    cannot be cancelled stays in flight (the call then fails with ETIME after its timeout; the
    caller, [Completions::drop], logs that and goes on). *)
Definition sync_cancel (d : dims) (k : kern) : kern :=
  fold_left (fun k o => if cancelable d k o then cancel_req d k o else k) (k_inflight k) k.

(** The kernel takes the next step of in-flight request [o] on its own: the result of a two-step
    request whose result is due (F_MORE: the request stays in flight), else the final completion.
    This can happen at any time, also after the [Ring] is gone (the completion is then posted
    where nobody looks any more). *)
Definition kcomplete (s : state) (o : nat) : state * list lev :=
  let k := s_k s in
  if mem_nat o (k_inflight k)
  then if mem_nat o (k_first k)
       then (set_k s (post (d_cqn (s_d s))
                           {| k_sqq := k_sqq k; k_inflight := k_inflight k; k_first := remove_nat o (k_first k);
                              k_cq := k_cq k; k_ovf := k_ovf k |}
                           (CMore o)), [])
       else (set_k s (post (d_cqn (s_d s))
                           {| k_sqq := k_sqq k; k_inflight := remove_nat o (k_inflight k); k_first := k_first k;
                              k_cq := k_cq k; k_ovf := k_ovf k |}
                           (COp o)), [])
  else (s, []).

(** * Completion dispatch ([Completion::process] + [Shared::update])
    The handler locks the state the completion's user_data points to ([LProcess]). A completion
    with IORING_CQE_F_MORE leaves a single-shot operation as it is ([Running]: the result is
    stored, nobody is woken; [Dropped]: "more completions are coming, so we can't deallocate yet");
    the final one makes a running operation [Done] and releases the state of a dropped one. *)
Definition process_one (ops : list op) (c : cqe) : list op * list lev :=
  match c with
  | CBook => (ops, [])
  | CMore o => (ops, [LProcess o false])
  | COp o =>
      match o_st (nth o ops dead_op) with
      | Running => (upd o (fun x => {| o_on := o_on x; o_fut := o_fut x; o_st := Done; o_box := o_box x |}) ops,
                    [LProcess o true])
      | Dropped => (upd o (fun x => {| o_on := o_on x; o_fut := o_fut x; o_st := o_st x; o_box := false |}) ops,
                    [LProcess o true; LFree (ABox o)])
      | _ => (ops, [])   (* Done: a second final completion; NotStarted/Complete: unreachable!() — excluded by the invariant *)
      end
  end.

Fixpoint process_all (ops : list op) (cs : list cqe) : list op * list lev :=
  match cs with
  | [] => (ops, [])
  | c :: r => let '(ops1, l1) := process_one ops c in
              let '(ops2, l2) := process_all ops1 r in
              (ops2, l1 ++ l2)
  end.

(** [Completions::poll(shared, Some(0))]: enter only when the ring is empty, process what is
    there, store the head. *)
Definition poll_fetch (s : state) : kern * list lev :=
  let d := s_d s in
  match k_cq (s_k s) with
  | [] => (flush_overflow (d_cqn d) (consume_all d (s_k s)),
           [LUse MCq; LUse MSq; LEnter (length (k_sqq (s_k s))) true] ++ map LConsumed (k_sqq (s_k s)) ++ [LUse MCq])
  | _ => (s_k s, [LUse MCq])
  end.

Definition cq_poll (s : state) : state * list lev :=
  let '(k1, l1) := poll_fetch s in
  let '(ops1, l2) := process_all (s_ops s) (k_cq k1) in
  (set_ops (set_k s {| k_sqq := k_sqq k1; k_inflight := k_inflight k1; k_first := k_first k1; k_cq := []; k_ovf := k_ovf k1 |}) ops1,
   l1 ++ l2 ++ [LUse MCq]).

(** [Shared::enter]: the number of unsubmitted entries is read from the submission ring, all of
    them are submitted; every [enter] also flushes the overflow list. *)
Definition enter_all (s : state) (getevents : bool) : state * list lev :=
  let d := s_d s in
  (set_k s (flush_overflow (d_cqn d) (consume_all d (s_k s))),
   [LUse MSq; LEnter (length (k_sqq (s_k s))) getevents] ++ map LConsumed (k_sqq (s_k s))).

(** * [Drop for Ring]
    [Completions::drop]: flush the submissions, cancel everything, fetch, ONE poll; then the
    fields in declaration order: [cq] (unmaps the completion ring), [sq] (one [Arc<Shared>]). *)
Definition drop_ring (s : state) : state * list lev :=
  if s_ring s
  then
    let '(s1, l1) := enter_all s false in
    let s2 := set_k s1 (sync_cancel (s_d s1) (s_k s1)) in
    let '(s3, l3) := enter_all s2 true in
    let '(s4, l4) := cq_poll s3 in
    let '(s5, l5) := dec_shared (set_ring s4 false) in
    (s5, l1 ++ [LRegister RSyncCancel] ++ l3 ++ l4 ++ [LMunmap MCq (d_len_cq (s_d s))] ++ l5)
  else (s, []).

(** The repaired [Completions::drop] (fbe02e5, the repair of H14): "fetch + poll" is repeated until a
    pass finds nothing to process. [fuel] bounds the number of passes; one more than the number of
    pending completions is always enough (each pass but the last processes at least one). *)
Fixpoint drain_fixed (fuel : nat) (s : state) : state * list lev :=
  match fuel with
  | 0 => (s, [])
  | S f =>
      let '(s1, l1) := enter_all s true in
      (* did this pass move the head? *)
      let pending := match k_cq (fst (poll_fetch s1)) with [] => false | _ => true end in
      let '(s2, l2) := cq_poll s1 in
      if pending
      then let '(s3, l3) := drain_fixed f s2 in (s3, l1 ++ [LUse MCq] ++ l2 ++ [LUse MCq] ++ l3)
      else (s2, l1 ++ [LUse MCq] ++ l2 ++ [LUse MCq])
  end.

Definition drop_ring_fixed (s : state) : state * list lev :=
  if s_ring s
  then
    let '(s1, l1) := enter_all s false in
    let s2 := set_k s1 (sync_cancel (s_d s1) (s_k s1)) in
    let '(s4, l4) := drain_fixed (S (length (k_cq (s_k s2)) + length (k_ovf (s_k s2)))) s2 in
    let '(s5, l5) := dec_shared (set_ring s4 false) in
    (s5, l1 ++ [LRegister RSyncCancel] ++ l4 ++ [LMunmap MCq (d_len_cq (s_d s))] ++ l5)
  else (s, []).

(** The kernel's side of [Drop for Ring] over an arbitrary way [cons] of consuming the submission
    queue: the flush, the blanket cancellation, then [n] further [enter]s of the drain (the handler
    only empties the completion ring in between, which does not matter for what is in flight). *)
Fixpoint enters (cons : kern -> kern) (cqn n : nat) (k : kern) : kern :=
  match n with
  | 0 => k
  | S m => enters cons cqn m
             (let k1 := flush_overflow cqn (cons k) in
              {| k_sqq := k_sqq k1; k_inflight := k_inflight k1; k_first := k_first k1; k_cq := []; k_ovf := k_ovf k1 |})
  end.
Definition ring_drop_kernel (cons : dims -> kern -> kern) (d : dims) (n : nat) (k : kern) : kern :=
  enters (cons d) (d_cqn d) n (sync_cancel d (flush_overflow (d_cqn d) (cons d k))).

(** * Events *)
Inductive obj := ORing | OClone (c : nat) | OFd (h : nat) | OOp (o : nat) | OPool (p : nat) | OBuf (b : nat).
Inductive event := Drop (x : obj) | KComplete (o : nat).

Definition step_with (dr : state -> state * list lev) (s : state) (e : event) : state * list lev :=
  match e with
  | Drop ORing => dr s
  | Drop (OClone c) => drop_clone s c
  | Drop (OFd h) => drop_fd s h
  | Drop (OOp o) => drop_op s o
  | Drop (OPool p) => drop_pool s p
  | Drop (OBuf b) => drop_buf s b
  | KComplete o => kcomplete s o
  end.

Definition step : state -> event -> state * list lev := step_with drop_ring.
Definition step_fixed : state -> event -> state * list lev := step_with drop_ring_fixed.

(** * Two seeded regressions, kept for the refutation lemmas (not the code as it is)
    Seeded change C12-c: in [Shared::update]'s [Dropped] branch only multishot operations are taken
    to post more than one completion: the state of an abandoned two-step operation is released on
    its result completion (F_MORE set) — while the request is in flight and the notification is
    still to be processed. *)
Definition process_one_c12c (ops : list op) (c : cqe) : list op * list lev :=
  match c with
  | CMore o =>
      match o_st (nth o ops dead_op) with
      | Dropped => (upd o (fun x => {| o_on := o_on x; o_fut := o_fut x; o_st := o_st x; o_box := false |}) ops,
                    [LProcess o false; LFree (ABox o)])
      | _ => (ops, [LProcess o false])
      end
  | _ => process_one ops c
  end.

(** The drop of the [Ring] over an arbitrary completion handler [po] ([drop_ring_fixed] is the
    instance [po := process_one], see [drop_ring_w_process_one] in the proofs). *)
Fixpoint process_all_w (po : list op -> cqe -> list op * list lev) (ops : list op) (cs : list cqe) : list op * list lev :=
  match cs with
  | [] => (ops, [])
  | c :: r => let '(ops1, l1) := po ops c in
              let '(ops2, l2) := process_all_w po ops1 r in
              (ops2, l1 ++ l2)
  end.

Definition cq_poll_w (po : list op -> cqe -> list op * list lev) (s : state) : state * list lev :=
  let '(k1, l1) := poll_fetch s in
  let '(ops1, l2) := process_all_w po (s_ops s) (k_cq k1) in
  (set_ops (set_k s {| k_sqq := k_sqq k1; k_inflight := k_inflight k1; k_first := k_first k1; k_cq := []; k_ovf := k_ovf k1 |}) ops1,
   l1 ++ l2 ++ [LUse MCq]).

Fixpoint drain_w (po : list op -> cqe -> list op * list lev) (fuel : nat) (s : state) : state * list lev :=
  match fuel with
  | 0 => (s, [])
  | S f =>
      let '(s1, l1) := enter_all s true in
      let pending := match k_cq (fst (poll_fetch s1)) with [] => false | _ => true end in
      let '(s2, l2) := cq_poll_w po s1 in
      if pending
      then let '(s3, l3) := drain_w po f s2 in (s3, l1 ++ [LUse MCq] ++ l2 ++ [LUse MCq] ++ l3)
      else (s2, l1 ++ [LUse MCq] ++ l2 ++ [LUse MCq])
  end.

Definition drop_ring_w (po : list op -> cqe -> list op * list lev) (s : state) : state * list lev :=
  if s_ring s
  then
    let '(s1, l1) := enter_all s false in
    let s2 := set_k s1 (sync_cancel (s_d s1) (s_k s1)) in
    let '(s4, l4) := drain_w po (S (length (k_cq (s_k s2)) + length (k_ovf (s_k s2)))) s2 in
    let '(s5, l5) := dec_shared (set_ring s4 false) in
    (s5, l1 ++ [LRegister RSyncCancel] ++ l4 ++ [LMunmap MCq (d_len_cq (s_d s))] ++ l5)
  else (s, []).

Definition step_c12c : state -> event -> state * list lev := step_with (drop_ring_w process_one_c12c).

(** Seeded change C01-f: a [closed] flag is set at the end of [Completions::drop]; from then on
    [State::drop] releases the state of a running operation at once instead of marking it
    [Dropped] — while its request may still be in flight (it survived the cancellation, or only
    its notification is outstanding). The flag is set exactly when the [Ring] is gone. *)
Definition drop_op_c01f (s : state) (o : nat) : state * list lev :=
  let x := get_op s o in
  if o_fut x && negb (s_ring s) && match o_st x with Running => true | _ => false end
  then
    let s1 := set_ops s (upd o (fun x => {| o_on := o_on x; o_fut := false; o_st := o_st x; o_box := false |}) (s_ops s)) in
    match o_on x with
    | Some _ => (s1, [LFree (ABox o)])
    | None => let '(s2, l2) := dec_shared s1 in (s2, [LFree (ABox o)] ++ l2)
    end
  else drop_op s o.

Definition step_c01f (s : state) (e : event) : state * list lev :=
  match e with
  | Drop (OOp o) => drop_op_c01f s o
  | _ => step_fixed s e
  end.

(** * Populations *)
(** State an operation is in when the teardown starts (abandoned and completed-but-unpolled
    operations arise from [Drop (OOp _)] / [KComplete _] events that precede [Drop ORing]). *)
Inductive ist :=
  | INotStarted     (* never polled *)
  | IQueued         (* polled once: submission queued, not consumed *)
  | IInflight       (* consumed by the kernel *)
  | IDone           (* final completion processed by [Ring::poll], result not taken *)
  | IFinished       (* result taken ([Complete]) *)
  (* two-step operations only: *)
  | IMid            (* in flight, result (F_MORE) posted and processed by [Ring::poll]; the notification is outstanding *)
  | IAbMid          (* as [IMid], and the future was dropped before the result was processed: abandoned, state not released *)
  | IAbDone.        (* abandoned; both completions processed by [Ring::poll]: the state was released on the second *)

Record population := {
  pp_d : dims;
  pp_clones : nat;
  pp_fds : nat;
  pp_ops : list (option nat * ist);
  pp_pools : nat;
  pp_bufs : list nat       (* pool of each [ReadBuf] *)
}.

Definition st_of (i : ist) : ost :=
  match i with
  | INotStarted => NotStarted | IQueued | IInflight | IMid => Running | IDone => Done | IFinished => Complete
  | IAbMid | IAbDone => Dropped
  end.
Definition fut_of (i : ist) : bool := match i with IAbMid | IAbDone => false | _ => true end.
Definition box_of (i : ist) : bool := match i with IAbDone => false | _ => true end.

Fixpoint indices_where {A : Type} (f : A -> bool) (l : list A) (i : nat) : list nat :=
  match l with
  | [] => []
  | x :: r => if f x then i :: indices_where f r (S i) else indices_where f r (S i)
  end.

Definition is_queued (x : option nat * ist) : bool := match snd x with IQueued => true | _ => false end.
Definition is_inflight (x : option nat * ist) : bool := match snd x with IInflight | IMid | IAbMid => true | _ => false end.
Definition is_first (x : option nat * ist) : bool := match snd x with IInflight => true | _ => false end.
Definition owns_sq (x : option nat * ist) : bool := match fst x with None => fut_of (snd x) | Some _ => false end.

Definition count_nat (x : nat) (l : list nat) : nat := length (filter (Nat.eqb x) l).

Definition init (pp : population) : state :=
  {| s_d := pp_d pp;
     s_ring := true;
     s_rc := 1 + pp_clones pp + pp_fds pp + length (filter owns_sq (pp_ops pp)) + pp_pools pp;
     s_clones := repeat true (pp_clones pp);
     s_fds := repeat true (pp_fds pp);
     s_ops := map (fun x => {| o_on := fst x; o_fut := fut_of (snd x); o_st := st_of (snd x); o_box := box_of (snd x) |}) (pp_ops pp);
     s_pools := map (fun p => {| p_rc := 1 + count_nat p (pp_bufs pp); p_handle := true |}) (seq 0 (pp_pools pp));
     s_bufs := map (fun p => (p, true)) (pp_bufs pp);
     s_k := {| k_sqq := map SOp (indices_where is_queued (pp_ops pp) 0);
               k_inflight := indices_where is_inflight (pp_ops pp) 0;
               k_first := filter (fun o => mem_nat o (d_two (pp_d pp))) (indices_where is_first (pp_ops pp) 0);
               k_cq := []; k_ovf := [] |} |}.

(** * Resource replay (the style of Model/Build.v)
    A monitor that knows nothing about reference counts or operation statuses: what is mapped,
    whether the ring descriptor is open, which pools are registered, which allocations are live,
    which [AsyncFd] descriptors are open, and for how many accepted requests of each operation the
    final completion has not been processed yet ([m_due]: the request is in flight, or its final
    completion is posted and not processed). Replaying a log fails ([None]) on: an access to or a
    second munmap of an unmapped region, a munmap with a length other than the mapping's, a system
    call on the closed ring descriptor, closing it twice or while something is still mapped,
    freeing an allocation that is not live, a pool's memory freed while it is registered or used
    after it was freed, unregistering twice, closing a descriptor twice, and
      - the completion handler using an operation state that is not allocated ([LProcess]);
      - releasing an operation state while a request of that operation is in flight or its final
        completion is still to be processed ([LFree (ABox _)] with [m_due] not 0). *)
Record mon := {
  m_sq : bool; m_sqes : bool; m_cq : bool;   (* mapped *)
  m_fd : bool;                               (* ring descriptor open *)
  m_box : list bool;                         (* per operation: state allocated *)
  m_reg : list bool;                         (* per pool: registered *)
  m_pring : list bool;                       (* per pool: ring allocated *)
  m_pbufs : list bool;                       (* per pool: buffers allocated *)
  m_desc : list bool;                        (* per AsyncFd: descriptor open *)
  m_due : list nat                           (* per operation: requests accepted by the kernel whose final completion is not processed *)
}.

Definition mapped (m : mon) (x : mapping) : bool :=
  match x with MSq => m_sq m | MSqes => m_sqes m | MCq => m_cq m end.

Definition unmap (m : mon) (x : mapping) : mon :=
  {| m_sq := match x with MSq => false | _ => m_sq m end;
     m_sqes := match x with MSqes => false | _ => m_sqes m end;
     m_cq := match x with MCq => false | _ => m_cq m end;
     m_fd := m_fd m; m_box := m_box m; m_reg := m_reg m; m_pring := m_pring m; m_pbufs := m_pbufs m;
     m_desc := m_desc m; m_due := m_due m |}.

Definition clr (i : nat) (l : list bool) : list bool := upd i (fun _ => false) l.

Definition set_fdopen (m : mon) (b : bool) : mon :=
  {| m_sq := m_sq m; m_sqes := m_sqes m; m_cq := m_cq m; m_fd := b; m_box := m_box m;
     m_reg := m_reg m; m_pring := m_pring m; m_pbufs := m_pbufs m; m_desc := m_desc m; m_due := m_due m |}.
Definition set_box (m : mon) (l : list bool) : mon :=
  {| m_sq := m_sq m; m_sqes := m_sqes m; m_cq := m_cq m; m_fd := m_fd m; m_box := l;
     m_reg := m_reg m; m_pring := m_pring m; m_pbufs := m_pbufs m; m_desc := m_desc m; m_due := m_due m |}.
Definition set_reg (m : mon) (l : list bool) : mon :=
  {| m_sq := m_sq m; m_sqes := m_sqes m; m_cq := m_cq m; m_fd := m_fd m; m_box := m_box m;
     m_reg := l; m_pring := m_pring m; m_pbufs := m_pbufs m; m_desc := m_desc m; m_due := m_due m |}.
Definition set_pring (m : mon) (l : list bool) : mon :=
  {| m_sq := m_sq m; m_sqes := m_sqes m; m_cq := m_cq m; m_fd := m_fd m; m_box := m_box m;
     m_reg := m_reg m; m_pring := l; m_pbufs := m_pbufs m; m_desc := m_desc m; m_due := m_due m |}.
Definition set_pbufs (m : mon) (l : list bool) : mon :=
  {| m_sq := m_sq m; m_sqes := m_sqes m; m_cq := m_cq m; m_fd := m_fd m; m_box := m_box m;
     m_reg := m_reg m; m_pring := m_pring m; m_pbufs := l; m_desc := m_desc m; m_due := m_due m |}.
Definition set_desc (m : mon) (l : list bool) : mon :=
  {| m_sq := m_sq m; m_sqes := m_sqes m; m_cq := m_cq m; m_fd := m_fd m; m_box := m_box m;
     m_reg := m_reg m; m_pring := m_pring m; m_pbufs := m_pbufs m; m_desc := l; m_due := m_due m |}.
Definition set_due (m : mon) (l : list nat) : mon :=
  {| m_sq := m_sq m; m_sqes := m_sqes m; m_cq := m_cq m; m_fd := m_fd m; m_box := m_box m;
     m_reg := m_reg m; m_pring := m_pring m; m_pbufs := m_pbufs m; m_desc := m_desc m; m_due := l |}.

Definition replay1 (d : dims) (m : mon) (e : lev) : option mon :=
  match e with
  | LUse x => if mapped m x then Some m else None
  | LEnter _ _ => if m_fd m then Some m else None
  | LConsumed (SClose h) =>
      if nth h (m_desc m) false then Some (set_desc m (clr h (m_desc m))) else None
  | LConsumed (SOp o) => Some (set_due m (upd o S (m_due m)))
  | LConsumed (SCancel _) => Some m
  | LRegister RSyncCancel => if m_fd m then Some m else None
  | LRegister (RUnregPbuf p) =>
      if m_fd m && nth p (m_reg m) false then Some (set_reg m (clr p (m_reg m))) else None
  | LMunmap x len =>
      if mapped m x && (len =? len_of d x)%N then Some (unmap m x) else None
  | LCloseRing =>
      if m_fd m && negb (m_sq m || m_sqes m || m_cq m) then Some (set_fdopen m false) else None
  | LSysClose h =>
      if nth h (m_desc m) false then Some (set_desc m (clr h (m_desc m))) else None
  | LUsePool p => if nth p (m_pring m) false && nth p (m_pbufs m) false then Some m else None
  | LProcess o final =>
      if nth o (m_box m) false
      then Some (if final then set_due m (upd o pred (m_due m)) else m)
      else None
  | LFree (ABox o) =>
      if nth o (m_box m) false && (nth o (m_due m) 0 =? 0) then Some (set_box m (clr o (m_box m))) else None
  | LFree (APoolRing p) =>
      if nth p (m_pring m) false && negb (nth p (m_reg m) false) then Some (set_pring m (clr p (m_pring m))) else None
  | LFree (APoolBufs p) =>
      if nth p (m_pbufs m) false && negb (nth p (m_reg m) false) then Some (set_pbufs m (clr p (m_pbufs m))) else None
  end.

Fixpoint replay (d : dims) (m : mon) (l : list lev) : option mon :=
  match l with
  | [] => Some m
  | e :: r => match replay1 d m e with Some m1 => replay d m1 r | None => None end
  end.

(** * Correspondence driver
    Observation per event: [100+kind; index], then the kernel-visible calls in order
    ([1; to_submit; getevents] enter, [2; kind; index] consumed submission, [3; 0|1; pool] register,
    [4; mapping; length] munmap), then the frees [5; kind; index] in order, then the synchronous
    closes [6; h], then [7; ring descriptor open; in flight; in the completion ring; on the
    overflow list]. *)
Record tdcase := { t_fixed : bool; t_pop : population; t_events : list event }.

Definition obs_sys (e : lev) : list Z :=
  match e with
  | LEnter n g => [1; Z.of_nat n; bz g]
  | LConsumed (SClose h) => [2; 0; Z.of_nat h]
  | LConsumed (SOp o) => [2; 1; Z.of_nat o]
  | LConsumed (SCancel o) => [2; 2; Z.of_nat o]
  | LRegister RSyncCancel => [3; 0; 0]
  | LRegister (RUnregPbuf p) => [3; 1; Z.of_nat p]
  | LMunmap m len => [4; match m with MSq => 0 | MSqes => 1 | MCq => 2 end; nz len]
  | _ => []
  end%Z.

Definition obs_free (e : lev) : list Z :=
  match e with
  | LFree (ABox o) => [5; 0; Z.of_nat o]
  | LFree (APoolRing p) => [5; 1; Z.of_nat p]
  | LFree (APoolBufs p) => [5; 2; Z.of_nat p]
  | _ => []
  end%Z.

Definition obs_close (e : lev) : list Z :=
  match e with LSysClose h => [6; Z.of_nat h] | _ => [] end%Z.

Definition obs_event (e : event) : list Z :=
  match e with
  | Drop ORing => [100; 0]
  | Drop (OClone c) => [101; Z.of_nat c]
  | Drop (OFd h) => [102; Z.of_nat h]
  | Drop (OOp o) => [103; Z.of_nat o]
  | Drop (OPool p) => [104; Z.of_nat p]
  | Drop (OBuf b) => [105; Z.of_nat b]
  | KComplete o => [106; Z.of_nat o]
  end%Z.

Definition obs_state (s : state) : list Z :=
  [7%Z; bz (0 <? s_rc s); Z.of_nat (length (k_inflight (s_k s))); Z.of_nat (length (k_cq (s_k s)));
   Z.of_nat (length (k_ovf (s_k s)))].

Fixpoint run_obs (st : state -> event -> state * list lev) (s : state) (es : list event) : list Z :=
  match es with
  | [] => []
  | e :: r =>
      let '(s1, l) := st s e in
      obs_event e ++ flat_map obs_sys l ++ flat_map obs_free l ++ flat_map obs_close l ++ obs_state s1
        ++ run_obs st s1 r
  end.

Definition run_tdcase (c : tdcase) : list Z :=
  run_obs (if t_fixed c then step_fixed else step) (init (t_pop c)) (t_events c).

(** Small-step model of the race between futures polled / dropped on one or more threads and
    [Ring::poll] running on another thread: src/io_uring/op.rs ([poll_inner], [State::drop],
    [Shared::update], [set_waker]), src/io_uring/cq.rs ([Completions::poll],
    [Completion::process]), src/io_uring/sq.rs ([Submissions::add], [cancel],
    [wait_for_submission]) and src/io_uring/mod.rs ([Shared::enter], [wake_blocked_futures]).

    One thread step ([T t]) is the code between two hook-B scheduling points (lock acquisition,
    every load of a kernel-shared word, the slot fill, the tail store, the head store, the
    polling-state swaps), exactly the granularity at which the baton scheduler interleaves the
    real threads, so an executed interleaving can be replayed step by step. Thread 0 is the RING
    thread (a number of [Ring::poll(Some(ZERO))] calls), thread k+1 is FUTURE thread k running a
    program of API calls [Poll i w | DropOp i | Yield] ([Yield] is the driver's own scheduling
    point between rounds). [K i] is the kernel posting the NEXT completion of the script of
    in-flight request [i] (a no-op when [i] is not in flight or its script is used up).

    Operation kinds ([o_kind]):
    - [Single]: one state, [Singleshot(CompletionResult)] = [o_res]; ready when the completion
      without IORING_CQE_F_MORE has been dispatched;
    - [Multi] (multishot accept: [poll_next]): [Multishot(Vec)] = [o_q]; EVERY dispatched
      completion (with or without F_MORE) is appended to the queue under the operation's mutex and
      takes-and-wakes the stored waker; a poll pops the oldest result under the same mutex (the
      stored waker is left alone) or, the queue being empty, stores its waker and returns Pending
      (status Running) / ends the stream (status Done -> Complete);
    - [TwoStep] (zero-copy send): the same Rust type as [Single]; its script is a result completion
      with F_MORE (stored, NO wake, the waker stays) and a notification without F_MORE (F_NOTIF: the
      stored result is kept, Done, wake).
    A dropped running operation of any kind is released by the dispatch of a completion WITHOUT
    F_MORE; a completion with F_MORE of a dropped operation is ignored.

    Where the locks are in this model:
    - the per-operation mutex is [o_holder]: a future thread keeps it across [Submissions::add]
      (several scheduling points); the ring thread takes and releases it inside one step
      ([lock(head).update(..)] is one expression), so it can only SPIN on it;
    - the submission lock is [sub_holder];
    - the blocked-futures mutex is never held across a scheduling point by anybody (push, take
      and the re-queue are each lock-modify-unlock inside one segment), so it has no holder field:
      the [LOCK] / [TRY_LOCK] points on it are steps that always succeed. If the code ever held it
      across a point the replay would see a LOCK_SPIN the model does not expect.

    Simplifications (also listed in the assumptions of the C03R entry of bin/props.py):
    - NO RESTARTS: the EINTR/ECANCELED re-issue loop of [poll_inner] is not modelled, a poll hands
      out whatever result is stored (the driver scripts non-negative results only; the only
      -ECANCELED this kernel produces is for an operation whose future was dropped, which nobody
      reads); an error result of a live operation ([fallback]) is not modelled either;
    - [Ring::poll] with a zero timeout, default ring mode (no SQPOLL, no single issuer), nobody
      calls [SubmissionQueue::wake] (the two polling-state swaps are plain scheduling points);
    - the rings are counters and FIFO lists (their 32-bit mechanics are C04/C05): [sqh]/[sqt]
      count consumed / published submissions, [cq] is what was posted and not yet processed; the
      published CQ head is only read back by the ring thread itself, so "head = tail" is "[cq] is
      empty" and the head store is a plain scheduling point; the completion queue never overflows;
    - kernel (K1, K2, K4 of DESIGN.md §5): consumes exactly the entries [enter] announces, in order;
      auto-completing ([auto = true]) every request completes when it is consumed with the one
      completion [auto_cqe] (result 7, no flags), whatever its kind; otherwise it stays in flight and
      each [K i] posts the head of [scripts i] (ANY list of completions: result, F_MORE, F_NOTIF),
      leaving the in-flight table when that completion lacks F_MORE (the kernel posts nothing
      after a final completion); ASYNC_CANCEL is matched inline against the in-flight table: a
      winning cancel removes the target and posts its final completion (-ECANCELED, no flags)
      silently, a losing one (-EALREADY) or one that finds nothing (-ENOENT) posts a bookkeeping
      entry that [Completion::process] ignores without taking any lock.

    Fields named [g_…] are GHOST: no executable field, no branch and no observation reads them.
    Executable definitions only; proofs are in Proofs/OpRaceProofs.v. *)
From A10 Require Import Base.Word Base.Run.

Inductive status := NotStarted | Running | Done | Dropped | Complete.

Inductive kind := Single | Multi | TwoStep.

(** A completion as the kernel posts it: result, IORING_CQE_F_MORE, IORING_CQE_F_NOTIF. *)
Record cqe := { c_res : Z; c_more : bool; c_notif : bool }.
Definition fin (r : Z) : cqe := {| c_res := r; c_more := false; c_notif := false |}.
Definition ECANCELED : Z := 125.
(** What the auto-completing kernel completes every request with. *)
Definition auto_cqe : cqe := fin 7.

Inductive sqe := Submit (i : nat) | Cancel (i : nat).
(** A posted completion: of operation [i], or a bookkeeping entry (user_data 2). *)
Inductive centry := COp (i : nat) (c : cqe) | CBook.

Inductive call := Poll (i : nat) (w : N) | DropOp (i : nat) | Yield.

Inductive obs :=
  | OPending (i : nat) (w : N)   (* poll returned Pending with the waker registered in the operation *)
  | OParked (i : nat) (w : N)    (* poll returned Pending with the waker parked on the blocked list *)
  | OReady (i : nat) (v : Z)     (* poll returned Ready with a result / a stream item *)
  | OEnd (i : nat)               (* poll_next returned Ready(None): end of the stream *)
  | OPanic
  | OConsumed (e : sqe)
  | OWake (w : N)                (* woken by the dispatch of a completion *)
  | OWakeB (w : N)               (* woken by wake_blocked_futures *)
  | OFree (i : nat) (seen : bool). (* state box freed; [seen]: the harness knows the address *)

Record op := {
  o_kind : kind;
  o_st : status;
  o_waker : option N;
  o_holder : option nat;    (* the operation's mutex: thread holding it across a scheduling point *)
  o_alloc : bool;           (* the state box is allocated *)
  o_started : bool;         (* a submission was queued for it at some time (the harness learns the box address from it) *)
  o_cancelable : bool;      (* kernel side: an ASYNC_CANCEL finding it in flight wins *)
  o_res : Z;                (* [Singleshot]: the stored result (Single, TwoStep) *)
  o_q : list Z;             (* [Multishot]: results dispatched and not yet handed out (Multi) *)
  (* ghost *)
  g_lastw : option N;       (* waker of the most recent poll that returned Pending; [None] after a poll returned Ready *)
  g_woken : bool;           (* the dispatch of its completion invoked that waker since that poll *)
  g_frees : nat;            (* times the box was freed *)
  g_cancels : nat;          (* cancel requests queued for it *)
  g_disp : list cqe;        (* every completion [Shared::update] was called with for it, in order *)
  g_out : list Z;           (* every value its polls handed out (Ready results / stream items), in order *)
}.

(** Scheduling point the ring thread is stopped at, inside [Completions::poll]. *)
Inductive rpc :=
  | RIdle            (* between polls: load CQ head *)
  | RLoadCqT         (* load CQ tail *)
  | RSetPolling      (* set_polling(true) *)
  | REnterH | REnterT  (* unsubmitted_submissions: load SQ head, load SQ tail (+ the system call) *)
  | RWbH | RWbT      (* wake_blocked_futures: the two loads *)
  | RWbTry           (* … try_lock(blocked_futures) *)
  | RWbLock          (* … lock(blocked_futures) for the re-queue *)
  | RClearPolling    (* set_polling(false) *)
  | RLoadCqT2        (* reload CQ tail *)
  | RDisp            (* Completion::process: lock of the operation's mutex *)
  | RDispSpin        (* … it was taken: spinning *)
  | RStoreHead.      (* store CQ head *)

(** Scheduling point a future thread is stopped at. *)
Inductive fpc :=
  | FStart           (* first point of the current call: the operation's mutex (Poll, DropOp) or the driver's own point (Yield) *)
  | FSpin            (* the operation's mutex was taken: spinning *)
  | FAddH1 | FAddT1  (* Submissions::add, unlocked pre-check: load SQ head, load SQ tail *)
  | FSubLock | FSubSpin  (* lock(submissions_lock) *)
  | FAddH2 | FAddT2  (* re-load under the lock *)
  | FFill            (* reset + fill of the slot *)
  | FStore           (* tail store *)
  | FBlockedLock.    (* wait_for_submission: lock(blocked_futures) *)

Record fthread := {
  f_pc : fpc;
  f_prog : list call;       (* calls still to make; the head is the current one *)
  f_lh : N;                 (* local: loaded SQ head *)
}.

Record sys := {
  cap : N;                  (* submission queue entries *)
  auto : bool;              (* the kernel completes every request as soon as it consumes it *)
  ops : nat -> op;
  sqh : N; sqt : N;         (* submissions consumed / published so far *)
  sq : list sqe;            (* published, not yet consumed *)
  sub_holder : option nat;  (* submission lock *)
  inflight : list nat;      (* consumed, final completion not yet posted *)
  scripts : nat -> list cqe;  (* kernel: completions request [i] will still post, one per [K i] *)
  cq : list centry;         (* posted, not yet processed *)
  blocked : list N;         (* blocked_futures: wakers waiting for a submission slot *)
  (* ring thread *)
  r_pc : rpc;
  r_polls : nat;            (* Ring::poll calls still to make, incl. the current one *)
  r_lh : N;                 (* local: loaded SQ head *)
  r_n : nat;                (* local: completions the current poll still has to process (tail snapshot) *)
  r_end : bool;             (* local: wake_blocked_futures was called from the end of poll (not from enter) *)
  r_avail : nat;            (* local: [available] of wake_blocked_futures *)
  r_rest : list N;          (* local: wakers taken from the list and not woken *)
  thr : nat -> fthread;
  (* ghost *)
  g_parked : list N;        (* every waker ever pushed on the blocked list, in order *)
  g_bwoken : list N;        (* every waker woken by wake_blocked_futures, in order *)
  g_bad : bool;             (* a step took the mutex inside a state box that had been freed (use after free) *)
}.

Definition upd {A : Type} (f : nat -> A) (i : nat) (x : A) : nat -> A :=
  fun j => if Nat.eqb j i then x else f j.

Definition new_op (k : kind) (c : bool) : op :=
  {| o_kind := k; o_st := NotStarted; o_waker := None; o_holder := None; o_alloc := true; o_started := false;
     o_cancelable := c; o_res := 0; o_q := [];
     g_lastw := None; g_woken := false; g_frees := 0; g_cancels := 0; g_disp := []; g_out := [] |}.

Definition init (cap0 : N) (auto0 : bool) (kinds : list kind) (canc : list bool) (scr : list (list cqe))
                (npolls : nat) (progs : list (list call)) : sys :=
  {| cap := cap0; auto := auto0; ops := fun i => new_op (nth i kinds Single) (nth i canc false);
     sqh := 0; sqt := 0; sq := []; sub_holder := None; inflight := []; scripts := fun i => nth i scr [];
     cq := []; blocked := [];
     r_pc := RIdle; r_polls := npolls; r_lh := 0; r_n := 0; r_end := false; r_avail := 0; r_rest := [];
     thr := fun k => {| f_pc := FStart; f_prog := nth k progs []; f_lh := 0 |};
     g_parked := []; g_bwoken := []; g_bad := false |}.

(** * Record updates, spelled out *)

Definition set_ops (s : sys) (x : nat -> op) : sys :=
  {| cap := cap s; auto := auto s; ops := x; sqh := sqh s; sqt := sqt s; sq := sq s;
     sub_holder := sub_holder s; inflight := inflight s; scripts := scripts s; cq := cq s; blocked := blocked s;
     r_pc := r_pc s; r_polls := r_polls s; r_lh := r_lh s; r_n := r_n s; r_end := r_end s;
     r_avail := r_avail s; r_rest := r_rest s; thr := thr s;
     g_parked := g_parked s; g_bwoken := g_bwoken s; g_bad := g_bad s |}.
Definition set_op (s : sys) (i : nat) (o : op) : sys := set_ops s (upd (ops s) i o).

Definition set_thr (s : sys) (t : nat) (x : fthread) : sys :=
  {| cap := cap s; auto := auto s; ops := ops s; sqh := sqh s; sqt := sqt s; sq := sq s;
     sub_holder := sub_holder s; inflight := inflight s; scripts := scripts s; cq := cq s; blocked := blocked s;
     r_pc := r_pc s; r_polls := r_polls s; r_lh := r_lh s; r_n := r_n s; r_end := r_end s;
     r_avail := r_avail s; r_rest := r_rest s; thr := upd (thr s) t x;
     g_parked := g_parked s; g_bwoken := g_bwoken s; g_bad := g_bad s |}.

(** Submission queue: consumed count, published count, pending entries. *)
Definition set_sq (s : sys) (h t : N) (q : list sqe) : sys :=
  {| cap := cap s; auto := auto s; ops := ops s; sqh := h; sqt := t; sq := q;
     sub_holder := sub_holder s; inflight := inflight s; scripts := scripts s; cq := cq s; blocked := blocked s;
     r_pc := r_pc s; r_polls := r_polls s; r_lh := r_lh s; r_n := r_n s; r_end := r_end s;
     r_avail := r_avail s; r_rest := r_rest s; thr := thr s;
     g_parked := g_parked s; g_bwoken := g_bwoken s; g_bad := g_bad s |}.

Definition set_sub_holder (s : sys) (h : option nat) : sys :=
  {| cap := cap s; auto := auto s; ops := ops s; sqh := sqh s; sqt := sqt s; sq := sq s;
     sub_holder := h; inflight := inflight s; scripts := scripts s; cq := cq s; blocked := blocked s;
     r_pc := r_pc s; r_polls := r_polls s; r_lh := r_lh s; r_n := r_n s; r_end := r_end s;
     r_avail := r_avail s; r_rest := r_rest s; thr := thr s;
     g_parked := g_parked s; g_bwoken := g_bwoken s; g_bad := g_bad s |}.

(** Kernel side: in-flight table and posted completions. *)
Definition set_kernel (s : sys) (fl : list nat) (q : list centry) : sys :=
  {| cap := cap s; auto := auto s; ops := ops s; sqh := sqh s; sqt := sqt s; sq := sq s;
     sub_holder := sub_holder s; inflight := fl; scripts := scripts s; cq := q; blocked := blocked s;
     r_pc := r_pc s; r_polls := r_polls s; r_lh := r_lh s; r_n := r_n s; r_end := r_end s;
     r_avail := r_avail s; r_rest := r_rest s; thr := thr s;
     g_parked := g_parked s; g_bwoken := g_bwoken s; g_bad := g_bad s |}.

(** The blocked list with its two ghost ledgers. *)
Definition set_blocked (s : sys) (b : list N) (gp gw : list N) : sys :=
  {| cap := cap s; auto := auto s; ops := ops s; sqh := sqh s; sqt := sqt s; sq := sq s;
     sub_holder := sub_holder s; inflight := inflight s; scripts := scripts s; cq := cq s; blocked := b;
     r_pc := r_pc s; r_polls := r_polls s; r_lh := r_lh s; r_n := r_n s; r_end := r_end s;
     r_avail := r_avail s; r_rest := r_rest s; thr := thr s;
     g_parked := gp; g_bwoken := gw; g_bad := g_bad s |}.

(** Ring thread: program counter and locals. *)
Definition set_ring (s : sys) (p : rpc) (polls : nat) (lh : N) (n : nat) (e : bool) (av : nat) (rest : list N) : sys :=
  {| cap := cap s; auto := auto s; ops := ops s; sqh := sqh s; sqt := sqt s; sq := sq s;
     sub_holder := sub_holder s; inflight := inflight s; scripts := scripts s; cq := cq s; blocked := blocked s;
     r_pc := p; r_polls := polls; r_lh := lh; r_n := n; r_end := e; r_avail := av; r_rest := rest;
     thr := thr s; g_parked := g_parked s; g_bwoken := g_bwoken s; g_bad := g_bad s |}.
Definition set_rpc (s : sys) (p : rpc) : sys :=
  set_ring s p (r_polls s) (r_lh s) (r_n s) (r_end s) (r_avail s) (r_rest s).

Definition set_bad (s : sys) (b : bool) : sys :=
  {| cap := cap s; auto := auto s; ops := ops s; sqh := sqh s; sqt := sqt s; sq := sq s;
     sub_holder := sub_holder s; inflight := inflight s; scripts := scripts s; cq := cq s; blocked := blocked s;
     r_pc := r_pc s; r_polls := r_polls s; r_lh := r_lh s; r_n := r_n s; r_end := r_end s;
     r_avail := r_avail s; r_rest := r_rest s; thr := thr s;
     g_parked := g_parked s; g_bwoken := g_bwoken s; g_bad := b |}.

(** The kernel's side of a request: in-flight table, remaining script, posted completions ([K i]). *)
Definition set_kernel_scr (s : sys) (fl : list nat) (sc : nat -> list cqe) (q : list centry) : sys :=
  {| cap := cap s; auto := auto s; ops := ops s; sqh := sqh s; sqt := sqt s; sq := sq s;
     sub_holder := sub_holder s; inflight := fl; scripts := sc; cq := q; blocked := blocked s;
     r_pc := r_pc s; r_polls := r_polls s; r_lh := r_lh s; r_n := r_n s; r_end := r_end s;
     r_avail := r_avail s; r_rest := r_rest s; thr := thr s;
     g_parked := g_parked s; g_bwoken := g_bwoken s; g_bad := g_bad s |}.

(** * The operation state under its mutex *)

Definition mk_op (o : op) (st : status) (wk : option N) (h : option nat) (al sd : bool) (rs : Z) (q : list Z)
                 (lw : option N) (wn : bool) (fr cn : nat) (dp : list cqe) (ot : list Z) : op :=
  {| o_kind := o_kind o; o_st := st; o_waker := wk; o_holder := h; o_alloc := al; o_started := sd;
     o_cancelable := o_cancelable o; o_res := rs; o_q := q;
     g_lastw := lw; g_woken := wn; g_frees := fr; g_cancels := cn; g_disp := dp; g_out := ot |}.

Definition o_lock (o : op) (t : nat) : op :=
  mk_op o (o_st o) (o_waker o) (Some t) (o_alloc o) (o_started o) (o_res o) (o_q o)
        (g_lastw o) (g_woken o) (g_frees o) (g_cancels o) (g_disp o) (g_out o).

Definition o_unlock (o : op) : op :=
  mk_op o (o_st o) (o_waker o) None (o_alloc o) (o_started o) (o_res o) (o_q o)
        (g_lastw o) (g_woken o) (g_frees o) (g_cancels o) (g_disp o) (g_out o).

(** [poll_inner], status Running (Single, TwoStep; Multi with an empty result queue): [set_waker]
    stores the new waker; Pending. (Mutex taken and released inside the step.) *)
Definition o_repoll (o : op) (w : N) : op :=
  mk_op o (o_st o) (Some w) (o_holder o) (o_alloc o) (o_started o) (o_res o) (o_q o)
        (Some w) false (g_frees o) (g_cancels o) (g_disp o) (g_out o).

(** [poll_inner], status NotStarted, after [add] succeeded: waker stored, status Running with
    [O::empty()] results, mutex released; Pending. *)
Definition o_submitted (o : op) (w : N) : op :=
  mk_op o Running (Some w) None (o_alloc o) true 0%Z []
        (Some w) false (g_frees o) (g_cancels o) (g_disp o) (g_out o).

(** [poll_inner], status Done, Single / TwoStep: Complete; Ready with the stored result. *)
Definition o_ready (o : op) : op :=
  mk_op o Complete (o_waker o) (o_holder o) (o_alloc o) (o_started o) (o_res o) (o_q o)
        None false (g_frees o) (g_cancels o) (g_disp o) (g_out o ++ [o_res o]).

(** [poll_inner], Multi, status Running or Done, [results.next()] = Some: the oldest queued result
    is removed and handed out; status and stored waker unchanged. *)
Definition o_item (o : op) (v : Z) (q' : list Z) : op :=
  mk_op o (o_st o) (o_waker o) (o_holder o) (o_alloc o) (o_started o) (o_res o) q'
        None false (g_frees o) (g_cancels o) (g_disp o) (g_out o ++ [v]).

(** [poll_inner], Multi, status Done, queue empty: Complete; Ready(None). *)
Definition o_end (o : op) : op :=
  mk_op o Complete (o_waker o) (o_holder o) (o_alloc o) (o_started o) (o_res o) (o_q o)
        None false (g_frees o) (g_cancels o) (g_disp o) (g_out o).

(** Ghost only: the poll returned Pending with its waker parked on the blocked list. *)
Definition o_parked (o : op) (w : N) : op :=
  mk_op o (o_st o) (o_waker o) (o_holder o) (o_alloc o) (o_started o) (o_res o) (o_q o)
        (Some w) false (g_frees o) (g_cancels o) (g_disp o) (g_out o).

(** [State::drop], status Running: Dropped (after the cancel was queued or found no room), mutex released. *)
Definition o_dropped (o : op) (queued : bool) : op :=
  mk_op o Dropped (o_waker o) None (o_alloc o) (o_started o) (o_res o) (o_q o)
        (g_lastw o) (g_woken o) (g_frees o) (g_cancels o + (if queued then 1 else 0)) (g_disp o) (g_out o).

(** [drop_state]: the box is deallocated. *)
Definition o_free (o : op) : op :=
  mk_op o (o_st o) (o_waker o) (o_holder o) false (o_started o) (o_res o) (o_q o)
        (g_lastw o) (g_woken o) (S (g_frees o)) (g_cancels o) (g_disp o) (g_out o).

(** Ghost only: [Shared::update] was called with [c]. *)
Definition o_seen (o : op) (c : cqe) : op :=
  mk_op o (o_st o) (o_waker o) (o_holder o) (o_alloc o) (o_started o) (o_res o) (o_q o)
        (g_lastw o) (g_woken o) (g_frees o) (g_cancels o) (g_disp o ++ [c]) (g_out o).

Definition waker_eqb (a b : option N) : bool :=
  match a, b with Some x, Some y => x =? y | _, _ => false end.

(** [OpResult::update]: [Singleshot] keeps the result of a completion without F_NOTIF,
    [Multishot] pushes every result. *)
Definition store_res (o : op) (c : cqe) : Z :=
  match o_kind o with
  | Multi => o_res o
  | Single | TwoStep => if c_notif c then o_res o else c_res c
  end.
Definition push_res (o : op) (c : cqe) : list Z :=
  match o_kind o with
  | Multi => o_q o ++ [c_res c]
  | Single | TwoStep => o_q o
  end.

(** [Shared::update] on Running / Done: the result is stored / queued; without F_MORE the status
    becomes Done; [wakes = done || IS_MULTISHOT]: the waker is taken (and woken by the caller). *)
Definition o_accept (o : op) (c : cqe) (wakes : bool) : op :=
  mk_op o (if c_more c then o_st o else Done) (if wakes then None else o_waker o) (o_holder o) (o_alloc o)
        (o_started o) (store_res o c) (push_res o c) (g_lastw o)
        (if wakes then g_woken o || waker_eqb (o_waker o) (g_lastw o) else g_woken o)
        (g_frees o) (g_cancels o) (g_disp o ++ [c]) (g_out o).

Definition wake_obs (o : op) : list obs := match o_waker o with Some w => [OWake w] | None => [] end.

(** [Shared::update] + what [Completion::process] does with its answer: new state of the
    operation, observations, "the box had been freed". *)
Definition o_update (i : nat) (o : op) (c : cqe) : op * list obs * bool :=
  match o_st o with
  | Running | Done =>
      if c_more c then
        match o_kind o with
        | Multi => (o_accept o c true, wake_obs o, negb (o_alloc o))
        | Single | TwoStep => (o_accept o c false, [], negb (o_alloc o))
        end
      else (o_accept o c true, wake_obs o, negb (o_alloc o))
  | Dropped =>
      if c_more c then (o_seen o c, [], negb (o_alloc o))        (* more completions are coming *)
      else (o_free (o_seen o c), [OFree i (o_started o)], negb (o_alloc o))
  | NotStarted | Complete => (o_seen o c, [OPanic], negb (o_alloc o))     (* unreachable!() *)
  end.

(** * Kernel *)

Fixpoint remove_first (i : nat) (l : list nat) : list nat :=
  match l with
  | [] => []
  | j :: r => if Nat.eqb i j then r else j :: remove_first i r
  end.

Definition mem (i : nat) (l : list nat) : bool := existsb (Nat.eqb i) l.

(** The kernel consumes one submission (K1, K4). *)
Definition kconsume (s : sys) (e : sqe) : sys :=
  match e with
  | Submit i =>
      if auto s then set_kernel s (inflight s) (cq s ++ [COp i auto_cqe])
      else set_kernel s (inflight s ++ [i]) (cq s)
  | Cancel i =>
      if mem i (inflight s) then
        if o_cancelable (ops s i)
        then set_kernel s (remove_first i (inflight s)) (cq s ++ [COp i (fin (- ECANCELED))])   (* -ECANCELED for the target; success is silent *)
        else set_kernel s (inflight s) (cq s ++ [CBook])                    (* -EALREADY *)
      else set_kernel s (inflight s) (cq s ++ [CBook])                      (* -ENOENT *)
  end.

(** The kernel posts the next scripted completion of in-flight request [i] (K2); without F_MORE
    it is the final one and the request leaves the in-flight table. *)
Definition kpost (s : sys) (i : nat) : sys :=
  if mem i (inflight s) then
    match scripts s i with
    | [] => s
    | c :: r =>
        if c_more c then set_kernel_scr s (inflight s) (upd (scripts s) i r) (cq s ++ [COp i c])
        else set_kernel_scr s (remove_first i (inflight s)) (upd (scripts s) i r) (cq s ++ [COp i c])
    end
  else s.

(** * Ring thread *)

Definition poll_return (s : sys) : sys :=
  set_ring s RIdle (pred (r_polls s)) (r_lh s) 0 false 0 (r_rest s).

(** [wake_blocked_futures] returns: to [enter]'s caller or out of [poll]. *)
Definition wb_done (s : sys) : sys :=
  if r_end s then poll_return s else set_rpc s RClearPolling.

(** Bookkeeping completions at the front of the queue are processed without any scheduling point. *)
Fixpoint skip_book (n : nat) (q : list centry) : nat * list centry :=
  match n, q with
  | S n', CBook :: q' => skip_book n' q'
  | _, _ => (n, q)
  end.

(** Run the dispatch loop up to the next operation completion (stop at its mutex) or to the end
    (stop at the head store). *)
Definition advance (s : sys) : sys :=
  let '(n, q) := skip_book (r_n s) (cq s) in
  let s1 := set_kernel s (inflight s) q in
  match n, q with
  | S _, COp _ _ :: _ => set_ring s1 RDisp (r_polls s) (r_lh s) n (r_end s) (r_avail s) (r_rest s)
  | _, _ => set_ring s1 RStoreHead (r_polls s) (r_lh s) 0 (r_end s) (r_avail s) (r_rest s)
  end.

(** Tail (re)load: everything posted so far will be processed by this poll. *)
Definition begin_dispatch (s : sys) : sys :=
  advance (set_ring s (r_pc s) (r_polls s) (r_lh s) (length (cq s)) (r_end s) (r_avail s) (r_rest s)).

Definition dispatch_with (u : nat -> op -> cqe -> op * list obs * bool) (s : sys) : sys * list obs :=
  match r_n s, cq s with
  | S n', COp i c :: q' =>
      match o_holder (ops s i) with
      | Some _ => (set_rpc s RDispSpin, [])
      | None =>
          let '(o', out, bad) := u i (ops s i) c in
          let s1 := set_bad (set_op (set_kernel s (inflight s) q') i o') (g_bad s || bad) in
          (advance (set_ring s1 (r_pc s) (r_polls s) (r_lh s) n' (r_end s) (r_avail s) (r_rest s)), out)
      end
  | _, _ => (set_rpc s RStoreHead, [])
  end.

(** [Shared::enter(1, GETEVENTS, zero timeout)]: the tail load, then the system call: the kernel
    consumes what was announced; success ([wake_blocked_futures] follows) when something was
    submitted or a completion is there, ETIME otherwise. *)
Definition enter (s : sys) : sys * list obs :=
  let k := N.to_nat (N.min (sqt s - r_lh s) (N.of_nat (length (sq s)))) in
  let taken := firstn k (sq s) in
  let s1 := fold_left kconsume taken (set_sq s (sqh s + N.of_nat k) (sqt s) (skipn k (sq s))) in
  let ok := negb (Nat.eqb k 0) || negb (Nat.eqb (length (cq s1)) 0) in
  (if ok then set_ring s1 RWbH (r_polls s) (r_lh s) (r_n s) false (r_avail s) (r_rest s)
   else set_rpc s1 RClearPolling,
   map OConsumed taken).

(** [fixed = true] is the code after the repair of H15 (every poll ends with
    [wake_blocked_futures]); [false] is the code before. [u] is [Shared::update] + what
    [Completion::process] does with its answer ([o_update]; a variant for the refutation of a
    seeded change). *)
Definition rstep_gen (u : nat -> op -> cqe -> op * list obs * bool) (fixed : bool) (s : sys) : sys * list obs :=
  match r_pc s with
  | RIdle => match r_polls s with O => (s, []) | S _ => (set_rpc s RLoadCqT, []) end
  | RLoadCqT => match cq s with [] => (set_rpc s RSetPolling, []) | _ :: _ => (begin_dispatch s, []) end
  | RSetPolling => (set_rpc s REnterH, [])
  | REnterH => (set_ring s REnterT (r_polls s) (sqh s) (r_n s) (r_end s) (r_avail s) (r_rest s), [])
  | REnterT => enter s
  | RWbH => (set_ring s RWbT (r_polls s) (sqh s) (r_n s) (r_end s) (r_avail s) (r_rest s), [])
  | RWbT =>
      (* available := len.saturating_sub(unsubmitted) *)
      let avail := N.to_nat (cap s - (sqt s - r_lh s)) in
      if Nat.eqb avail 0 then (wb_done s, [])
      else (set_ring s RWbTry (r_polls s) (r_lh s) (r_n s) (r_end s) avail (r_rest s), [])
  | RWbTry =>
      match blocked s with
      | [] => (wb_done s, [])
      | _ :: _ =>
          let ws := blocked s in
          let n := Nat.min (r_avail s) (length ws) in
          let s1 := set_blocked s [] (g_parked s) (g_bwoken s ++ firstn n ws) in
          (set_ring s1 RWbLock (r_polls s) (r_lh s) (r_n s) (r_end s) (r_avail s - n) (skipn n ws),
           map OWakeB (firstn n ws))
      end
  | RWbLock =>
      (* swap(list, rest); the list gets back the LAST min(available - awoken, |new|) of the wakers
         pushed meanwhile, the others are woken *)
      let new := blocked s in
      let m := Nat.min (r_avail s) (length new) in
      let woken := firstn (length new - m) new in
      let s1 := set_blocked s (r_rest s ++ skipn (length new - m) new) (g_parked s) (g_bwoken s ++ woken) in
      (wb_done (set_ring s1 (r_pc s) (r_polls s) (r_lh s) (r_n s) (r_end s) 0 []), map OWakeB woken)
  | RClearPolling => (set_rpc s RLoadCqT2, [])
  | RLoadCqT2 => (begin_dispatch s, [])
  | RDisp | RDispSpin => dispatch_with u s
  | RStoreHead =>
      if fixed then (set_ring s RWbH (r_polls s) (r_lh s) (r_n s) true (r_avail s) (r_rest s), [])
      else (poll_return s, [])
  end.
Definition rstep_with (fixed : bool) (s : sys) : sys * list obs := rstep_gen o_update fixed s.

(** * Future threads *)

Definition at_pc (f : fthread) (p : fpc) : fthread := {| f_pc := p; f_prog := f_prog f; f_lh := f_lh f |}.
Definition at_pc_lh (f : fthread) (p : fpc) (h : N) : fthread := {| f_pc := p; f_prog := f_prog f; f_lh := h |}.
(** The current call returns. *)
Definition call_done (f : fthread) : fthread := {| f_pc := FStart; f_prog := tl (f_prog f); f_lh := f_lh f |}.
(** The thread dies (panic). *)
Definition dead (f : fthread) : fthread := {| f_pc := FStart; f_prog := []; f_lh := f_lh f |}.

(** [unsubmitted_submissions() >= len] with the head loaded earlier. *)
Definition sq_full (s : sys) (loaded_head : N) : bool := cap s <=? sqt s - loaded_head.

(** [Submissions::add] returned QueueFull (the submission lock, if it was taken, is released). *)
Definition add_failed (s : sys) (t : nat) (f : fthread) : sys * list obs :=
  match f_prog f with
  | Poll i _ :: _ =>
      (* unlock(shared); wait_for_submission(..) *)
      (set_thr (set_op s i (o_unlock (ops s i))) t (at_pc f FBlockedLock), [])
  | DropOp i :: _ =>
      (* the error is logged; status := Dropped; unlock *)
      (set_thr (set_op s i (o_dropped (ops s i) false)) t (call_done f), [])
  | _ => (set_thr s t (call_done f), [])
  end.

(** The tail store: the entry is published, the submission lock released, then the rest of the
    call up to its return. *)
Definition add_ok (s : sys) (t : nat) (f : fthread) : sys * list obs :=
  match f_prog f with
  | Poll i w :: _ =>
      let s1 := set_sub_holder (set_sq s (sqh s) (sqt s + 1) (sq s ++ [Submit i])) None in
      (set_thr (set_op s1 i (o_submitted (ops s i) w)) t (call_done f), [OPending i w])
  | DropOp i :: _ =>
      let s1 := set_sub_holder (set_sq s (sqh s) (sqt s + 1) (sq s ++ [Cancel i])) None in
      (set_thr (set_op s1 i (o_dropped (ops s i) true)) t (call_done f), [])
  | _ => (set_thr (set_sub_holder s None) t (call_done f), [])
  end.

(** The first step of a call: the operation's mutex. *)
Definition call_start (s : sys) (t : nat) (f : fthread) : sys * list obs :=
  match f_prog f with
  | [] => (s, [])
  | Yield :: _ => (set_thr s t (call_done f), [])
  | Poll i w :: _ =>
      let o := ops s i in
      match o_holder o with
      | Some _ => (set_thr s t (at_pc f FSpin), [])
      | None =>
          let s0 := set_bad s (g_bad s || negb (o_alloc o)) in
          match o_st o with
          | NotStarted => (set_thr (set_op s0 i (o_lock o t)) t (at_pc f FAddH1), [])
          | Running =>
              match o_kind o with
              | Multi =>
                  match o_q o with
                  | v :: q' => (set_thr (set_op s0 i (o_item o v q')) t (call_done f), [OReady i v])
                  | [] => (set_thr (set_op s0 i (o_repoll o w)) t (call_done f), [OPending i w])
                  end
              | Single | TwoStep => (set_thr (set_op s0 i (o_repoll o w)) t (call_done f), [OPending i w])
              end
          | Done =>
              match o_kind o with
              | Multi =>
                  match o_q o with
                  | v :: q' => (set_thr (set_op s0 i (o_item o v q')) t (call_done f), [OReady i v])
                  | [] => (set_thr (set_op s0 i (o_end o)) t (call_done f), [OEnd i])
                  end
              | Single | TwoStep => (set_thr (set_op s0 i (o_ready o)) t (call_done f), [OReady i (o_res o)])
              end
          | Dropped | Complete => (set_thr s0 t (dead f), [OPanic])
          end
      end
  | DropOp i :: _ =>
      let o := ops s i in
      match o_holder o with
      | Some _ => (set_thr s t (at_pc f FSpin), [])
      | None =>
          let s0 := set_bad s (g_bad s || negb (o_alloc o)) in
          match o_st o with
          | Running => (set_thr (set_op s0 i (o_lock o t)) t (at_pc f FAddH1), [])
          | _ => (set_thr (set_op s0 i (o_free o)) t (call_done f), [OFree i (o_started o)])
          end
      end
  end.

Definition fstep (s : sys) (t : nat) : sys * list obs :=
  let f := thr s t in
  match f_pc f with
  | FStart | FSpin => call_start s t f
  | FAddH1 => (set_thr s t (at_pc_lh f FAddT1 (sqh s)), [])
  | FAddT1 => if sq_full s (f_lh f) then add_failed s t f else (set_thr s t (at_pc f FSubLock), [])
  | FSubLock | FSubSpin =>
      match sub_holder s with
      | None => (set_thr (set_sub_holder s (Some t)) t (at_pc f FAddH2), [])
      | Some _ => (set_thr s t (at_pc f FSubSpin), [])
      end
  | FAddH2 => (set_thr s t (at_pc_lh f FAddT2 (sqh s)), [])
  | FAddT2 => if sq_full s (f_lh f) then add_failed (set_sub_holder s None) t f
              else (set_thr s t (at_pc f FFill), [])
  | FFill => (set_thr s t (at_pc f FStore), [])
  | FStore => add_ok s t f
  | FBlockedLock =>
      match f_prog f with
      | Poll i w :: _ =>
          let s1 := set_blocked s (blocked s ++ [w]) (g_parked s ++ [w]) (g_bwoken s) in
          (set_thr (set_op s1 i (o_parked (ops s i) w)) t (call_done f), [OParked i w])
      | _ => (set_thr s t (call_done f), [])
      end
  end.

(** * Events *)

(** [T 0]: the ring thread, [T (S k)]: future thread [k] runs to its next scheduling point;
    [K i]: the kernel posts the next scripted completion of request [i]. *)
Inductive ev := T (t : nat) | K (i : nat).

Definition step_with (fixed : bool) (s : sys) (e : ev) : sys * list obs :=
  match e with
  | T O => rstep_with fixed s
  | T (S k) => fstep s k
  | K i => (kpost s i, [])
  end.

Definition step := step_with true.
(** The code before the repair of H15: [Completions::poll] did not end with [wake_blocked_futures]. *)
Definition step_h15 := step_with false.

(** * Variant for the refutation of seeded change C06-a: [State::drop] checks the status under
    one acquisition of the operation's mutex, queues the cancel WITHOUT the mutex and stores
    [Dropped] under a second acquisition. Only [call_start] (the check releases the mutex),
    [add_ok]/[add_failed] for [DropOp] (go to the second acquisition) and one more point differ;
    the second acquisition re-uses [FBlockedLock] as its program counter. *)
Definition call_start_c06a (s : sys) (t : nat) (f : fthread) : sys * list obs :=
  match f_prog f with
  | DropOp i :: _ =>
      let o := ops s i in
      match o_holder o with
      | Some _ => (set_thr s t (at_pc f FSpin), [])
      | None =>
          match o_st o with
          | Running => (set_thr s t (at_pc f FAddH1), [])            (* is_running = true; mutex released *)
          | _ => (set_thr (set_op s i (o_free o)) t (call_done f), [OFree i (o_started o)])
          end
      end
  | _ => call_start s t f
  end.

Definition fstep_c06a (s : sys) (t : nat) : sys * list obs :=
  let f := thr s t in
  match f_prog f with
  | DropOp i :: _ =>
      match f_pc f with
      | FStart | FSpin => call_start_c06a s t f
      | FAddT1 => if sq_full s (f_lh f) then (set_thr s t (at_pc f FBlockedLock), [])
                  else (set_thr s t (at_pc f FSubLock), [])
      | FAddT2 => if sq_full s (f_lh f) then (set_thr (set_sub_holder s None) t (at_pc f FBlockedLock), [])
                  else (set_thr s t (at_pc f FFill), [])
      | FStore =>
          let s1 := set_sub_holder (set_sq s (sqh s) (sqt s + 1) (sq s ++ [Cancel i])) None in
          (set_thr (set_op s1 i (mk_op (ops s i) (o_st (ops s i)) (o_waker (ops s i)) (o_holder (ops s i))
                                       (o_alloc (ops s i)) (o_started (ops s i)) (o_res (ops s i)) (o_q (ops s i))
                                       (g_lastw (ops s i)) (g_woken (ops s i)) (g_frees (ops s i))
                                       (S (g_cancels (ops s i))) (g_disp (ops s i)) (g_out (ops s i))))
                   t (at_pc f FBlockedLock), [])
      | FBlockedLock =>
          (* second acquisition: status := Dropped whatever it is now *)
          match o_holder (ops s i) with
          | Some _ => (s, [])
          | None => (set_thr (set_op s i (o_dropped (ops s i) false)) t (call_done f), [])
          end
      | _ => fstep s t
      end
  | _ => fstep s t
  end.

Definition step_c06a (s : sys) (e : ev) : sys * list obs :=
  match e with
  | T O => rstep_with true s
  | T (S k) => fstep_c06a s k
  | K i => (kpost s i, [])
  end.

(** * Variant for the refutation of seeded change C02-a: [Multishot::next] takes the oldest result
    with [swap_remove(0)] (the LAST queued result takes its place) instead of [remove(0)]. Only the
    poll of a multishot operation with a non-empty result queue differs. *)
Definition swap_rest (q' : list Z) : list Z :=
  match rev q' with [] => [] | x :: r => x :: rev r end.

Definition fstep_c02a (s : sys) (t : nat) : sys * list obs :=
  let f := thr s t in
  match f_pc f, f_prog f with
  | (FStart | FSpin), Poll i w :: _ =>
      let o := ops s i in
      match o_holder o, o_kind o, o_st o, o_q o with
      | None, Multi, (Running | Done), v :: q' =>
          (set_thr (set_op s i (o_item o v (swap_rest q'))) t (call_done f), [OReady i v])
      | _, _, _, _ => fstep s t
      end
  | _, _ => fstep s t
  end.

Definition step_c02a (s : sys) (e : ev) : sys * list obs :=
  match e with
  | T O => rstep_with true s
  | T (S k) => fstep_c02a s k
  | K i => (kpost s i, [])
  end.

(** * Variant for the refutation of seeded change C06-b: [Shared::update] on a Dropped operation
    that is not multishot releases the state on ANY completion ("singleshot operations get a single
    completion"), also on the result completion (F_MORE) of a two-step operation. *)
Definition o_update_c06b (i : nat) (o : op) (c : cqe) : op * list obs * bool :=
  match o_st o, o_kind o with
  | Dropped, (Single | TwoStep) => (o_free (o_seen o c), [OFree i (o_started o)], negb (o_alloc o))
  | _, _ => o_update i o c
  end.

Definition step_c06b (s : sys) (e : ev) : sys * list obs :=
  match e with
  | T O => rstep_gen o_update_c06b true s
  | T (S k) => fstep s k
  | K i => (kpost s i, [])
  end.

(** * Correspondence driver *)

(** Hook-B code of the scheduling point a thread is stopped at (src/verif.rs [points]; 100 is
    the driver's own point). *)
Definition rpc_code (p : rpc) : Z :=
  match p with
  | RIdle | RLoadCqT | REnterH | REnterT | RWbH | RWbT | RLoadCqT2 => 4   (* LOAD_KERNEL_SHARED *)
  | RSetPolling | RClearPolling => 8                                      (* POLLING_STATE *)
  | RWbTry => 3                                                           (* TRY_LOCK *)
  | RWbLock | RDisp => 1                                                  (* LOCK *)
  | RDispSpin => 2                                                        (* LOCK_SPIN *)
  | RStoreHead => 6                                                       (* STORE_CQ_HEAD *)
  end.

Definition fthread_code (f : fthread) : Z :=
  match f_pc f with
  | FStart => match f_prog f with
              | [] => (-9)%Z
              | Yield :: _ => 100
              | _ :: _ => 1
              end
  | FSubLock | FBlockedLock => 1
  | FSpin | FSubSpin => 2
  | FAddH1 | FAddT1 | FAddH2 | FAddT2 => 4
  | FFill => 9                                                            (* FILL_SQE *)
  | FStore => 5                                                           (* STORE_SQ_TAIL *)
  end.

Definition here (s : sys) (e : ev) : Z :=
  match e with
  | T O => match r_pc s, r_polls s with RIdle, O => (-9)%Z | p, _ => rpc_code p end
  | T (S k) => fthread_code (thr s k)
  | K _ => 200
  end.

Definition obs_z (o : obs) : list Z :=
  match o with
  | OPending _ _ | OParked _ _ => [10]
  | OReady _ v => [11; v]
  | OEnd _ => [13]
  | OPanic => [14]
  | OConsumed (Submit i) => [20; Z.of_nat i]
  | OConsumed (Cancel i) => [21; Z.of_nat i]
  | OWake w | OWakeB w => [30; nz w]
  | OFree i true => [40; Z.of_nat i]
  | OFree _ false => []      (* never submitted: the harness does not know the address of the box *)
  end%Z.

(** Within one segment the harness logs results and wake-ups as they happen and reads the
    kernel's and the allocator's logs at the end of the segment. *)
Definition is_kernel (o : obs) : bool := match o with OConsumed _ => true | _ => false end.
Definition is_free (o : obs) : bool := match o with OFree _ _ => true | _ => false end.
Definition grouped (o : list obs) : list obs :=
  filter (fun x => negb (is_kernel x || is_free x)) o ++ filter is_kernel o ++ filter is_free o.

(** Per executed step: marker, the code of the scheduling point the model expects the thread to
    be resumed from, what the segment did. *)
Fixpoint run_steps (s : sys) (es : list ev) : sys * list Z :=
  match es with
  | [] => (s, [])
  | e :: r =>
      let '(s1, out) := step s e in
      let '(s2, o) := run_steps s1 r in
      (s2, ((-1) :: here s e :: flat_map obs_z (grouped out))%Z ++ o)
  end.

Fixpoint calls_left (s : sys) (k : nat) : nat :=
  match k with
  | O => 0
  | S k' => length (f_prog (thr s k')) + calls_left s k'
  end%nat.

Fixpoint box_flags (s : sys) (n : nat) : list Z :=
  match n with
  | O => []
  | S n' => box_flags s n' ++ [bz (o_alloc (ops s n') || negb (o_started (ops s n')))]
  end.

Record racecase := {
  rc_cap : N;
  rc_auto : bool;
  rc_nops : nat;
  rc_kinds : list kind;
  rc_canc : list bool;
  rc_scripts : list (list cqe);
  rc_polls : nat;
  rc_progs : list (list call);
  rc_events : list ev;
}.

(** After the replay: calls not made, polls not made, pending submissions, unprocessed
    completions, requests in flight; then per operation whether its box is still allocated. *)
Definition run_racecase (c : racecase) : list Z :=
  let '(s, o) := run_steps (init (rc_cap c) (rc_auto c) (rc_kinds c) (rc_canc c) (rc_scripts c) (rc_polls c) (rc_progs c))
                           (rc_events c) in
  o ++ [(-2)%Z; Z.of_nat (calls_left s (length (rc_progs c))); Z.of_nat (r_polls s);
        Z.of_nat (length (sq s)); Z.of_nat (length (cq s)); Z.of_nat (length (inflight s))]
    ++ [(-3)%Z] ++ box_flags s (rc_nops c).

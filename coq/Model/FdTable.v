(** Model of descriptor ownership: src/fd.rs (the [AsyncFd] word, [fd()], [kind()],
    [from_raw]), src/io_uring/fd.rs ([Drop for AsyncFd], [ToDirect]/[ToFd], [Kind::create_flags]),
    src/io_uring/io.rs ([close_file_fd], [close_direct_fd], [CloseOp]), src/io/mod.rs
    ([AsyncFd::close], the standard-stream wrappers) and the [map_ok] of every operation that
    produces a descriptor (open, socket, accept, multishot accept, pipe, the two conversions),
    the synchronous pipe2(2) fallback of the pipe operation (src/io_uring/pipe.rs,
    [PipeOp::fallback]: taken when the kernel answers IORING_OP_PIPE with EINVAL, Linux < 6.16),
    together with the part of the operation life cycle of src/io_uring/op.rs that decides what
    happens to a descriptor carried by a completion ([Shared::update], [poll_inner],
    [State::drop]).

    The kernel side is a pair of descriptor tables (regular descriptors, direct slots) kept as
    one list of open descriptors [(number, kind)], the requests it has in flight, and the
    io_uring ABI reading of a CLOSE request / [close(2)] / IORING_REGISTER_FILES_UPDATE.
    The rings are FIFO lists (their 32-bit mechanics are C04/C05). One model step is one call
    of the public API or one kernel action. The code is transcribed as it is: what happens to
    a descriptor delivered to an operation whose future is gone (H12) and to a [close()]
    future that is dropped before its first submission (H19) is part of the model.
    Executable definitions only. *)
From A10 Require Import Base.Word Base.Run.

(** * The descriptor word (src/fd.rs) *)

Inductive kind := Regular | Direct.

Definition kind_eqb (a b : kind) : bool :=
  match a, b with Regular, Regular | Direct, Direct => true | _, _ => false end.

(** A kernel-side descriptor: number (file descriptor or slot index) and table. *)
Definition desc : Type := (N * kind)%type.
Definition desc_eqb (a b : desc) : bool := N.eqb (fst a) (fst b) && kind_eqb (snd a) (snd b).

(** [AsyncFd::from_raw]: [fd | (1 << 31)] for a direct descriptor. Kernel results are
    non-negative [i32]s, so the or is an addition; the word is the [u32] bit pattern. *)
Definition mk_word (fd : N) (k : kind) : N :=
  match k with Regular => fd | Direct => fd + two31 end.
(** [AsyncFd::fd]: [self.fd & !(1 << 31)]. *)
Definition fd_of (w : N) : N := w mod two31.
(** [AsyncFd::kind]: [self.fd.is_negative()]. *)
Definition kind_of (w : N) : kind := if w / two31 =? 0 then Regular else Direct.

(** * Closing: what a10 asks for (src/io_uring/io.rs, src/io_uring/fd.rs) *)

(** The fields of a CLOSE submission that name the target, and whether it carries
    IOSQE_FIXED_FILE (everything else is zeroed by [Submission::reset]). Neither [Drop for AsyncFd]
    nor [CloseOp] goes through [fd::Kind::use_flags]: the flag is never set, whatever the kind —
    a direct descriptor is named by [file_index], not by the flag. *)
Record csqe := { sqe_fd : N; sqe_file_index : N; sqe_fixed : bool }.

(** [close_file_fd]: regular => [sqe.fd = fd]; direct => [file_index = (fd + 1) as u32]. *)
Definition close_sqe (fd : N) (k : kind) : csqe :=
  match k with
  | Regular => {| sqe_fd := fd; sqe_file_index := 0; sqe_fixed := false |}
  | Direct => {| sqe_fd := 0; sqe_file_index := trunc32 (fd + 1); sqe_fixed := false |}
  end.

(** The synchronous fallback of [Drop for AsyncFd] when the submission queue is full:
    [close(fd)] for a regular descriptor, [close_direct_fd] =
    IORING_REGISTER_FILES_UPDATE [{offset = fd, fds = [-1]}] for a direct one. *)
Inductive syscall := SysClose (fd : N) | FilesUpdate (offset : N) (v : Z).
Definition fallback_close (fd : N) (k : kind) : syscall :=
  match k with Regular => SysClose fd | Direct => FilesUpdate fd (-1) end.

(** * Closing: what the kernel does with it (io_uring ABI, independent of the above) *)

(** io_close_prep / io_close: a request with IOSQE_FIXED_FILE is refused (EBADF: nothing is
    closed); [file_index = 0] closes the regular descriptor [sqe.fd]; otherwise it clears direct
    slot [file_index - 1]; both set is refused with EINVAL. *)
Definition kernel_close_target (q : csqe) : option desc :=
  if sqe_fixed q then None
  else if sqe_file_index q =? 0 then Some (sqe_fd q, Regular)
  else if sqe_fd q =? 0 then Some (sqe_file_index q - 1, Direct)
  else None.

(** [close(2)] closes a regular descriptor; a files update storing [-1] clears the slot. *)
Definition kernel_sys_target (a : syscall) : option desc :=
  match a with
  | SysClose fd => Some (fd, Regular)
  | FilesUpdate off v => if (v =? -1)%Z then Some (off, Direct) else None
  end.

(** * State *)

(** An [AsyncFd] value (or a standard-stream wrapper around one, [h_std]): gone once it has
    been dropped or moved into [close()]. *)
Record handle := { h_word : N; h_std : bool; h_live : bool }.

(** Operations that produce descriptors. The [nat] is the handle the future borrows. *)
Inductive cop :=
  | COpen (k : kind) | CSocket (k : kind) | CPipe (k : kind)
  | CAccept (h : nat) | CMultiAccept (h : nat)
  | CToDirect (h : nat) | CToFd (h : nat).

Definition cop_src (c : cop) : option nat :=
  match c with
  | CAccept h | CMultiAccept h | CToDirect h | CToFd h => Some h
  | _ => None
  end.
Definition cop_multi (c : cop) : bool := match c with CMultiAccept _ => true | _ => false end.
Definition cop_pair (c : cop) : bool := match c with CPipe _ => true | _ => false end.

(** A completion for a creator: the descriptor numbers it carries (through [res], or written
    through [sqe.addr] for pipe and to_direct_descriptor) or an error; IORING_CQE_F_MORE. *)
Inductive result :=
  | RFds (fds : list N)
  | RErr (e : Z)
  (* [-EINVAL] for IORING_OP_PIPE. The completion carries no descriptor; [fds] is the
     environment's answer to the pipe2(2) call that [PipeOp::fallback] makes if and when the
     future takes this result (ghost until then: nothing is open because of it). *)
  | RInval (fds : list N).
Definition cqe : Type := (result * bool)%type.
Definition cqe_fds (c : cqe) : list N := match fst c with RFds fds => fds | RErr _ | RInval _ => [] end.
Definition cqes_fds (cs : list cqe) : list N := flat_map cqe_fds cs.

(** [Status] of op.rs. [ODropped]: the future was dropped while the operation was running;
    [OGone]: the state has been freed. *)
Inductive ost := ONotStarted | ORunning | ODone | OComplete | ODropped | OGone.

Record op := {
  o_cop : cop;
  o_kind : kind;          (* kind requested through create_flags and used by map_ok *)
  o_st : ost;
  o_kin : bool;           (* kernel side: the request is in flight *)
  o_posted : list cqe;    (* completions in the completion ring, not yet processed *)
  o_res : list cqe;       (* results stored by Shared::update, not yet taken by the future *)
}.

Definition fut_alive (o : op) : bool :=
  match o_st o with ODropped | OGone => false | _ => true end.

(** The future returned by [AsyncFd::close]: it holds [(fd, kind)] as plain arguments. *)
Inductive cst := CNotStarted | CRunning | CDone | CFinished | CGone.
Record cfut := { c_fd : N; c_kind : kind; c_st : cst }.

(** Submission queue entries. *)
Inductive qent :=
  | QCloseBg (q : csqe)              (* Drop for AsyncFd: user_data 3, CQE_SKIP_SUCCESS *)
  | QCloseOp (c : nat) (q : csqe)    (* CloseOp of close future [c] *)
  | QCreate (i : nat)
  | QCancel (i : nat)                (* ASYNC_CANCEL queued by dropping a running creator *)
  | QCancelClose (c : nat).          (* … by dropping a running close future *)

Record st := {
  cap : N;                 (* submission queue entries *)
  nslots : N;              (* size of the direct descriptor table; 0 = none registered *)
  handles : list handle;
  ops : list op;
  closes : list cfut;
  sq : list qent;
  kopen : list desc;       (* kernel: descriptors open now (besides the standard streams) *)
  (* ghost history *)
  issued : list desc;      (* every descriptor the kernel handed out *)
  closed : list desc;      (* every close that hit an open descriptor *)
  bad : list desc;         (* every close that did not (EBADF, or someone else's descriptor) *)
  leak12 : list desc;      (* delivered to an operation whose future was gone (H12) *)
  leak19 : list desc;      (* owned by a close future dropped before its first submission (H19) *)
}.

Definition init (cap0 nslots0 : N) : st :=
  {| cap := cap0; nslots := nslots0; handles := []; ops := []; closes := []; sq := [];
     kopen := []; issued := []; closed := []; bad := []; leak12 := []; leak19 := [] |}.

Definition set_handles (s : st) (x : list handle) : st :=
  {| cap := cap s; nslots := nslots s; handles := x; ops := ops s; closes := closes s;
     sq := sq s; kopen := kopen s; issued := issued s; closed := closed s; bad := bad s;
     leak12 := leak12 s; leak19 := leak19 s |}.
Definition set_ops (s : st) (x : list op) : st :=
  {| cap := cap s; nslots := nslots s; handles := handles s; ops := x; closes := closes s;
     sq := sq s; kopen := kopen s; issued := issued s; closed := closed s; bad := bad s;
     leak12 := leak12 s; leak19 := leak19 s |}.
Definition set_closes (s : st) (x : list cfut) : st :=
  {| cap := cap s; nslots := nslots s; handles := handles s; ops := ops s; closes := x;
     sq := sq s; kopen := kopen s; issued := issued s; closed := closed s; bad := bad s;
     leak12 := leak12 s; leak19 := leak19 s |}.
Definition set_sq (s : st) (x : list qent) : st :=
  {| cap := cap s; nslots := nslots s; handles := handles s; ops := ops s; closes := closes s;
     sq := x; kopen := kopen s; issued := issued s; closed := closed s; bad := bad s;
     leak12 := leak12 s; leak19 := leak19 s |}.
Definition add_leak12 (s : st) (x : list desc) : st :=
  {| cap := cap s; nslots := nslots s; handles := handles s; ops := ops s; closes := closes s;
     sq := sq s; kopen := kopen s; issued := issued s; closed := closed s; bad := bad s;
     leak12 := leak12 s ++ x; leak19 := leak19 s |}.
Definition add_leak19 (s : st) (x : list desc) : st :=
  {| cap := cap s; nslots := nslots s; handles := handles s; ops := ops s; closes := closes s;
     sq := sq s; kopen := kopen s; issued := issued s; closed := closed s; bad := bad s;
     leak12 := leak12 s; leak19 := leak19 s ++ x |}.

Fixpoint set_nth {A : Type} (l : list A) (i : nat) (x : A) : list A :=
  match l, i with
  | [], _ => []
  | _ :: r, O => x :: r
  | y :: r, S j => y :: set_nth r j x
  end.

Definition with_live (h : handle) (b : bool) : handle :=
  {| h_word := h_word h; h_std := h_std h; h_live := b |}.
Definition with_ost (o : op) (x : ost) : op :=
  {| o_cop := o_cop o; o_kind := o_kind o; o_st := x; o_kin := o_kin o;
     o_posted := o_posted o; o_res := o_res o |}.
Definition with_kin (o : op) (x : bool) : op :=
  {| o_cop := o_cop o; o_kind := o_kind o; o_st := o_st o; o_kin := x;
     o_posted := o_posted o; o_res := o_res o |}.
Definition with_posted (o : op) (x : list cqe) : op :=
  {| o_cop := o_cop o; o_kind := o_kind o; o_st := o_st o; o_kin := o_kin o;
     o_posted := x; o_res := o_res o |}.
Definition with_res (o : op) (x : list cqe) : op :=
  {| o_cop := o_cop o; o_kind := o_kind o; o_st := o_st o; o_kin := o_kin o;
     o_posted := o_posted o; o_res := x |}.
Definition with_cst (f : cfut) (x : cst) : cfut :=
  {| c_fd := c_fd f; c_kind := c_kind f; c_st := x |}.

Definition set_handle (s : st) (i : nat) (h : handle) : st := set_handles s (set_nth (handles s) i h).
Definition set_op (s : st) (i : nat) (o : op) : st := set_ops s (set_nth (ops s) i o).
Definition set_close (s : st) (i : nat) (f : cfut) : st := set_closes s (set_nth (closes s) i f).

(** * Kernel actions *)

(** The standard streams are open from the start and are not the ring's to hand out. *)
Definition is_std (d : desc) : bool :=
  match snd d with Regular => fst d <? 3 | Direct => false end.

Definition memd (d : desc) (l : list desc) : bool := existsb (desc_eqb d) l.
Fixpoint remove_one (d : desc) (l : list desc) : list desc :=
  match l with
  | [] => []
  | x :: r => if desc_eqb d x then r else x :: remove_one d r
  end.

(** The kernel closes [d]: an open descriptor leaves the table; anything else is a failed close
    (it would fail with EBADF, or hit a descriptor that belongs to somebody else). *)
Definition kclose (s : st) (d : desc) : st :=
  if memd d (kopen s) then
    {| cap := cap s; nslots := nslots s; handles := handles s; ops := ops s; closes := closes s;
       sq := sq s; kopen := remove_one d (kopen s); issued := issued s;
       closed := closed s ++ [d]; bad := bad s; leak12 := leak12 s; leak19 := leak19 s |}
  else
    {| cap := cap s; nslots := nslots s; handles := handles s; ops := ops s; closes := closes s;
       sq := sq s; kopen := kopen s; issued := issued s; closed := closed s;
       bad := bad s ++ [d]; leak12 := leak12 s; leak19 := leak19 s |}.
Definition kclose_opt (s : st) (t : option desc) : st :=
  match t with Some d => kclose s d | None => s end.

(** What the kernel may hand out next: a non-negative [i32], not open at the moment, not one
    of the standard streams, and for a direct descriptor a slot of the registered table. *)
Definition fresh (s : st) (d : desc) : bool :=
  (fst d <? two31) && negb (memd d (kopen s)) && negb (is_std d)
  && match snd d with Direct => fst d <? nslots s | Regular => true end.

Definition issue (s : st) (ds : list desc) : st :=
  {| cap := cap s; nslots := nslots s; handles := handles s; ops := ops s; closes := closes s;
     sq := sq s; kopen := kopen s ++ ds; issued := issued s ++ ds; closed := closed s;
     bad := bad s; leak12 := leak12 s; leak19 := leak19 s |}.

(** * a10 side *)

Definition room (s : st) : bool := N.of_nat (length (sq s)) <? cap s.
Definition push (s : st) (e : qent) : st := set_sq s (sq s ++ [e]).

Definition kz (k : kind) : Z := match k with Regular => 0%Z | Direct => 1%Z end.

Definition wrap (fd : N) (k : kind) : handle :=
  {| h_word := mk_word fd k; h_std := false; h_live := true |}.
Definition add_handle (s : st) (h : handle) : st := set_handles s (handles s ++ [h]).

(** [map_ok]: every descriptor number of the result becomes an [AsyncFd] of kind [k]. The
    observation is what the new value reports through [kind()] and [fd()]. *)
Fixpoint hand_out (s : st) (k : kind) (fds : list N) : st * list Z :=
  match fds with
  | [] => (s, [])
  | fd :: r =>
      let h := wrap fd k in
      let '(s', o) := hand_out (add_handle s h) k r in
      (s', [11%Z; kz (kind_of (h_word h)); nz (fd_of (h_word h))] ++ o)
  end.

Definition pair_kind (k : kind) (fds : list N) : list desc := map (fun fd => (fd, k)) fds.

(** A live future borrows the [AsyncFd] it was made from. *)
Definition borrows (h : nat) (o : op) : bool :=
  fut_alive o && match cop_src (o_cop o) with Some h' => Nat.eqb h h' | None => false end.
Definition borrowed (s : st) (h : nat) : bool := existsb (borrows h) (ops s).

Definition live_handle (s : st) (h : nat) : option handle :=
  match nth_error (handles s) h with
  | Some x => if h_live x then Some x else None
  | None => None
  end.

(** Creating the future. The kind asked of the kernel ([create_flags]) and used for the result
    ([map_ok]): the builder's for open/socket/pipe, the listener's for accept ([fd.kind()],
    read from the borrowed, immutable [AsyncFd]), the other one for the conversions (which
    refuse — a debug assertion — to start from the wrong kind). *)
Definition new_op_kind (s : st) (c : cop) : option kind :=
  match c with
  | COpen k | CSocket k | CPipe k => Some k
  | CAccept h | CMultiAccept h =>
      match live_handle s h with Some x => Some (kind_of (h_word x)) | None => None end
  | CToDirect h =>
      match live_handle s h with
      | Some x => match kind_of (h_word x) with Regular => Some Direct | Direct => None end
      | None => None
      end
  | CToFd h =>
      match live_handle s h with
      | Some x => match kind_of (h_word x) with Direct => Some Regular | Regular => None end
      | None => None
      end
  end.

Definition new_op (s : st) (c : cop) : st :=
  match new_op_kind s c with
  | Some k =>
      set_ops s (ops s ++ [{| o_cop := c; o_kind := k; o_st := ONotStarted; o_kin := false;
                              o_posted := []; o_res := [] |}])
  | None => s
  end.

(** One or two descriptors the kernel (or the process, for pipe2) may hand out together. *)
Definition all_fresh (s : st) (ds : list desc) : bool :=
  match ds with
  | [d] => fresh s d
  | [d1; d2] => fresh s d1 && fresh s d2 && negb (desc_eqb d1 d2)
  | _ => false
  end.

(** [PipeOp::fallback] wraps the two descriptors of pipe2(2) with [fd::Kind::File], whatever
    kind the builder asked for ("the returned fds are regular file descriptors, even if
    [Pipe::kind] was used to request direct descriptors", src/pipe.rs). *)
Definition pipe_fallback_kind (requested : kind) : kind := Regular.
(** The variant that passes the requested kind on to [map_ok] (seeded change C07-c); kept for
    the refutation lemma. *)
Definition pipe_fallback_kind_requested (requested : kind) : kind := requested.

(** The future takes result [c] (already removed from the state in [o']).
    [RInval]: the error arm of [poll_inner] calls [PipeOp::fallback], which — inside this poll,
    never earlier and not at all if the future is gone — calls pipe2(2). pipe2 creates two
    descriptors in the PROCESS descriptor table (kind [Regular], numbers chosen by the
    environment) or fails; numbers that the process could not be given at this moment stand for
    a failing call (EMFILE). [fbk] says which kind the two numbers are wrapped with. *)
Definition deliver_with (fbk : kind -> kind) (s : st) (i : nat) (o' : op) (c : cqe) : st * list Z :=
  let s1 := set_op s i o' in
  match fst c with
  | RFds fds => hand_out s1 (o_kind o') fds
  | RErr e => (s1, [12; (- e)]%Z)
  | RInval fds =>
      let ds := pair_kind Regular fds in
      if all_fresh s1 ds then hand_out (issue s1 ds) (fbk (o_kind o')) fds
      else (s1, [12; (-24)]%Z)
  end.
Definition deliver := deliver_with pipe_fallback_kind.

(** [poll_inner] for a creator. *)
Definition poll_op_with (fbk : kind -> kind) (s : st) (i : nat) : st * list Z :=
  match nth_error (ops s) i with
  | None => (s, [])
  | Some o =>
      match o_st o with
      | ONotStarted =>
          if room s then (push (set_op s i (with_ost o ORunning)) (QCreate i), [10%Z])
          else (s, [10%Z])            (* QueueFull: parked, stays NotStarted *)
      | ORunning =>
          if cop_multi (o_cop o) then
            match o_res o with
            | c :: rest => deliver_with fbk s i (with_res o rest) c
            | [] => (s, [10%Z])
            end
          else (s, [10%Z])
      | ODone =>
          match o_res o with
          | c :: rest =>
              deliver_with fbk s i (with_ost (with_res o rest) (if cop_multi (o_cop o) then ODone else OComplete)) c
          | [] => (set_op s i (with_ost o OComplete), [if cop_multi (o_cop o) then 13%Z else 99%Z])
          end
      | OComplete => (s, [99%Z])      (* "polled Future after completion" *)
      | ODropped | OGone => (s, [])   (* no future to poll *)
      end
  end.
Definition poll_op := poll_op_with pipe_fallback_kind.

(** [State::drop]: whatever results the state still holds go with it — the descriptors in
    them are never wrapped, so nothing closes them. *)
Definition drop_op (s : st) (i : nat) : st :=
  match nth_error (ops s) i with
  | None => s
  | Some o =>
      if fut_alive o then
        let lost := pair_kind (o_kind o) (cqes_fds (o_res o)) in
        match o_st o with
        | ORunning =>
            let s1 := if room s then push s (QCancel i) else s in
            add_leak12 (set_op s1 i (with_ost (with_res o []) ODropped)) lost
        | _ => add_leak12 (set_op s i (with_ost (with_res o []) OGone)) lost
        end
      else s
  end.

(** The kernel completes creator [i] with descriptors of the kind the request asked for. *)
Definition kcomplete (s : st) (i : nat) (fd fd2 : N) (more : bool) : st :=
  match nth_error (ops s) i with
  | None => s
  | Some o =>
      if o_kin o then
        let fds := if cop_pair (o_cop o) then [fd; fd2] else [fd] in
        let ds := pair_kind (o_kind o) fds in
        if all_fresh s ds then
          let m := cop_multi (o_cop o) && more in
          set_op (issue s ds) i (with_kin (with_posted o (o_posted o ++ [(RFds fds, m)])) m)
        else s
      else s
  end.

(** Errors that a10 hands to the caller as they are: not EINTR / ECANCELED (restarted: C09) and
    not EINVAL (the kernel does not know the opcode: for pipe see [kpipe_inval] below; for the
    other creators a10 reports [ErrorKind::Unsupported] — an error without a descriptor like
    any other, not generated). *)
Definition plain_errno (e : Z) : bool :=
  (0 <? e)%Z && (e <? 4096)%Z && negb (e =? 4)%Z && negb (e =? 125)%Z && negb (e =? 22)%Z.

Definition kfail (s : st) (i : nat) (e : Z) : st :=
  match nth_error (ops s) i with
  | None => s
  | Some o =>
      if o_kin o && plain_errno e then
        set_op s i (with_kin (with_posted o (o_posted o ++ [(RErr e, false)])) false)
      else s
  end.

(** The kernel answers the pipe request of operation [i] with EINVAL (IORING_OP_PIPE is
    unknown before Linux 6.16). Nothing is created: [fd], [fd2] are recorded as what pipe2(2)
    will answer if [PipeOp::fallback] gets to run (see [deliver_with]). *)
Definition kpipe_inval (s : st) (i : nat) (fd fd2 : N) : st :=
  match nth_error (ops s) i with
  | None => s
  | Some o =>
      if o_kin o && cop_pair (o_cop o) then
        set_op s i (with_kin (with_posted o (o_posted o ++ [(RInval [fd; fd2], false)])) false)
      else s
  end.

(** [Shared::update] for one completion: returns the descriptors nobody will ever wrap and
    whether the code panicked ([unreachable!]). *)
Definition update1 (o : op) (c : cqe) : op * list N * bool :=
  match o_st o with
  | ORunning | ODone =>
      (with_ost (with_res o (o_res o ++ [c])) (if snd c then o_st o else ODone), [], false)
  | ODropped =>
      (* "Future is dropped and the operation is complete, we can safely drop the state":
         the result is not looked at. *)
      (with_ost o (if snd c then ODropped else OGone), cqe_fds c, false)
  | ONotStarted | OComplete | OGone => (o, cqe_fds c, true)
  end.

Fixpoint updates (o : op) (cs : list cqe) : op * list N * bool :=
  match cs with
  | [] => (o, [], false)
  | c :: r =>
      let '(o1, l1, p1) := update1 o c in
      let '(o2, l2, p2) := updates o1 r in
      (o2, l1 ++ l2, p1 || p2)
  end.

Definition process_op (o : op) : op * list N * bool := updates (with_posted o []) (o_posted o).

(** The completion loop of [Completions::poll]. *)
Definition process_all (s : st) : st * list Z :=
  let rs := map process_op (ops s) in
  let ops' := map (fun r => fst (fst r)) rs in
  let lost := flat_map (fun r => pair_kind (o_kind (fst (fst r))) (snd (fst r))) rs in
  let panic := existsb (fun r => snd r) rs in
  (add_leak12 (set_ops s ops') lost, if panic then [99%Z] else []).

(** The kernel consumes one submission. *)
Definition exec (s : st) (e : qent) : st * list Z :=
  match e with
  | QCloseBg q =>
      (kclose_opt s (kernel_close_target q), [20; 1; nz (sqe_fd q); nz (sqe_file_index q); bz (sqe_fixed q)]%Z)
  | QCloseOp c q =>
      let s1 := kclose_opt s (kernel_close_target q) in
      (match nth_error (closes s1) c with
       | Some f => match c_st f with CRunning => set_close s1 c (with_cst f CDone) | _ => s1 end
       | None => s1
       end, [20; 0; nz (sqe_fd q); nz (sqe_file_index q); bz (sqe_fixed q)]%Z)
  | QCreate i =>
      (match nth_error (ops s) i with
       | Some o => set_op s i (with_kin o true)
       | None => s
       end, [21; Z.of_nat i]%Z)
  | QCancel i => (s, [22; Z.of_nat i]%Z)          (* never wins here: the request stays in flight *)
  | QCancelClose c => (s, [23; Z.of_nat c]%Z)
  end.

Fixpoint consume (fuel : nat) (s : st) : st * list Z :=
  match fuel with
  | O => (s, [])
  | S f =>
      match sq s with
      | [] => (s, [])
      | e :: r =>
          let '(s1, o1) := exec (set_sq s r) e in
          let '(s2, o2) := consume f s1 in
          (s2, o1 ++ o2)
      end
  end.

(** [Ring::poll] with a zero timeout: the kernel is entered — and the whole submission queue
    consumed — only when no completion is waiting; then every waiting completion is processed. *)
Definition cq_empty (s : st) : bool :=
  forallb (fun o => match o_posted o with [] => true | _ => false end) (ops s).

Definition ring_poll (s : st) : st * list Z :=
  let '(s1, o1) := if cq_empty s then consume (length (sq s)) s else (s, []) in
  let '(s2, o2) := process_all s1 in
  (s2, o1 ++ o2).

Definition obs_sys (a : syscall) : list Z :=
  match a with
  | SysClose fd => [30; nz fd]%Z
  | FilesUpdate off v => [31; nz off; v]%Z
  end.

(** [Drop for AsyncFd] (and for the standard-stream wrappers, which only let go of the
    submission queue). *)
Definition drop_fd (s : st) (h : nat) : st * list Z :=
  match live_handle s h with
  | None => (s, [])
  | Some x =>
      if borrowed s h then (s, []) else
      let s1 := set_handle s h (with_live x false) in
      if h_std x then (s1, []) else
      let fd := fd_of (h_word x) in
      let k := kind_of (h_word x) in
      if room s1 then (push s1 (QCloseBg (close_sqe fd k)), [])
      else
        let a := fallback_close fd k in
        (kclose_opt s1 (kernel_sys_target a), obs_sys a)
  end.

(** [AsyncFd::close(self)]: the value is taken apart without running its destructor. *)
Definition close_fd (s : st) (h : nat) : st :=
  match live_handle s h with
  | None => s
  | Some x =>
      if borrowed s h || h_std x then s else
      set_closes (set_handle s h (with_live x false))
        (closes s ++ [{| c_fd := fd_of (h_word x); c_kind := kind_of (h_word x); c_st := CNotStarted |}])
  end.

Definition poll_close (s : st) (c : nat) : st * list Z :=
  match nth_error (closes s) c with
  | None => (s, [])
  | Some f =>
      match c_st f with
      | CNotStarted =>
          if room s then
            (push (set_close s c (with_cst f CRunning)) (QCloseOp c (close_sqe (c_fd f) (c_kind f))), [10%Z])
          else (s, [10%Z])
      | CRunning => (s, [10%Z])
      | CDone => (set_close s c (with_cst f CFinished), [14%Z])
      | CFinished => (s, [99%Z])
      | CGone => (s, [])
      end
  end.

Definition drop_close (s : st) (c : nat) : st :=
  match nth_error (closes s) c with
  | None => s
  | Some f =>
      match c_st f with
      | CNotStarted =>
          (* nothing was submitted and the arguments are plain integers: nothing closes it *)
          add_leak19 (set_close s c (with_cst f CGone)) [(c_fd f, c_kind f)]
      | CRunning =>
          let s1 := if room s then push s (QCancelClose c) else s in
          set_close s1 c (with_cst f CGone)
      | CDone | CFinished => set_close s c (with_cst f CGone)
      | CGone => s
      end
  end.

(** What the code did before the repair of H30 (cabaa94) when the kernel answered the CLOSE of a
    [close()] future with EINTR (the file's flush was interrupted; as with close(2) the descriptor
    is closed all the same): the generic restart of interrupted operations put the future back to
    "not started", and its next poll submitted the same CLOSE again. Not part of [step]: the code as
    it is returns the error to the caller and the future has finished (for the descriptor accounting
    that is [CDone], like a CLOSE answered with 0). Kept for the refutation lemma. *)
Definition restart_close_h30 (s : st) (c : nat) : st :=
  match nth_error (closes s) c with
  | Some f => match c_st f with CDone => set_close s c (with_cst f CNotStarted) | _ => s end
  | None => s
  end.

(** [AsyncFd::from_raw_fd] on a descriptor opened outside the ring. *)
Definition adopt (s : st) (fd : N) : st :=
  if fresh s (fd, Regular) then add_handle (issue s [(fd, Regular)]) (wrap fd Regular) else s.

(** [a10::io::stdin / stdout / stderr]. *)
Definition std_stream (s : st) (n : N) : st :=
  if n <? 3 then add_handle s {| h_word := mk_word n Regular; h_std := true; h_live := true |}
  else s.

Inductive event :=
  | Adopt (fd : N)
  | StdStream (n : N)
  | NewOp (c : cop)
  | PollOp (i : nat)
  | DropOp (i : nat)
  | KComplete (i : nat) (fd fd2 : N) (more : bool)
  | KFail (i : nat) (e : Z)
  | KPipeInval (i : nat) (fd fd2 : N)
  | RingPoll
  | DropFd (h : nat)
  | CloseFd (h : nat)
  | PollClose (c : nat)
  | DropClose (c : nat).

Definition step_with (fbk : kind -> kind) (s : st) (e : event) : st * list Z :=
  match e with
  | Adopt fd => (adopt s fd, [])
  | StdStream n => (std_stream s n, [])
  | NewOp c => (new_op s c, [])
  | PollOp i => poll_op_with fbk s i
  | DropOp i => (drop_op s i, [])
  | KComplete i fd fd2 more => (kcomplete s i fd fd2 more, [])
  | KFail i e => (kfail s i e, [])
  | KPipeInval i fd fd2 => (kpipe_inval s i fd fd2, [])
  | RingPoll => ring_poll s
  | DropFd h => drop_fd s h
  | CloseFd h => (close_fd s h, [])
  | PollClose c => poll_close s c
  | DropClose c => (drop_close s c, [])
  end.
(** The code as it is. *)
Definition step := step_with pipe_fallback_kind.
(** The fallback wrapping its descriptors with the requested kind (not the code; refuted). *)
Definition step_requested_kind := step_with pipe_fallback_kind_requested.

(** * Who holds an open descriptor *)

Definition hdesc (h : handle) : list desc :=
  if h_live h && negb (h_std h) then [(fd_of (h_word h), kind_of (h_word h))] else [].
Definition opdescs (o : op) : list desc :=
  pair_kind (o_kind o) (cqes_fds (o_posted o) ++ cqes_fds (o_res o)).
Definition cdesc (f : cfut) : list desc :=
  match c_st f with CNotStarted => [(c_fd f, c_kind f)] | _ => [] end.
Definition opt_list {A : Type} (x : option A) : list A := match x with Some a => [a] | None => [] end.
Definition qdesc (e : qent) : list desc :=
  match e with
  | QCloseBg q | QCloseOp _ q => opt_list (kernel_close_target q)
  | _ => []
  end.

(** Held by a live [AsyncFd]. *)
Definition owned (s : st) : list desc := flat_map hdesc (handles s).
(** Carried by a completion the creator's future has not taken yet. *)
Definition in_results (s : st) : list desc := flat_map opdescs (ops s).
(** Held by a [close()] future that has not submitted its request yet. *)
Definition closing (s : st) : list desc := flat_map cdesc (closes s).
(** Named by a CLOSE request in the submission queue. *)
Definition queued_closes (s : st) : list desc := flat_map qdesc (sq s).

Definition owners (s : st) : list desc :=
  owned s ++ in_results s ++ closing s ++ queued_closes s ++ leak12 s ++ leak19 s.

(** Nothing is pending any more: every [AsyncFd] is gone (dropped, or closed with the close
    future at least submitted), every result has been taken, the queue has been consumed. *)
Definition quiescent (s : st) : bool :=
  match owned s, in_results s, closing s, sq s with
  | [], [], [], [] => true
  | _, _, _, _ => false
  end.

(** * Correspondence driver: one marker per event, then what the event let the harness see. *)
Fixpoint run_obs (s : st) (es : list event) : list Z :=
  match es with
  | [] => []
  | e :: r => let '(s1, o) := step s e in (1%Z :: o) ++ run_obs s1 r
  end.

Record fdcase := { fc_cap : N; fc_nslots : N; fc_events : list event }.
Definition run_fdcase (c : fdcase) : list Z := run_obs (init (fc_cap c) (fc_nslots c)) (fc_events c).

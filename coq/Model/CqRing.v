(** Model of the completion side of the ring: src/io_uring/cq.rs [Completions::poll] and
    [Completion::process]'s filter, against a kernel that posts CQEs under contract K3
    (writes only into free slots, then publishes by advancing the tail; overflow list when the
    ring is full — IORING_FEAT_NODROP).

    The 32-bit counters are modelled as they are: values below 2^32 with wrapping arithmetic,
    comparisons for (in)equality only (the code after the repair of H3). A poll is split into
    begin / one step per entry / end so that kernel postings can interleave with it.

    Ghost fields ([g_*]) record the unbounded history; no executable field ever reads them. *)
From A10 Require Import Base.Word Base.Run Gen.Consts.

Record cqe := { ud : N; res : Z; fl : N }.

Definition poison : cqe := {| ud := 0; res := (-24301)%Z; fl := 0 |}.

(** [Completion::process]: entries with IORING_CQE_F_SKIP or a reserved user_data are
    bookkeeping; no pointer is formed from them. *)
Definition is_reserved (u : N) : bool :=
  (u =? NO_USER_DATA) || (u =? WAKE_USER_DATA) || (u =? CANCEL_USER_DATA) || (u =? CLOSE_USER_DATA).
Definition is_internal (c : cqe) : bool :=
  negb (N.land (fl c) IORING_CQE_F_SKIP =? 0) || is_reserved (ud c).

Record cq := {
  len : N;                      (* number of entries, a power of two *)
  khead : N; ktail : N;         (* the shared words *)
  slots : N -> cqe;             (* entry array, index < len *)
  ovf : list cqe;               (* kernel-side overflow list *)
  polling : bool; uh : N; ut : N;  (* locals of the poll in progress *)
  (* ghost *)
  g_hpub : N;                   (* entries released to the kernel so far *)
  g_hu : N;                     (* entries processed so far *)
  g_tu : N;                     (* ghost value of the tail snapshot [ut] *)
  g_t : N;                      (* entries placed in the ring so far *)
  g_posted : list cqe;          (* those entries, in order *)
}.

Definition init (n h0 : N) : cq :=
  {| len := n; khead := h0; ktail := h0; slots := fun _ => poison; ovf := [];
     polling := false; uh := h0; ut := h0;
     g_hpub := 0; g_hu := 0; g_tu := 0; g_t := 0; g_posted := [] |}.

Definition has_room (s : cq) : bool := wsub32 (ktail s) (khead s) <? len s.

(** The kernel writes slot [tail & (len-1)] and then publishes the new tail. *)
Definition ring_put (s : cq) (c : cqe) : cq :=
  let i := (ktail s) mod (len s) in
  {| len := len s; khead := khead s; ktail := wadd32 (ktail s) 1;
     slots := fun j => if j =? i then c else slots s j;
     ovf := ovf s; polling := polling s; uh := uh s; ut := ut s;
     g_hpub := g_hpub s; g_hu := g_hu s; g_tu := g_tu s; g_t := g_t s + 1; g_posted := g_posted s ++ [c] |}.

Definition set_ovf (s : cq) (o : list cqe) : cq :=
  {| len := len s; khead := khead s; ktail := ktail s; slots := slots s; ovf := o;
     polling := polling s; uh := uh s; ut := ut s;
     g_hpub := g_hpub s; g_hu := g_hu s; g_tu := g_tu s; g_t := g_t s; g_posted := g_posted s |}.

Definition kpost (s : cq) (c : cqe) : cq :=
  match ovf s with
  | [] => if has_room s then ring_put s c else set_ovf s [c]
  | o => set_ovf s (o ++ [c])
  end.

(** Flushing the overflow list (done by the kernel on [enter]). *)
Fixpoint kflush_list (s : cq) (o : list cqe) : cq :=
  match o with
  | [] => set_ovf s []
  | c :: o' => if has_room s then kflush_list (ring_put s c) o' else set_ovf s o
  end.
Definition kflush (s : cq) : cq := kflush_list s (ovf s).

Definition set_user (s : cq) (p : bool) (h t : N) (dh : N) (gt : N) : cq :=
  {| len := len s; khead := khead s; ktail := ktail s; slots := slots s; ovf := ovf s;
     polling := p; uh := h; ut := t;
     g_hpub := g_hpub s; g_hu := g_hu s + dh; g_tu := gt; g_t := g_t s; g_posted := g_posted s |}.

(** [poll]: load head, load tail; when they are equal enter the kernel (which flushes) and
    load the tail again. *)
Definition poll_begin (s : cq) : cq :=
  if polling s then s   (* [poll] takes [&mut self]: a second poll cannot start inside one *)
  else
    let h := khead s in
    let t := ktail s in
    if h =? t then let s' := kflush s in set_user s' true h (ktail s') 0 (g_t s')
    else set_user s true h t 0 (g_t s).

(** One iteration of [while head != tail]. *)
Definition poll_step (s : cq) : cq * list cqe :=
  if polling s && negb (uh s =? ut s) then
    let c := slots s (N.land (uh s) (len s - 1)) in
    (set_user s true (wadd32 (uh s) 1) (ut s) 1 (g_tu s), if is_internal c then [] else [c])
  else (s, []).

Fixpoint poll_steps (n : nat) (s : cq) : cq * list cqe :=
  match n with
  | O => (s, [])
  | S n' => let '(s1, o1) := poll_step s in
            let '(s2, o2) := poll_steps n' s1 in (s2, o1 ++ o2)
  end.

(** Finish the loop, then store the head. *)
Definition poll_end (s : cq) : cq * list cqe :=
  if polling s then
    let '(s1, o) := poll_steps (N.to_nat (wsub32 (ut s) (uh s))) s in
    ({| len := len s1; khead := uh s1; ktail := ktail s1; slots := slots s1; ovf := ovf s1;
        polling := false; uh := uh s1; ut := ut s1;
        g_hpub := g_hu s1; g_hu := g_hu s1; g_tu := g_tu s1; g_t := g_t s1; g_posted := g_posted s1 |}, o)
  else (s, []).

Inductive ev := KPost (c : cqe) | PollBegin | PollStep | PollEnd.

Definition step (s : cq) (e : ev) : cq * list cqe :=
  match e with
  | KPost c => (kpost s c, [])
  | PollBegin => (poll_begin s, [])
  | PollStep => poll_step s
  | PollEnd => poll_end s
  end.

(** The code before the repair (H3): numeric comparisons and a non-wrapping increment. A
    whole poll at once; [None] is the debug-build panic. *)
Fixpoint drain_h3 (fuel : nat) (s : cq) (h t : N) (acc : list cqe) : N * list cqe :=
  match fuel with
  | O => (h, acc)
  | S f => if h <? t
           then let c := slots s (N.land h (len s - 1)) in
                drain_h3 f s (h + 1) t (if is_internal c then acc else acc ++ [c])
           else (h, acc)
  end.
Definition poll_h3 (s : cq) : list cqe :=
  let h := khead s in let t := ktail s in
  snd (drain_h3 (N.to_nat (len s)) s h t []).

(** * Correspondence driver.
    The harness script speaks in terms of the implementation's observable points: completions
    posted between [Ring::poll] calls, and, inside a [Ring::poll], completions posted right
    before the k-th operation completion of that poll is processed (the scheduling point at
    the operation's mutex) or right before the head is stored. The interpreter below expands a
    script into the events of [step]. Observation: [ud; res] per dispatched completion and,
    after each poll, the marker [-1] followed by the published head. *)
Inductive action :=
  | Post (cs : list cqe)
  | Poll (during : list (N * list cqe)) (at_end : list cqe)
  | PollErr (cs : list cqe) (errno : Z).
    (* a [Ring::poll] whose [io_uring_enter] (made only when the poll finds the queue empty) flushes,
       posts [cs] and then fails: the error is returned, nothing is dispatched, the head is not
       moved; when the poll does not enter the kernel it is an ordinary poll and [cs] arrives
       right after it *)

Definition obs_cqe (c : cqe) : list Z := [nz (ud c); res c].

Fixpoint posts_for (plan : list (N * list cqe)) (k : N) : list cqe :=
  match plan with
  | [] => []
  | (k', cs) :: r => if k' =? k then cs ++ posts_for r k else posts_for r k
  end.

Definition kposts (s : cq) (cs : list cqe) : cq := fold_left kpost cs s.

Fixpoint poll_loop (fuel : nat) (opk : N) (plan : list (N * list cqe)) (s : cq) (acc : list cqe)
  : cq * list cqe :=
  match fuel with
  | O => (s, acc)
  | S f =>
      if uh s =? ut s then (s, acc)
      else
        let c := slots s (N.land (uh s) (len s - 1)) in
        if is_internal c then
          let '(s1, o) := step s PollStep in poll_loop f opk plan s1 (acc ++ o)
        else
          let s' := kposts s (posts_for plan opk) in
          let '(s1, o) := step s' PollStep in poll_loop f (opk + 1) plan s1 (acc ++ o)
  end.

Definition run_poll (s : cq) (plan : list (N * list cqe)) (at_end : list cqe) : cq * list Z :=
  let s0 := fst (step s PollBegin) in
  let '(s1, o1) := poll_loop (N.to_nat (wsub32 (ut s0) (uh s0))) 0 plan s0 [] in
  let s2 := kposts s1 at_end in
  let '(s3, o3) := step s2 PollEnd in
  (s3, flat_map obs_cqe (o1 ++ o3) ++ [(-1)%Z; nz (khead s3)]).

Definition run_action (s : cq) (a : action) : cq * list Z :=
  match a with
  | Post cs => (kposts s cs, [])
  | Poll plan at_end => run_poll s plan at_end
  | PollErr cs errno =>
      if khead s =? ktail s then
        (* in terms of [step]: only kernel events ([kflush] and [KPost]s); no poll event at all *)
        let s1 := kposts (kflush s) cs in
        (s1, [(-3)%Z; errno; (-1)%Z; nz (khead s1)])
      else
        let '(s1, o) := run_poll s [] [] in (kposts s1 cs, o)
  end.

Fixpoint run_actions (s : cq) (acts : list action) : list Z :=
  match acts with
  | [] => []
  | a :: r => let '(s1, o) := run_action s a in o ++ run_actions s1 r
  end.

Record cqcase := { cq_len : N; cq_start : N; cq_script : list action }.
Definition run_cqcase (c : cqcase) : list Z := run_actions (init (cq_len c) (cq_start c)) (cq_script c).

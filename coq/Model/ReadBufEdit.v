(** Model of the editing calls of [ReadBuf] (src/io/read_buf.rs) and of the pool side that
    creates and takes back a buffer (src/io_uring/io.rs: [ReadBufPool::init_buffer],
    [ReadBufPool::release]).

    The pool allocation ([bufs_addr], [pool_size * buf_size] bytes) is one [list N] of bytes;
    every pointer is its offset from [bufs_addr]. A [ReadBuf] is its field
    [owned : Option<NonNull<[u8]>>]: [None] before the kernel selected a buffer, otherwise the
    fat pointer (offset, length). Every call is transcribed from the code as it is, including
    the [usize] arithmetic that can overflow ([dbg] = overflow checks and debug assertions
    enabled: panic; otherwise wrap-around). A panic is the outcome [Rejected].

    [remove] resolves its bounds with [checked_add(1).expect(..)] since the repair of H23
    (commit dcfd7cd): the overflow panics in every build. The normalisation as it was before
    is kept under the names [.._h23] to state what was wrong.

    Executable definitions only; proofs are in Proofs/ReadBufEditProofs.v. *)
From A10 Require Import Base.Word Base.Run.

(** * [usize] arithmetic (64 bit) *)
Definition usize_max : N := two64 - 1.

(** [x.checked_add(1)] *)
Definition checked_add1 (x : N) : option N :=
  if x + 1 <? two64 then Some (x + 1) else None.

(** [x + 1] (unchecked: panics with overflow checks, wraps without) *)
Definition uadd1 (dbg : bool) (x : N) : option N :=
  if x + 1 <? two64 then Some (x + 1) else if dbg then None else Some 0.

(** [a - b] *)
Definition usub (dbg : bool) (a b : N) : option N :=
  if b <=? a then Some (a - b) else if dbg then None else Some (a + two64 - b).

(** * Pool memory *)
Definition mread (m : list N) (a n : N) : list N :=
  firstn (N.to_nat n) (skipn (N.to_nat a) m).

(** [ptr::copy] / [copy_from_nonoverlapping] of the bytes [bs] to offset [a]. *)
Definition mwrite (m : list N) (a : N) (bs : list N) : list N :=
  firstn (N.to_nat a) m ++ bs ++ skipn (N.to_nat a + length bs) m.

Definition nlen (l : list N) : N := N.of_nat (length l).

(** * ReadBuf *)
Record rbuf := { rb_ptr : N; rb_len : N }.
Record rstate := { st_mem : list N; st_owned : option rbuf }.

(** [ReadBufPool::init_buffer(id, n)]: [bufs_addr.add(id as usize * buf_size)], length [n]. *)
Definition init_buffer (cap id n : N) : rbuf := {| rb_ptr := id * cap; rb_len := n |}.

(** [ReadBufPool::release(ptr)]: [(ptr.offset_from(bufs_addr) as usize / buf_size as usize) as u16]
    is the buffer id handed back to the kernel, together with the address [ptr]. *)
Definition release_id (cap : N) (b : rbuf) : N := trunc16 (rb_ptr b / cap).
Definition release_addr (b : rbuf) : N := rb_ptr b.

(** [change_size(slice, new_len)]: same address, new length. *)
Definition change_size (b : rbuf) (n : N) : rbuf := {| rb_ptr := rb_ptr b; rb_len := n |}.

(** * Editing calls *)
Inductive bound := Incl (n : N) | Excl (n : N) | Unb.

Inductive edit :=
  | Truncate (n : N)
  | Clear
  | Remove (s e : bound)      (* any [RangeBounds<usize>] *)
  | SetLen (n : N)            (* unsafe fn *)
  | Extend (xs : list N)      (* inherent [extend_from_slice] *)
  | Spare                     (* [spare_capacity_mut().len()] *)
  | Fill (xs : list N).       (* [xs] arrive through the [BufMut] impl: [parts_mut] exposes the
                                 spare part, the kernel (a repeated read) or [copy_bytes]
                                 (provided [BufMut::extend_from_slice]) stores as many bytes as
                                 fit, [set_init] records them *)

Inductive outcome :=
  | Done (v : N)   (* returned normally; [v] = returned length where there is one, else 0 *)
  | Refused        (* returned [Err(())] *)
  | Rejected.      (* panicked *)

(** [remove]: normalisation of the two [Bound]s; [None] = the [expect] panic. *)
Definition norm_start (b : bound) : option N :=
  match b with
  | Unb => Some 0
  | Incl s => Some s
  | Excl s => checked_add1 s       (* [start_idx.checked_add(1).expect(..)] *)
  end.

Definition norm_end (original_len : N) (b : bound) : option N :=
  match b with
  | Unb => Some original_len
  | Incl e => checked_add1 e       (* [end_idx.checked_add(1).expect(..)] *)
  | Excl e => Some e
  end.

(** The code before the repair (H23): [start_idx + 1], [end_idx + 1]. *)
Definition norm_start_h23 (dbg : bool) (b : bound) : option N :=
  match b with
  | Unb => Some 0
  | Incl s => Some s
  | Excl s => uadd1 dbg s
  end.

Definition norm_end_h23 (dbg : bool) (original_len : N) (b : bound) : option N :=
  match b with
  | Unb => Some original_len
  | Incl e => uadd1 dbg e
  | Excl e => Some e
  end.

(** [BufMut::parts_mut]: [(ptr.add(len), (capacity - len) as u32)]. *)
Definition parts_mut (dbg : bool) (cap : N) (b : rbuf) : option (N * N) :=
  match usub dbg cap (rb_len b) with
  | Some u => Some (rb_ptr b + rb_len b, trunc32 u)
  | None => None
  end.

(** [BufMut::set_init(n)]. *)
Definition set_init (b : rbuf) (n : N) : rbuf := change_size b (rb_len b + n).

(** [BufMut::spare_capacity]. *)
Definition spare_capacity (dbg : bool) (cap : N) (o : option rbuf) : option N :=
  match o with
  | Some b => match usub dbg cap (rb_len b) with Some u => Some (trunc32 u) | None => None end
  | None => Some 0
  end.

Definition step_owned (dbg : bool) (cap : N) (m : list N) (b : rbuf) (e : edit)
  : list N * rbuf * outcome :=
  match e with
  | Truncate n =>
      if rb_len b <? n then (m, b, Done 0) else (m, change_size b n, Done 0)
  | Clear => (m, change_size b 0, Done 0)
  | Remove rs re =>
      let original_len := rb_len b in
      match norm_start rs, norm_end original_len re with
      | Some start, Some end_ =>
          if end_ <? start then (m, b, Rejected)
          else if original_len <? end_ then (m, b, Rejected)
          else
            let remove_len := end_ - start in
            let new_len := original_len - remove_len in
            let b' := change_size b new_len in
            if (new_len =? 0) || (new_len <=? start) then (m, b', Done 0)
            else
              let to_copy := new_len - start in
              (mwrite m (rb_ptr b + start) (mread m (rb_ptr b + end_) to_copy), b', Done 0)
      | _, _ => (m, b, Rejected)
      end
  | SetLen n =>
      if dbg && (cap <? n) then (m, b, Rejected)     (* [debug_assert!(new_len <= capacity)] *)
      else (m, change_size b n, Done 0)
  | Extend xs =>
      let new_len := rb_len b + nlen xs in
      if cap <? new_len then (m, b, Refused)
      else (mwrite m (rb_ptr b + rb_len b) xs, change_size b new_len, Done 0)
  | Spare =>
      match usub dbg cap (rb_len b) with
      | Some u => (m, b, Done u)
      | None => (m, b, Rejected)
      end
  | Fill xs =>
      match parts_mut dbg cap b with
      | Some (p, l) =>
          let k := N.min (nlen xs) l in
          (mwrite m p (firstn (N.to_nat k) xs), set_init b k, Done k)
      | None => (m, b, Rejected)
      end
  end.

(** [owned = None]: nothing to edit. *)
Definition step_unowned (dbg : bool) (cap : N) (e : edit) : outcome :=
  match e with
  | Truncate _ | Clear => Done 0
  | Remove rs re =>
      match norm_start rs, norm_end 0 re with
      | Some start, Some end_ =>
          if negb (start =? 0) && negb (end_ =? 0) then Rejected else Done 0
      | _, _ => Rejected
      end
  | SetLen n => if dbg && (cap <? n) then Rejected else Done 0
  | Extend _ => Refused
  | Spare => Done 0
  | Fill _ => Done 0            (* [parts_mut = (null, 0)], [set_init(0)] *)
  end.

Definition rb_step (dbg : bool) (cap : N) (s : rstate) (e : edit) : rstate * outcome :=
  match st_owned s with
  | Some b =>
      let '(m', b', o) := step_owned dbg cap (st_mem s) b e in
      ({| st_mem := m'; st_owned := Some b' |}, o)
  | None => (s, step_unowned dbg cap e)
  end.

Definition rb_step1 (dbg : bool) (cap : N) (s : rstate) (e : edit) : rstate * list outcome :=
  let '(s', o) := rb_step dbg cap s e in (s', [o]).

Definition rb_run (dbg : bool) (cap : N) (s : rstate) (es : list edit) : rstate * list outcome :=
  run (rb_step1 dbg cap) s es.

(** * Reference: a byte vector whose capacity is fixed.
    [v_data] are the elements, [v_spare] the bytes of the allocated but unused capacity (what
    [set_len] re-exposes and what [truncate]/[drain] leave behind); [length v_data + length
    v_spare] is the capacity. Ranges are resolved over unbounded naturals, as
    [core::slice::range] does with checked additions. *)
Record bvec := { v_data : list N; v_spare : list N }.

Definition range_lo (b : bound) : N :=
  match b with Unb => 0 | Incl s => s | Excl s => s + 1 end.
Definition range_hi (n : N) (b : bound) : N :=
  match b with Unb => n | Incl e => e + 1 | Excl e => e end.

Definition vec_step (cap : N) (v : bvec) (e : edit) : bvec * outcome :=
  let d := v_data v in
  let n := nlen d in
  match e with
  | Truncate k =>                                                  (* Vec::truncate *)
      if k <=? n then
        ({| v_data := firstn (N.to_nat k) d; v_spare := skipn (N.to_nat k) d ++ v_spare v |}, Done 0)
      else (v, Done 0)
  | Clear => ({| v_data := []; v_spare := d ++ v_spare v |}, Done 0)  (* Vec::clear *)
  | Remove rs re =>                                                (* drop(Vec::drain(range)) *)
      let lo := range_lo rs in
      let hi := range_hi n re in
      if (lo <=? hi) && (hi <=? n) then
        ({| v_data := firstn (N.to_nat lo) d ++ skipn (N.to_nat hi) d;
            v_spare := skipn (N.to_nat (n - (hi - lo))) d ++ v_spare v |}, Done 0)
      else (v, Rejected)
  | SetLen k =>                                                    (* Vec::set_len, contract *)
      if k <=? cap then
        let a := d ++ v_spare v in
        ({| v_data := firstn (N.to_nat k) a; v_spare := skipn (N.to_nat k) a |}, Done 0)
      else (v, Rejected)
  | Extend xs =>                                      (* Vec::extend_from_slice if it fits *)
      if n + nlen xs <=? cap then
        ({| v_data := d ++ xs; v_spare := skipn (length xs) (v_spare v) |}, Done 0)
      else (v, Refused)
  | Spare => (v, Done (nlen (v_spare v)))             (* Vec::spare_capacity_mut().len() *)
  | Fill xs =>                                        (* BufMut for Vec<u8> *)
      let k := N.min (nlen xs) (nlen (v_spare v)) in
      ({| v_data := d ++ firstn (N.to_nat k) xs; v_spare := skipn (N.to_nat k) (v_spare v) |}, Done k)
  end.

Definition vec_step1 (cap : N) (v : bvec) (e : edit) : bvec * list outcome :=
  let '(v', o) := vec_step cap v e in (v', [o]).

Definition vec_run (cap : N) (v : bvec) (es : list edit) : bvec * list outcome :=
  run (vec_step1 cap) v es.

(** The vector a [ReadBuf] stands for: the first [len] bytes of its slot, and the rest of the
    slot as unused capacity. *)
Definition abs_owned (cap : N) (m : list N) (b : rbuf) : bvec :=
  let sb := mread m (rb_ptr b) cap in
  {| v_data := firstn (N.to_nat (rb_len b)) sb; v_spare := skipn (N.to_nat (rb_len b)) sb |}.

(** * Correspondence driver *)
Record rbcase := {
  c_dbg : bool;                 (* harness profile: overflow checks and debug assertions *)
  c_cap : N;                    (* buf_size *)
  c_mem : list N;               (* the pool memory when the edits start (empty when not owned) *)
  c_fill : option (N * N);      (* Some (id, n): the kernel selected buffer [id] and stored [n] bytes *)
  c_ops : list edit;
  c_refill : N                  (* length of the read issued after the edited buffer was dropped *)
}.

Definition outcome_obs (o : outcome) : list Z :=
  match o with
  | Done v => [0%Z; nz v]
  | Refused => [1%Z; 0%Z]
  | Rejected => [2%Z; 0%Z]
  end.

(** After every call: [len()], [spare_capacity()] and all bytes of the slot. *)
Definition state_obs (dbg : bool) (cap : N) (s : rstate) : list Z :=
  match st_owned s with
  | Some b =>
      [nz (rb_len b);
       match spare_capacity dbg cap (Some b) with Some u => nz u | None => (-1)%Z end]
      ++ map nz (mread (st_mem s) (rb_ptr b) cap)
  | None => [0%Z; 0%Z]
  end.

Fixpoint run_obs (dbg : bool) (cap : N) (s : rstate) (es : list edit) : rstate * list Z :=
  match es with
  | [] => (s, [])
  | e :: r =>
      let '(s1, o) := rb_step dbg cap s e in
      let '(s2, os) := run_obs dbg cap s1 r in
      (s2, outcome_obs o ++ state_obs dbg cap s1 ++ os)
  end.

(** At the end: the whole pool memory, then the buffer is dropped ([release]) and the next
    read selects the buffer id that was handed back: offset and length of the new buffer. *)
Definition run_rbcase (c : rbcase) : list Z :=
  let cap := c_cap c in
  let s0 := {| st_mem := c_mem c;
               st_owned := option_map (fun '(id, n) => init_buffer cap id n) (c_fill c) |} in
  let '(s, os) := run_obs (c_dbg c) cap s0 (c_ops c) in
  os ++ map nz (st_mem s) ++
  match st_owned s with
  | Some b =>
      let nb := init_buffer cap (release_id cap b) (c_refill c) in
      [nz (release_addr b); nz (rb_ptr nb); nz (rb_len nb)]
  | None => [(-1)%Z]
  end.

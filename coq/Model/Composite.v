(** Model of the eight composite futures of src/io/mod.rs and src/net.rs:

      write_all, write_all_vectored, send_all, send_all_vectored   (WriteAll, WriteAllVectored,
      read_n, read_n_vectored, recv_n, recv_n_vectored              SendAll, SendAllVectored, ReadN, ...)

    as recursion over the kernel's *script*: the list of results the kernel returns for the
    successive requests ([r >= 0]: bytes transferred, [r < 0]: negative errno). The fuel is the
    script itself; running out of script is the explicit outcome [Pending] (the request was
    issued and never completed). Every function returns the list of requests issued - as the
    kernel sees them in the submission queue entry: opcode, [off], flags word, BUFFER_SELECT,
    and the (pointer, length) pairs of the buffer / iovec array / msghdr - the outcome, and the
    buffers handed back to the caller.

    The loops are those of /repo as it is now (after the repairs of H4, H5 and H18):
      - SkipBuf { skip : u32 } with [buf.skip += n as u32] and the done test [parts().1 == 0];
      - the cumulative [skip : u64] of the vectored variants with IoSlice::{set_len, skip} and the
        done test "every iovec is empty";
      - [offset += n as u64] unless the offset is NO_OFFSET;
      - ReadNBuf { last_read }, [left -= last_read], done when [last_read >= left], EOF when
        [last_read == 0];
      - the (send_op, flags) pair kept in the composite future and passed to every continuation;
      - EINTR / ECANCELED restart the same request (src/io_uring/op.rs, poll_inner).
    Fixed-width arithmetic is written out with Base/Word.v. Executable definitions only. *)
From A10 Require Import Base.Word Base.Run Gen.Consts Model.BufTraits.

Definition wadd64 (a b : N) : N := (a + b) mod two64.

Inductive outcome :=
  | OkAll
  | ErrWriteZero
  | ErrUnexpectedEof
  | ErrOs (e : Z)        (* the kernel's negative errno, handed to the caller *)
  | Pending              (* script exhausted: the last request never completes *)
  | Panicked.            (* BufMutSlice::set_init ran off the end ([unreachable!]) *)

(** A request as the kernel receives it. [q_iovs] are absolute (pointer, length) pairs: one for
    READ/WRITE/SEND/RECV ([addr], [len]), the iovec array for READV/WRITEV and msg_iov for
    SENDMSG/RECVMSG. [q_sel]: IOSQE_BUFFER_SELECT (the pair is then the buffer the pool offers). *)
Record req := { q_op : N; q_off : N; q_flags : N; q_sel : bool; q_iovs : list iov }.

Definition requested (q : req) : N := sum_lens (q_iovs q).

(** [poll_inner] of io_uring/op.rs: these two errors resubmit the operation unchanged. *)
Definition restarts (r : Z) : bool := ((r =? -4) || (r =? -125))%Z.

(** [if this.offset != NO_OFFSET { this.offset += n as u64 }] *)
Definition next_off (off n : N) : N :=
  if off =? NO_OFFSET then off else wadd64 off (trunc64 n).

(** * The write loops.
    All four [poll_inner] functions have the same shape: poll the inner operation;
    [Ok((_, 0))] is WriteZero; [Ok((buf, n))] updates the state, tests "done", otherwise
    [state.reset(..)] and polls again. The per-future parts are [req_of] (how the submission is
    filled from the state), [advance] (the state update) and [is_done]. *)
Fixpoint wloop {X : Type} (req_of : X -> req) (advance : X -> N -> X) (is_done : X -> bool)
    (ret : X -> list vbuf) (x : X) (script : list Z) : list req * outcome * list vbuf :=
  let q := req_of x in
  match script with
  | [] => ([q], Pending, [])
  | r :: rest =>
      if (r <? 0)%Z then
        if restarts r then
          let '(qs, o, b) := wloop req_of advance is_done ret x rest in (q :: qs, o, b)
        else ([q], ErrOs r, [])
      else if (r =? 0)%Z then ([q], ErrWriteZero, [])
      else
        let x' := advance x (Z.to_N r) in
        if is_done x' then ([q], OkAll, ret x')
        else let '(qs, o, b) := wloop req_of advance is_done ret x' rest in (q :: qs, o, b)
  end.

(** ** WriteAll / SendAll: one buffer behind SkipBuf. *)
Record skipbuf := { sb_buf : vbuf; sb_skip : N (* u32 *) }.

(** WriteAll { write: Write<SkipBuf<B>>, offset } *)
Record wa_state := { wa_buf : skipbuf; wa_off : N }.

Definition wa_req (st : wa_state) : req :=
  {| q_op := IORING_OP_WRITE; q_off := wa_off st; q_flags := 0; q_sel := false;
     q_iovs := [skip_parts (sb_buf (wa_buf st)) (sb_skip (wa_buf st))] |}.
(** [buf.skip += n as u32; if this.offset != NO_OFFSET { this.offset += n as u64 }] *)
Definition wa_advance (st : wa_state) (n : N) : wa_state :=
  {| wa_buf := {| sb_buf := sb_buf (wa_buf st); sb_skip := wadd32 (sb_skip (wa_buf st)) (trunc32 n) |};
     wa_off := next_off (wa_off st) n |}.
(** [if let (_, 0) = buf.parts()] *)
Definition wa_done (st : wa_state) : bool :=
  snd (skip_parts (sb_buf (wa_buf st)) (sb_skip (wa_buf st))) =? 0.
Definition wa_ret (st : wa_state) : list vbuf := [sb_buf (wa_buf st)].

(** [fd.write_all(buf)] ([off = NO_OFFSET]) or [fd.write_all(buf).at(off)]. *)
Definition write_all (b : vbuf) (off : N) (script : list Z) :=
  wloop wa_req wa_advance wa_done wa_ret
        {| wa_buf := {| sb_buf := b; sb_skip := 0 |}; wa_off := off |} script.

(** SendAll { send: Send<SkipBuf<B>>, send_op, flags }: [zc] and [fl] are what [.zc()] and
    [.flags(..)] stored; every request (first and continuation) is built from them. *)
Record sa_state := { sa_buf : skipbuf; sa_zc : bool; sa_flags : N }.

Definition sa_req (st : sa_state) : req :=
  {| q_op := if sa_zc st then IORING_OP_SEND_ZC else IORING_OP_SEND;
     q_off := 0; q_flags := sa_flags st; q_sel := false;
     q_iovs := [skip_parts (sb_buf (sa_buf st)) (sb_skip (sa_buf st))] |}.
Definition sa_advance (st : sa_state) (n : N) : sa_state :=
  {| sa_buf := {| sb_buf := sb_buf (sa_buf st); sb_skip := wadd32 (sb_skip (sa_buf st)) (trunc32 n) |};
     sa_zc := sa_zc st; sa_flags := sa_flags st |}.
Definition sa_done (st : sa_state) : bool :=
  snd (skip_parts (sb_buf (sa_buf st)) (sb_skip (sa_buf st))) =? 0.
Definition sa_ret (st : sa_state) : list vbuf := [sb_buf (sa_buf st)].

Definition send_all (b : vbuf) (fl : N) (zc : bool) (script : list Z) :=
  wloop sa_req sa_advance sa_done sa_ret
        {| sa_buf := {| sb_buf := b; sb_skip := 0 |}; sa_zc := zc; sa_flags := fl |} script.

(** ** WriteAllVectored / SendAllVectored: the buffers, the iovec array handed to the kernel
    and the cumulative [skip : u64]. *)
Record wv_state := { wv_bufs : list vbuf; wv_iovs : list iov; wv_skip : N; wv_off : N }.

Definition wv_req (st : wv_state) : req :=
  {| q_op := IORING_OP_WRITEV; q_off := wv_off st; q_flags := 0; q_sel := false;
     q_iovs := wv_iovs st |}.
(** [this.skip += n as u64; offset update; iovecs = bufs.as_iovecs(); for iovec in &mut iovecs
    { if iovec.len() as u64 <= skip { skip -= len; set_len(0) } else { iovec.skip(skip); break } }] *)
Definition wv_advance (st : wv_state) (n : N) : wv_state :=
  let skip := wadd64 (wv_skip st) (trunc64 n) in
  {| wv_bufs := wv_bufs st; wv_iovs := skip_iovecs (slice_iovecs (wv_bufs st)) skip;
     wv_skip := skip; wv_off := next_off (wv_off st) n |}.
(** [iovecs.iter().all(|iovec| iovec.len() == 0)] *)
Definition wv_done (st : wv_state) : bool := forallb (fun i => snd i =? 0) (wv_iovs st).
Definition wv_ret (st : wv_state) : list vbuf := wv_bufs st.

Definition write_all_vectored (bs : list vbuf) (off : N) (script : list Z) :=
  wloop wv_req wv_advance wv_done wv_ret
        {| wv_bufs := bs; wv_iovs := slice_iovecs bs; wv_skip := 0; wv_off := off |} script.

Record sv_state := { sv_bufs : list vbuf; sv_iovs : list iov; sv_skip : N; sv_zc : bool; sv_flags : N }.

Definition sv_req (st : sv_state) : req :=
  {| q_op := if sv_zc st then IORING_OP_SENDMSG_ZC else IORING_OP_SENDMSG;
     q_off := 0; q_flags := sv_flags st; q_sel := false; q_iovs := sv_iovs st |}.
Definition sv_advance (st : sv_state) (n : N) : sv_state :=
  let skip := wadd64 (sv_skip st) (trunc64 n) in
  {| sv_bufs := sv_bufs st; sv_iovs := skip_iovecs (slice_iovecs (sv_bufs st)) skip;
     sv_skip := skip; sv_zc := sv_zc st; sv_flags := sv_flags st |}.
Definition sv_done (st : sv_state) : bool := forallb (fun i => snd i =? 0) (sv_iovs st).
Definition sv_ret (st : sv_state) : list vbuf := sv_bufs st.

Definition send_all_vectored (bs : list vbuf) (fl : N) (zc : bool) (script : list Z) :=
  wloop sv_req sv_advance sv_done sv_ret
        {| sv_bufs := bs; sv_iovs := slice_iovecs bs; sv_skip := 0; sv_zc := zc; sv_flags := fl |} script.

(** * The read loops (ReadN, ReadNVectored, RecvN, RecvNVectored).
    [r_bufs] are the caller's buffers behind ReadNBuf; a completion of [n] bytes calls
    [set_init(n)] (which also records [last_read = n]); [last_read == 0] is UnexpectedEof,
    [last_read >= left] is success, otherwise [left -= last_read], the offset moves (positional
    reads only) and the operation is reset with the same flags.
    [r_sel]: the buffer is a [ReadBufPool::get()] buffer that owns no memory yet: the request
    carries IOSQE_BUFFER_SELECT and the kernel picks the buffer ([buffer_init]); afterwards it is
    an ordinary buffer of capacity [buf_size]. *)
Record rstate := { r_bufs : list vbuf; r_off : N; r_left : N; r_sel : bool }.

Fixpoint rloop (mk : rstate -> req) (set_init : list vbuf -> N -> option (list vbuf))
    (positional : bool) (st : rstate) (script : list Z) : list req * outcome * list vbuf :=
  let q := mk st in
  match script with
  | [] => ([q], Pending, [])
  | r :: rest =>
      if (r <? 0)%Z then
        if restarts r then
          let '(qs, o, b) := rloop mk set_init positional st rest in (q :: qs, o, b)
        else ([q], ErrOs r, [])
      else
        let n := Z.to_N r in
        match set_init (r_bufs st) n with
        | None => ([q], Panicked, [])
        | Some bs' =>
            if n =? 0 then ([q], ErrUnexpectedEof, [])
            else if r_left st <=? n then ([q], OkAll, bs')
            else
              let st' := {| r_bufs := bs';
                            r_off := if positional then next_off (r_off st) n else r_off st;
                            r_left := r_left st - n; r_sel := false |} in
              let '(qs, o, b) := rloop mk set_init positional st' rest in (q :: qs, o, b)
        end
  end.

(** [BufMut::set_init] / [buffer_init] of the single buffer (Vec<u8>: [set_len(len + n)];
    ReadBuf: [change_size(ptr, len + n)]). *)
Definition single_set_init (bs : list vbuf) (n : N) : option (list vbuf) :=
  match bs with
  | b :: r => Some (mut_set_init b n :: r)
  | [] => None
  end.

Definition single_iovs (bs : list vbuf) : list iov := [mut_parts (hd_buf bs)].

Definition rn_req (op fl : N) (vectored : bool) (st : rstate) : req :=
  {| q_op := op; q_off := r_off st; q_flags := fl; q_sel := r_sel st;
     q_iovs := if vectored then mslice_iovecs (r_bufs st) else single_iovs (r_bufs st) |}.

(** [fd.read_n(buf, n)] / [.from(off)]; [pool = true]: [buf] is [pool.get()] with
    [cap b = buf_size], [len b = 0]. READ has no flags word. *)
Definition read_n (b : vbuf) (pool : bool) (n off : N) (script : list Z) :=
  rloop (rn_req IORING_OP_READ 0 false) single_set_init true
        {| r_bufs := [b]; r_off := off; r_left := n; r_sel := pool |} script.

Definition read_n_vectored (bs : list vbuf) (n off : N) (script : list Z) :=
  rloop (rn_req IORING_OP_READV 0 true) mslice_set_init true
        {| r_bufs := bs; r_off := off; r_left := n; r_sel := false |} script.

(** RECV / RECVMSG do not use [off]; [fl] is the caller's RecvFlag word. *)
Definition recv_n (b : vbuf) (pool : bool) (n fl : N) (script : list Z) :=
  rloop (rn_req IORING_OP_RECV fl false) single_set_init false
        {| r_bufs := [b]; r_off := 0; r_left := n; r_sel := pool |} script.

Definition recv_n_vectored (bs : list vbuf) (n fl : N) (script : list Z) :=
  rloop (rn_req IORING_OP_RECVMSG fl true) mslice_set_init false
        {| r_bufs := bs; r_off := 0; r_left := n; r_sel := false |} script.

(** * Correspondence driver. *)
Inductive ckind :=
  | KWriteAll | KWriteAllVectored | KSendAll | KSendAllVectored
  | KReadN | KReadNVectored | KRecvN | KRecvNVectored.

(** [k_bufs]: the caller's buffers (one for the non-vectored kinds); [k_pool]: ReadBufPool
    buffer; [k_n]: target count of the reads; [k_off]: NO_OFFSET or the [.at]/[.from] offset;
    [k_flags]: SendFlag / RecvFlag word; [k_zc]: [.zc()]; [k_extract]: [.extract()]. *)
Record ccase := {
  k_kind : ckind; k_bufs : list vbuf; k_pool : bool; k_n : N; k_off : N; k_flags : N;
  k_zc : bool; k_extract : bool; k_script : list Z }.

Definition run_kind (c : ccase) : list req * outcome * list vbuf :=
  let b := hd_buf (k_bufs c) in
  match k_kind c with
  | KWriteAll => write_all b (k_off c) (k_script c)
  | KWriteAllVectored => write_all_vectored (k_bufs c) (k_off c) (k_script c)
  | KSendAll => send_all b (k_flags c) (k_zc c) (k_script c)
  | KSendAllVectored => send_all_vectored (k_bufs c) (k_flags c) (k_zc c) (k_script c)
  | KReadN => read_n b (k_pool c) (k_n c) (k_off c) (k_script c)
  | KReadNVectored => read_n_vectored (k_bufs c) (k_n c) (k_off c) (k_script c)
  | KRecvN => recv_n b (k_pool c) (k_n c) (k_flags c) (k_script c)
  | KRecvNVectored => recv_n_vectored (k_bufs c) (k_n c) (k_flags c) (k_script c)
  end.

Definition is_read (k : ckind) : bool :=
  match k with KReadN | KReadNVectored | KRecvN | KRecvNVectored => true | _ => false end.

(** Observation. Per request: opcode, off, flags, BUFFER_SELECT, number of (pointer, length)
    pairs, then per pair: buffer index (= position), offset of the pointer inside that buffer,
    length. Then [-1], the outcome, and on success the lengths of the buffers handed back (all
    reads; writes only through [.extract()]). *)
Fixpoint obs_ranges (i : N) (bs : list vbuf) (iovs : list iov) : list Z :=
  match bs, iovs with
  | b :: bs', v :: iovs' =>
      [nz i; (Z.of_N (fst v) - Z.of_N (base b))%Z; nz (snd v)] ++ obs_ranges (i + 1) bs' iovs'
  | _, _ => []
  end.

Definition obs_req (bs : list vbuf) (q : req) : list Z :=
  [nz (q_op q); nz (q_off q); nz (q_flags q); bz (q_sel q); Z.of_nat (length (q_iovs q))]
  ++ obs_ranges 0 bs (q_iovs q).

Definition obs_outcome (o : outcome) : list Z :=
  match o with
  | OkAll => [0%Z]
  | ErrWriteZero => [1%Z]
  | ErrUnexpectedEof => [2%Z]
  | ErrOs e => [3%Z; e]
  | Pending => [4%Z]
  | Panicked => [5%Z]
  end.

Definition run_ccase (c : ccase) : list Z :=
  let '(reqs, out, ret) := run_kind c in
  flat_map (obs_req (k_bufs c)) reqs ++ [(-1)%Z] ++ obs_outcome out
  ++ match out with
     | OkAll => if is_read (k_kind c) || k_extract c
                then Z.of_nat (length ret) :: map (fun b => nz (len b)) ret else []
     | _ => []
     end.

(** C13 — result decoders: the pure functions that turn what the kernel wrote (a completion's
    result word, a [struct statx], a [siginfo_t], a socket option value) into the values the a10
    API returns, and the synchronous fallbacks taken on some errors.

    Transcribed from src/io_uring/op.rs ([check_result], the error arm of [poll_inner],
    [fallback]), the [fallback] of the individual operations, src/io_uring/fs.rs ([timestamp] and
    the accessors), src/fs.rs ([FileType], [Permissions]), src/process.rs ([WaitInfo]),
    src/fd.rs ([from_raw], [fd], [kind]), src/net/option.rs ([init]s).  No proofs here.

    H9 (timestamps before 1970), H21 (socket fallbacks on direct descriptors) and H22
    (WaitInfo::status) are repaired in /repo: the definitions ending in [_fixed] (and
    [fallback_gen true]) are the code as it is now and are the ones wired into the correspondence
    ([run_c13case_fixed]); the others are kept for the refutation lemmas. *)
From A10 Require Import Base.Word Gen.Consts Model.Encode.

Open Scope Z_scope.

(** * 1. Completion result -> io::Result, restarts and fallbacks *)
Definition EINTR : Z := 4.
Definition EINVAL : Z := 22.
Definition ENOSYS : Z := 38.
Definition EOPNOTSUPP : Z := 95.
Definition ECANCELED : Z := 125.

(** std's [decode_error_kind] on Linux, as far as the fallbacks look at it. *)
Definition kind_is_unsupported (errno : Z) : bool := (errno =? ENOSYS) || (errno =? EOPNOTSUPP).

(** Which [fallback] an operation has. *)
Inductive fbclass :=
| FbDefault                                   (* op::fallback: EINVAL becomes "Unsupported" *)
| FbPipe (flags : N)                          (* PipeOp: EINVAL -> pipe2(2), regular descriptors *)
| FbSockName (peer : bool) (cap : option N)   (* SocketNameOp: EOPNOTSUPP -> getsockname/getpeername *)
| FbGetSockOpt (level name optlen : N)        (* SocketOptionOp: kind Unsupported -> getsockopt *)
| FbSetSockOpt (level name : N) (value : list N)
| FbToDirect                                  (* ToDirectOp *)
| FbToFd.                                     (* ToFdOp *)

Inductive outcome :=
| Done (v : N)              (* Ok: map_ok is given this value *)
| Restart                   (* the operation is submitted again, nothing is returned *)
| ErrOs (errno : Z)         (* Err(io::Error::from_raw_os_error(errno)) *)
| ErrUnsupported            (* Err of kind Unsupported that carries no errno *)
| SyncCall (c : posix_call). (* the result is whatever this synchronous call returns *)

(** [fd.fd()]: the descriptor number *or the direct index* as a plain integer. Before the repair
    of H21 the socket fallbacks passed it to libc as a descriptor number whatever the kind; since
    the repair they only run for regular descriptors ([guard = true]) and a direct descriptor
    keeps the kernel's error. *)
Definition raw_fd (fd : N) : fdref := FdNum (Z.of_N fd).

Definition is_regular (k : kind) : bool := match k with Regular => true | Direct => false end.

Definition fallback_gen (guard : bool) (fb : fbclass) (k : kind) (fd : N) (errno : Z) : outcome :=
  let may_call := if guard then is_regular k else true in
  match fb with
  | FbDefault => if errno =? EINVAL then ErrUnsupported else ErrOs errno
  | FbPipe flags =>
      if errno =? EINVAL then SyncCall (PPipe2 (Res RFds) (N.lor flags O_CLOEXEC) NewRegular)
      else ErrOs errno
  | FbSockName peer cap =>
      if (errno =? EOPNOTSUPP) && may_call
      then SyncCall (PGetsockname (raw_fd fd) peer (out_addr cap) cap)
      else ErrOs errno
  | FbGetSockOpt level name optlen =>
      if kind_is_unsupported errno && may_call
      then SyncCall (PGetsockopt (raw_fd fd) level name (Res ROptVal) optlen)
      else ErrOs errno
  | FbSetSockOpt level name value =>
      if kind_is_unsupported errno && may_call
      then SyncCall (PSetsockopt (raw_fd fd) level name value)
      else ErrOs errno
  | FbToDirect => match k with Direct => ErrUnsupported | Regular => ErrOs errno end
  | FbToFd => match k with Regular => ErrUnsupported | Direct => ErrOs errno end
  end.

Definition fallback_of := fallback_gen true.
(** The code before the repair of H21. *)
Definition fallback_of_h21 := fallback_gen false.

(** [CompletionResult::check_result] followed by the error arm of [poll_inner]. *)
Definition decode_result_gen (guard : bool) (fb : fbclass) (k : kind) (fd : N) (res : Z) : outcome :=
  if 0 <=? res then Done (Z.to_N res)
  else let errno := - res in
       if (errno =? EINTR) || (errno =? ECANCELED) then Restart
       else fallback_gen guard fb k fd errno.
Definition decode_result := decode_result_gen true.
Definition decode_result_h21 := decode_result_gen false.

(** The operation each fallback class belongs to (for the statement about fallbacks). *)
Definition op_of_fb (fb : fbclass) : option op :=
  match fb with
  | FbSockName peer cap => Some (OSockName peer cap)
  | FbGetSockOpt l n len => Some (OGetSockOpt l n len)
  | FbSetSockOpt l n v => Some (OSetSockOpt l n v)
  | FbPipe flags => Some (OPipe flags Regular)
  | _ => None
  end.

(** * 2. Descriptors made from results: [AsyncFd::from_raw], [fd], [kind] *)
Definition i32_bits (z : Z) : Z := ((z + 2147483648) mod 4294967296) - 2147483648.

(** [fd | (1 << 31)] for direct descriptors. *)
Definition from_raw (n : Z) (k : kind) : Z :=
  match k with Regular => n | Direct => i32_bits (Z.lor n (-2147483648)) end.
Definition fd_of (raw : Z) : Z := Z.land raw 2147483647.
Definition kind_of (raw : Z) : kind := if raw <? 0 then Direct else Regular.

(** Kind of the descriptor an operation returns: [accept] follows the listener, the creating
    calls follow the builder, the conversions are fixed. *)

(** * 3. Metadata accessors *)
Definition S_IFMT : N := 61440%N.    (* 0o170000 *)
Definition S_IFSOCK : N := 49152%N.  Definition S_IFLNK : N := 40960%N.
Definition S_IFREG : N := 32768%N.   Definition S_IFBLK : N := 24576%N.
Definition S_IFDIR : N := 16384%N.   Definition S_IFCHR : N := 8192%N.
Definition S_IFIFO : N := 4096%N.

Definition ft_is (mode ty : N) : bool := N.eqb (N.land mode S_IFMT) ty.

(** [is_dir, is_file, is_symlink, is_socket, is_block_device, is_character_device, is_named_pipe] *)
Definition file_type_flags (mode : N) : list bool :=
  map (ft_is mode) [S_IFDIR; S_IFREG; S_IFLNK; S_IFSOCK; S_IFBLK; S_IFCHR; S_IFIFO].

(** owner r,w,x; group r,w,x; others r,w,x — [self.0 & S_IxYYY != 0] *)
Definition perm_masks : list N := [256; 128; 64; 32; 16; 8; 4; 2; 1]%N.
Definition permission_flags (mode : N) : list bool :=
  map (fun m => negb (N.eqb (N.land mode m) 0)) perm_masks.

(** ** Timestamps. [SystemTime] is (seconds : i64, nanoseconds < 10^9) since the epoch;
       [None] stands for the panic of an overflowing [+]/[-]. *)
Definition NS : Z := 1000000000.
Definition I64_MIN : Z := -9223372036854775808.
Definition I64_MAX : Z := 9223372036854775807.
Definition in_i64 (z : Z) : bool := (I64_MIN <=? z) && (z <=? I64_MAX).

Definition systime := (Z * Z)%type.
Definition duration := (Z * Z)%type.     (* u64 seconds, nanoseconds < 10^9 *)

(** [Duration::new]: carries whole seconds out of the nanoseconds (panics on u64 overflow). *)
Definition dur_new (secs nanos : Z) : option duration :=
  let s := secs + nanos / NS in
  if s <? 18446744073709551616 then Some (s, nanos mod NS) else None.

(** [SystemTime + Duration] ([Timespec::checked_add_duration]). *)
Definition st_add (t : systime) (d : duration) : option systime :=
  let '(ts, tn) := t in let '(ds, dn) := d in
  let s := ts + ds in
  if in_i64 s then
    let n := tn + dn in
    if n <? NS then Some (s, n)
    else if in_i64 (s + 1) then Some (s + 1, n - NS) else None
  else None.

(** [SystemTime - Duration] ([Timespec::checked_sub_duration]). *)
Definition st_sub (t : systime) (d : duration) : option systime :=
  let '(ts, tn) := t in let '(ds, dn) := d in
  let s := ts - ds in
  if in_i64 s then
    let n := tn - dn in
    if 0 <=? n then Some (s, n)
    else if in_i64 (s - 1) then Some (s - 1, n + NS) else None
  else None.

Definition EPOCH : systime := (0, 0).
Definition u64_of_i64 (z : Z) : Z := z mod 18446744073709551616.

(** [timestamp] as it is:
    [let dur = Duration::new(ts.tv_sec as u64, ts.tv_nsec);
     if ts.tv_sec.is_negative() { UNIX_EPOCH - dur } else { UNIX_EPOCH + dur }] *)
Definition timestamp (sec nsec : Z) : option systime :=
  match dur_new (u64_of_i64 sec) nsec with
  | None => None
  | Some dur => if sec <? 0 then st_sub EPOCH dur else st_add EPOCH dur
  end.

(** After the repair of H9 (47b5584):
    [let nanos = Duration::new(0, ts.tv_nsec);
     if negative { UNIX_EPOCH - Duration::new(ts.tv_sec.unsigned_abs(), 0) + nanos }
     else { UNIX_EPOCH + Duration::new(ts.tv_sec as u64, 0) + nanos }] *)
Definition timestamp_fixed (sec nsec : Z) : option systime :=
  match dur_new 0 nsec, dur_new (Z.abs sec) 0 with
  | Some nanos, Some whole =>
      match (if sec <? 0 then st_sub EPOCH whole else st_add EPOCH whole) with
      | Some t => st_add t nanos
      | None => None
      end
  | _, _ => None
  end.

(** The POSIX meaning of a [timespec]/[statx_timestamp]: [tv_sec + tv_nsec / 10^9] seconds after
    the epoch with [0 <= tv_nsec < 10^9] also for times before it. *)
Definition timestamp_spec (sec nsec : Z) : systime := (sec, nsec).

Definition ns_of (t : systime) : Z := fst t * NS + snd t.

Record statx_fields := mkStatx {
  stx_mask : N; stx_mode : N; stx_size : N; stx_blksize : N;
  stx_atime : Z * Z; stx_mtime : Z * Z; stx_btime : Z * Z
}.

(** * 4. WaitInfo *)
Definition CLD_EXITED : Z := 1.   Definition CLD_KILLED : Z := 2.
Definition CLD_DUMPED : Z := 3.   Definition CLD_TRAPPED : Z := 4.
Definition CLD_STOPPED : Z := 5.  Definition CLD_CONTINUED : Z := 6.

(** What [std::process::ExitStatus] reports: [code(), signal(), core_dumped(), stopped_signal(),
    continued()]; [-1] renders [None]. *)
Record status_view := mkView {
  v_code : option Z; v_signal : option Z; v_core : bool; v_stopped : option Z; v_continued : bool
}.

(** [ExitStatus::from_raw(w)] read with the POSIX macros (glibc's definitions, as in std). *)
Definition u32_of (w : Z) : Z := w mod 4294967296.
Definition WTERMSIG (w : Z) : Z := Z.land (u32_of w) 127.
Definition WIFEXITED (w : Z) : bool := WTERMSIG w =? 0.
Definition WEXITSTATUS (w : Z) : Z := Z.land (Z.shiftr (u32_of w) 8) 255.
(** [((w & 0x7f) + 1) as i8 >> 1 > 0] *)
Definition WIFSIGNALED (w : Z) : bool := (1 <=? WTERMSIG w) && (WTERMSIG w <=? 126).
Definition WCOREDUMP (w : Z) : bool := negb (Z.land (u32_of w) 128 =? 0).
Definition WIFSTOPPED (w : Z) : bool := Z.land (u32_of w) 255 =? 127.
Definition WSTOPSIG (w : Z) : Z := WEXITSTATUS w.
Definition WIFCONTINUED (w : Z) : bool := u32_of w =? 65535.

Definition view_of_raw (w : Z) : status_view :=
  mkView (if WIFEXITED w then Some (WEXITSTATUS w) else None)
         (if WIFSIGNALED w then Some (WTERMSIG w) else None)
         (WIFSIGNALED w && WCOREDUMP w)
         (if WIFSTOPPED w then Some (WSTOPSIG w) else None)
         (WIFCONTINUED w).

(** [WaitInfo::status()] as it is: [ExitStatus::from_raw(si_status)]. *)
Definition wait_status (si_code si_status : Z) : status_view := view_of_raw si_status.

(** After the repair of H22 (b6a8da3): the wait-status word is rebuilt from [si_code]. *)
Definition wait_raw_fixed (si_code si_status : Z) : Z :=
  if si_code =? CLD_EXITED then Z.shiftl (Z.land si_status 255) 8
  else if si_code =? CLD_KILLED then Z.land si_status 127
  else if si_code =? CLD_DUMPED then Z.lor (Z.land si_status 127) 128
  else if (si_code =? CLD_STOPPED) || (si_code =? CLD_TRAPPED)
       then Z.lor (Z.shiftl (Z.land si_status 255) 8) 127
  else if si_code =? CLD_CONTINUED then 65535
  else si_status.
Definition wait_status_fixed (si_code si_status : Z) : status_view :=
  view_of_raw (wait_raw_fixed si_code si_status).

(** waitid(2): [si_status] is the exit code if [si_code] is CLD_EXITED and the signal number
    otherwise. What wait(2)'s status word for the same event would say: *)
Definition wait_status_spec (si_code si_status : Z) : status_view :=
  if si_code =? CLD_EXITED then mkView (Some si_status) None false None false
  else if si_code =? CLD_KILLED then mkView None (Some si_status) false None false
  else if si_code =? CLD_DUMPED then mkView None (Some si_status) true None false
  else if (si_code =? CLD_STOPPED) || (si_code =? CLD_TRAPPED)
       then mkView None None false (Some si_status) false
  else mkView None None false None true.

(** What waitid can report: one of the six codes; an exit code is a byte, a signal is 1..64. *)
Definition wait_wf (si_code si_status : Z) : Prop :=
  (si_code = CLD_EXITED /\ 0 <= si_status <= 255)
  \/ ((si_code = CLD_KILLED \/ si_code = CLD_DUMPED \/ si_code = CLD_STOPPED \/ si_code = CLD_TRAPPED
       \/ si_code = CLD_CONTINUED) /\ 1 <= si_status <= 64).

(** * 5. Socket option values ([option::Get::init]) *)
Inductive optclass :=
| OcBool        (* c_int, [>= 1] *)
| OcU32         (* c_int or u32 read as u32 *)
| OcError       (* SO_ERROR: 0 is None *)
| OcLinger      (* struct linger *)
| OcIncomingCpu. (* negative is None *)

Definition opt_size (c : optclass) : N := match c with OcLinger => 8%N | _ => 4%N end.

(** [None] = the length assertion fails (panic); the list is the rendering of the value:
    bool -> [b]; u32 -> [v]; optional -> [0] or [1; v]. *)
Definition opt_decode (c : optclass) (v v2 : Z) (len : N) : option (list Z) :=
  if negb (N.eqb len (opt_size c)) then None else
  Some match c with
       | OcBool => [if 1 <=? v then 1 else 0]
       | OcU32 => [u32_of v]
       | OcError => if v =? 0 then [0] else [1; v]
       | OcLinger => if 0 <? v then [1; u32_of v2] else [0]
       | OcIncomingCpu => if v <? 0 then [0] else [1; u32_of v]
       end.

(** getsockopt(2)/socket(7): boolean options are "non-zero = enabled". *)
Definition opt_spec (c : optclass) (v v2 : Z) : list Z :=
  match c with
  | OcBool => [if v =? 0 then 0 else 1]
  | OcU32 => [u32_of v]
  | OcError => if v =? 0 then [0] else [1; v]
  | OcLinger => if v =? 0 then [0] else [1; u32_of v2]
  | OcIncomingCpu => if v <? 0 then [0] else [1; u32_of v]
  end.

(** * Correspondence driver *)
Inductive c13case :=
| CEncode (o : op) (k : kind) (fd : N)
| CStatx (s : statx_fields)
| CWait (si_signo si_code si_status si_pid si_uid : Z)
| CResult (fb : fbclass) (k : kind) (fd : N) (res : Z)
| CFromRaw (k : kind) (n : Z)
| COpt (c : optclass) (v v2 : Z) (len : N).

Definition bz' (b : bool) : Z := if b then 1 else 0.
Definition oz (o : option Z) : Z := match o with Some z => z | None => -1 end.

Definition render_time (t : option systime) : list Z :=
  match t with Some t => [1; ns_of t] | None => [0; 0] end.

Definition render_view (v : status_view) : list Z :=
  [oz (v_code v); oz (v_signal v); bz' (v_core v); oz (v_stopped v); bz' (v_continued v)].

Definition render_fdref (f : fdref) : list Z :=
  match f with FdNum n => [0; n] | FdFixed i => [1; i] end.

Definition render_outcome (o : outcome) : list Z :=
  match o with
  | Done v => [0; Z.of_N v]
  | ErrOs e => [1; e]
  | ErrUnsupported => [2; 0]
  | Restart => [3; 0]
  | SyncCall c =>
      4 :: match c with
           | PGetsockname f _ _ _ | PGetsockopt f _ _ _ _ | PSetsockopt f _ _ _ => render_fdref f
           | PPipe2 _ flags _ => [2; Z.of_N flags]
           | _ => [9; 0]
           end
  end.

Definition run_c13case (c : c13case) : list Z :=
  match c with
  | CEncode o k fd => run_encode o k fd
  | CStatx s =>
      map bz' (file_type_flags (stx_mode s)) ++ map bz' (permission_flags (stx_mode s))
      ++ [Z.of_N (stx_size s); Z.of_N (stx_blksize s); Z.of_N (stx_mask s)]
      ++ render_time (timestamp (fst (stx_atime s)) (snd (stx_atime s)))
      ++ render_time (timestamp (fst (stx_mtime s)) (snd (stx_mtime s)))
      ++ render_time (timestamp (fst (stx_btime s)) (snd (stx_btime s)))
  | CWait signo code status pid uid =>
      [pid; u32_of uid; signo; code] ++ render_view (wait_status code status)
  | CResult fb k fd res => render_outcome (decode_result fb k fd res)
  | CFromRaw k n =>
      let raw := from_raw n k in
      [fd_of raw; match kind_of raw with Regular => 0 | Direct => 1 end]
  | COpt c v v2 len =>
      match opt_decode c v v2 len with Some l => 1 :: l | None => [0] end
  end.

(** The same driver for the code after both proposed fixes (switch [run_fn] in bin/props.py to
    this once the diffs are applied). *)
Definition run_c13case_fixed (c : c13case) : list Z :=
  match c with
  | CStatx s =>
      map bz' (file_type_flags (stx_mode s)) ++ map bz' (permission_flags (stx_mode s))
      ++ [Z.of_N (stx_size s); Z.of_N (stx_blksize s); Z.of_N (stx_mask s)]
      ++ render_time (timestamp_fixed (fst (stx_atime s)) (snd (stx_atime s)))
      ++ render_time (timestamp_fixed (fst (stx_mtime s)) (snd (stx_mtime s)))
      ++ render_time (timestamp_fixed (fst (stx_btime s)) (snd (stx_btime s)))
  | CWait signo code status pid uid =>
      [pid; u32_of uid; signo; code] ++ render_view (wait_status_fixed code status)
  | _ => run_c13case c
  end.

(** Model of the buffer traits of src/io/traits.rs (Buf, BufMut, BufSlice, BufMutSlice),
    their provided implementations and the LimitedBuf wrapper; SkipBuf / ReadNBuf of
    src/io/mod.rs and IoSlice::{set_len, skip} of src/unix.rs.

    A buffer is the triple (base address, initialised length, capacity) of one allocation.
    Every cast the Rust code performs ([as u32], [as usize]) is written out. Executable
    definitions only; proofs are in Proofs/BufTraitsProofs.v. *)
From A10 Require Import Base.Word Base.Run.

Record vbuf := { base : N; len : N; cap : N }.

(** Well-formed: [len <= cap], and lengths fit the [u32] the traits expose (buffers of 4 GiB
    and more are excluded: known finding H17). *)
Definition wf (b : vbuf) : Prop := len b <= cap b /\ cap b < two32 /\ base b + cap b < two64.
Definition wfb (b : vbuf) : bool :=
  (len b <=? cap b) && (cap b <? two32) && (base b + cap b <? two64).

(** [usize] -> [u32] clamp used by LimitedBuf after the H6 repair:
    [u32::try_from(limit).unwrap_or(u32::MAX)]. *)
Definition clamp32 (x : N) : N := N.min x (two32 - 1).

(** * Buf (Vec<u8>, Box<[u8]>, String, Box<str>, &'static [u8], &'static str, Cow, Arc, StaticBuf):
      all expose [(as_ptr, len as u32)]. *)
Definition buf_parts (b : vbuf) : N * N := (base b, trunc32 (len b)).
Definition buf_len (b : vbuf) : N := len b.
Definition buf_is_empty (b : vbuf) : bool := len b =? 0.

(** * BufMut for Vec<u8> *)
Definition mut_parts (b : vbuf) : N * N := (base b + len b, trunc32 (cap b - len b)).
Definition mut_set_init (b : vbuf) (n : N) : vbuf :=
  {| base := base b; len := len b + n; cap := cap b |}.
Definition mut_spare (b : vbuf) : N := trunc32 (cap b - len b).
Definition mut_has_spare (b : vbuf) : bool := len b <? cap b.

(** * LimitedBuf<B> with [limit : usize] *)
Record limited (B : Type) := { inner : B; limit : N }.
Arguments inner {B}. Arguments limit {B}.

Definition lim_buf_parts (l : limited vbuf) : N * N :=
  let '(p, n) := buf_parts (inner l) in (p, N.min n (clamp32 (limit l))).
Definition lim_buf_len (l : limited vbuf) : N := N.min (buf_len (inner l)) (limit l).
Definition lim_buf_is_empty (l : limited vbuf) : bool :=
  (limit l =? 0) || buf_is_empty (inner l).

Definition lim_mut_parts (l : limited vbuf) : N * N :=
  let '(p, n) := mut_parts (inner l) in (p, N.min n (clamp32 (limit l))).
Definition lim_mut_set_init (l : limited vbuf) (n : N) : limited vbuf :=
  {| inner := mut_set_init (inner l) n; limit := satsub (limit l) n |}.
Definition lim_mut_spare (l : limited vbuf) : N := N.min (mut_spare (inner l)) (clamp32 (limit l)).
Definition lim_mut_has_spare (l : limited vbuf) : bool :=
  negb (limit l =? 0) && mut_has_spare (inner l).

(** [Buf::as_slice]: the provided method builds the slice from [parts]; the owned and borrowed
    byte containers override it with themselves (the same pointer, [len] bytes). [LimitedBuf]
    does not override it, so it shows the pair of its [parts]. [None] stands for a panic. *)
Definition buf_as_slice (b : vbuf) : option (N * N) := Some (base b, len b).
Definition lim_buf_as_slice (l : limited vbuf) : option (N * N) := Some (lim_buf_parts l).
(** A variant that slices the inner slice by the limit ([&self.buf.as_slice()[..self.limit]],
    seeded change C14-k): out of range for a limit above the length. *)
Definition lim_buf_as_slice_k (l : limited vbuf) : option (N * N) :=
  if limit l <=? len (inner l) then Some (base (inner l), limit l) else None.

(** The code before the repair (H6): [self.limit as u32]. Kept to state what was wrong. *)
Definition lim_buf_parts_h6 (l : limited vbuf) : N * N :=
  let '(p, n) := buf_parts (inner l) in (p, N.min n (trunc32 (limit l))).

(** * Slices: arrays [B; N] and tuples are lists of buffers (any arity). *)
Definition iov := (N * N)%type.   (* iov_base, iov_len (usize) *)

Definition slice_iovecs (bs : list vbuf) : list iov := map buf_parts bs.
Definition slice_total_len (bs : list vbuf) : N := fold_right (fun b a => buf_len b + a) 0 bs.
Definition slice_is_empty (bs : list vbuf) : bool := forallb buf_is_empty bs.

Definition mslice_iovecs (bs : list vbuf) : list iov := map mut_parts bs.
(** [u32] sum: [None] models the overflow panic of a debug build. *)
Definition mslice_total_spare (bs : list vbuf) : N :=
  fold_right (fun b a => mut_spare b + a) 0 bs.
Definition mslice_has_spare (bs : list vbuf) : bool := existsb mut_has_spare bs.

(** [BufMutSlice::set_init] for arrays and tuples; [None] = the [unreachable!()] panic. *)
Fixpoint mslice_set_init (bs : list vbuf) (left : N) : option (list vbuf) :=
  match bs with
  | [] => None
  | b :: bs' =>
      let l := snd (mut_parts b) in
      if l <? left then
        match mslice_set_init bs' (left - l) with
        | Some r => Some (mut_set_init b l :: r)
        | None => None
        end
      else Some (mut_set_init b left :: bs')
  end.

(** LimitedBuf over slices: clamp the iovecs front to back. *)
Fixpoint limit_iovecs (iovs : list iov) (left : N) : list iov :=
  match iovs with
  | [] => []
  | (p, l) :: r =>
      if l <=? left then (p, l) :: limit_iovecs r (left - l)
      else (p, left) :: limit_iovecs r 0
  end.

Definition lim_slice_iovecs (l : limited (list vbuf)) : list iov :=
  limit_iovecs (slice_iovecs (inner l)) (limit l).
Definition lim_slice_total_len (l : limited (list vbuf)) : N :=
  N.min (slice_total_len (inner l)) (limit l).
Definition lim_slice_is_empty (l : limited (list vbuf)) : bool :=
  (limit l =? 0) || slice_is_empty (inner l).

Definition lim_mslice_iovecs (l : limited (list vbuf)) : list iov :=
  limit_iovecs (mslice_iovecs (inner l)) (limit l).
Definition lim_mslice_set_init (l : limited (list vbuf)) (n : N) : option (limited (list vbuf)) :=
  match mslice_set_init (inner l) n with
  | Some bs => Some {| inner := bs; limit := satsub (limit l) n |}
  | None => None
  end.
Definition lim_mslice_total_spare (l : limited (list vbuf)) : N :=
  N.min (mslice_total_spare (inner l)) (clamp32 (limit l)).
Definition lim_mslice_has_spare (l : limited (list vbuf)) : bool :=
  negb (limit l =? 0) && mslice_has_spare (inner l).

(** * SkipBuf (src/io/mod.rs), [skip : u32] *)
Definition skip_parts (b : vbuf) (skip : N) : N * N :=
  let '(p, size) := buf_parts b in
  if size <=? skip then (p, 0) else (p + skip, size - skip).

(** * ReadNBuf (src/io/mod.rs), the counting wrapper of read_n / recv_n: forwards everything to
    the inner buffer and remembers the size of the last transfer — every transfer, also one of
    0 bytes (that is how the read loops see the end of the stream). Both impls (BufMut,
    BufMutSlice) have the same shape. *)
Record readn (B : Type) := { rn_buf : B; rn_last : N }.
Arguments rn_buf {B}. Arguments rn_last {B}.
Definition readn_set_init (r : readn vbuf) (n : N) : readn vbuf :=
  {| rn_buf := mut_set_init (rn_buf r) n; rn_last := n |}.
Definition readn_mslice_set_init (r : readn (list vbuf)) (n : N) : option (readn (list vbuf)) :=
  match mslice_set_init (rn_buf r) n with
  | Some bs => Some {| rn_buf := bs; rn_last := n |}
  | None => None
  end.

(** * IoSlice::{set_len, skip} as used by write_all_vectored: drop [skip] bytes front to back. *)
Fixpoint skip_iovecs (iovs : list iov) (skip : N) : list iov :=
  match iovs with
  | [] => []
  | (p, l) :: r =>
      if l <=? skip then (p, 0) :: skip_iovecs r (skip - l)
      else (p + skip, l - skip) :: r
  end.

(** * Specification helpers (independent of the loops above). *)
Definition sum_lens (iovs : list iov) : N := fold_right (fun i a => snd i + a) 0 iovs.

(** Canonical front-to-back distribution of [n] bytes over capacities [cs]. *)
Fixpoint distribute (n : N) (cs : list N) : list N :=
  match cs with
  | [] => []
  | c :: cs' => N.min n c :: distribute (n - N.min n c) cs'
  end.

Definition in_alloc (b : vbuf) (i : iov) : Prop :=
  base b <= fst i /\ fst i + snd i <= base b + cap b.

(** * Correspondence driver.
    A case is a list of buffers, an optional limit, the trait family under test and a list
    of operations; the observation is a flat list of integers, with every pointer given
    relative to the base of the buffer it belongs to. *)
Inductive family := FBuf | FBufMut | FSlice | FMutSlice.
Inductive bop :=
  | Query            (* parts / iovecs, len / spare, is_empty / has_spare, as_slice (Buf) *)
  | SetInit (n : N). (* only for the Mut families *)

Record bcase := { c_family : family; c_bufs : list vbuf; c_limit : option N; c_ops : list bop }.

Definition rel (b : vbuf) (i : iov) : list Z := [Z.of_N (fst i) - Z.of_N (base b); Z.of_N (snd i)]%Z.

Fixpoint rels (bs : list vbuf) (is : list iov) : list Z :=
  match bs, is with
  | b :: bs', i :: is' => rel b i ++ rels bs' is'
  | _, _ => []
  end.

Definition rel_opt (b : vbuf) (o : option iov) : list Z :=
  match o with Some i => rel b i | None => [(-1)%Z; (-1)%Z] end.

Definition hd_buf (bs : list vbuf) : vbuf :=
  match bs with b :: _ => b | [] => {| base := 0; len := 0; cap := 0 |} end.

(** State threaded through the operations: the buffers and the remaining limit. *)
Definition query (f : family) (bs : list vbuf) (lim : option N) : list Z :=
  match f, lim with
  | FBuf, None =>
      let b := hd_buf bs in
      rel b (buf_parts b) ++ [nz (buf_len b); bz (buf_is_empty b)] ++ rel_opt b (buf_as_slice b)
  | FBuf, Some l =>
      let b := hd_buf bs in let lb := {| inner := b; limit := l |} in
      rel b (lim_buf_parts lb) ++ [nz (lim_buf_len lb); bz (lim_buf_is_empty lb)]
      ++ rel_opt b (lim_buf_as_slice lb)
  | FBufMut, None =>
      let b := hd_buf bs in
      rel b (mut_parts b) ++ [nz (mut_spare b); bz (mut_has_spare b)]
  | FBufMut, Some l =>
      let b := hd_buf bs in let lb := {| inner := b; limit := l |} in
      rel b (lim_mut_parts lb) ++ [nz (lim_mut_spare lb); bz (lim_mut_has_spare lb)]
  | FSlice, None =>
      rels bs (slice_iovecs bs) ++ [nz (slice_total_len bs); bz (slice_is_empty bs)]
  | FSlice, Some l =>
      let lb := {| inner := bs; limit := l |} in
      rels bs (lim_slice_iovecs lb) ++ [nz (lim_slice_total_len lb); bz (lim_slice_is_empty lb)]
  | FMutSlice, None =>
      rels bs (mslice_iovecs bs) ++ [nz (mslice_total_spare bs); bz (mslice_has_spare bs)]
  | FMutSlice, Some l =>
      let lb := {| inner := bs; limit := l |} in
      rels bs (lim_mslice_iovecs lb) ++ [nz (lim_mslice_total_spare lb); bz (lim_mslice_has_spare lb)]
  end.

Definition set_init_step (f : family) (bs : list vbuf) (lim : option N) (n : N)
  : option (list vbuf * option N) :=
  match f with
  | FBufMut =>
      match bs with
      | b :: r => Some (mut_set_init b n :: r, option_map (fun l => satsub l n) lim)
      | [] => None
      end
  | FMutSlice =>
      match mslice_set_init bs n with
      | Some bs' => Some (bs', option_map (fun l => satsub l n) lim)
      | None => None
      end
  | _ => Some (bs, lim)
  end.

(** [SetInit] itself shows nothing (the wrappers do not expose their inner buffers); the
    driver places a [Query] after it, and the final vector lengths are appended at the end. *)
Fixpoint run_ops (f : family) (bs : list vbuf) (lim : option N) (ops : list bop) : list Z :=
  match ops with
  | [] => map (fun b => nz (len b)) bs
  | Query :: r => query f bs lim ++ run_ops f bs lim r
  | SetInit n :: r =>
      match set_init_step f bs lim n with
      | Some (bs', lim') => run_ops f bs' lim' r
      | None => [(-1)%Z]
      end
  end.

Definition run_bcase (c : bcase) : list Z := run_ops (c_family c) (c_bufs c) (c_limit c) (c_ops c).

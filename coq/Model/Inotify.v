(** Byte-level model of the inotify event decoder of src/inotify/mod.rs ([Events::poll_sys],
    [Events::path_for_sys], [EventsState], [BUF_SIZE]) as exposed by src/fs/notify.rs
    ([Watcher], [Events::poll_next], [Events::path_for], [Event]).

    The kernel side is a list of [record]s serialised exactly as [struct inotify_event]
    (x86-64 Linux, little-endian): 16-byte header [wd : i32], [mask : u32], [cookie : u32],
    [len : u32] followed by [len] bytes: the name and its NUL padding. A read completion
    delivers the bytes of zero or more whole records at the front of the 272-byte buffer, or
    fails with an errno.

    The decoder is transcribed from the code as it is:
    - the walk over one read ([process]): [len] is read at offset 12, [processed += 16 + len],
      [mask] at offset 4; [IN_IGNORED] set => [watching.remove(wd)] and no event; otherwise
      [IN_Q_OVERFLOW] set => no event; otherwise the name is
      [path[..path.iter().rposition(|b| *b != 0).map_or(len, |n| n + 1)]]: cut after the LAST
      non-NUL byte, and the whole [len] bytes when every byte is NUL;
    - the event handed out is a reference into the read buffer: a [view] (offset, name length);
    - [Reading] / [Processing] / [Done]: a 0-byte read or a failed read ends the stream for good
      (a read failing with EINTR or ECANCELED is reissued by the operation layer);
      an exhausted buffer is cleared and handed back to the kernel for the next read;
    - [path_for]: [watching.get(wd)]: unknown => the bare name; known and the name is empty =>
      the watched path; else [PathBuf::join] (Unix [PathBuf::push]).
    Every index the decoder dereferences (and every byte the returned reference covers) is
    returned as a ghost list, paired with the length of the current read.

    [usize] arithmetic: [processed + 16 + len] with [len < 2^32] and [processed <= 272] cannot
    wrap on a 64-bit target; it is modelled in [nat]. The two [debug_assert!]s of the walk are
    not modelled (on whole records they hold: [process_batch] in the proofs shows the walk ends
    exactly at the end of the buffer). The alignment of the header pointer is not modelled
    either (the kernel keeps records 16-byte aligned: [kernel_record_aligned]).

    Executable definitions only; proofs are in Proofs/InotifyProofs.v. *)
From A10 Require Import Base.Word Base.Run.

(** * Constants (linux/inotify.h, limits.h) *)
Definition IN_IGNORED : N := 32768.     (* 0x8000 *)
Definition IN_Q_OVERFLOW : N := 16384.  (* 0x4000 *)
Definition HDR : nat := 16.             (* size_of::<libc::inotify_event>() *)
Definition NAME_MAX : nat := 255.
(** [BUF_SIZE = size_of::<inotify_event>() + NAME_MAX + 1]. *)
Definition BUF_SIZE : nat := 272.
Definition SEP : N := 47.               (* '/' *)
Definition EINTR : Z := 4.
Definition EINVAL : Z := 22.
Definition ECANCELED : Z := 125.

(** What the operation layer under [fd.read] (src/io_uring/op.rs, [poll_inner] and [fallback])
    does with a failed completion before [Events] sees it: EINTR and ECANCELED restart the
    operation (the caller never sees them); EINVAL is replaced by an [io::Error] of kind
    [Unsupported] that carries no errno (canonically -1); any other errno is passed on. *)
Definition op_restarts (e : Z) : bool := Z.eqb e EINTR || Z.eqb e ECANCELED.
Definition op_errno (e : Z) : Z := if Z.eqb e EINVAL then (-1)%Z else e.

(** * Kernel records and their serialisation *)
Record record := { r_wd : Z; r_mask : N; r_cookie : N; r_name : list N; r_pad : N }.

Definition u32_le (x : N) : list N :=
  [x mod 256; (x / 256) mod 256; (x / 65536) mod 256; (x / 16777216) mod 256].
(** Two's complement of an [i32]. *)
Definition i32_bits (z : Z) : N := Z.to_N (z mod 4294967296)%Z.
Definition to_i32 (x : N) : Z :=
  if x <? two31 then Z.of_N x else (Z.of_N x - 4294967296)%Z.
Definition zeros (n : nat) : list N := repeat 0 n.
(** The [len] field: name plus padding. *)
Definition rec_len (r : record) : N := N.of_nat (length (r_name r)) + r_pad r.

Definition ser (r : record) : list N :=
  u32_le (i32_bits (r_wd r)) ++ u32_le (r_mask r) ++ u32_le (r_cookie r) ++ u32_le (rec_len r)
  ++ r_name r ++ zeros (N.to_nat (r_pad r)).

Definition wire (rs : list record) : list N := flat_map ser rs.

(** * The table of watches: [HashMap<WatchFd, CString>] *)
Definition watching := list (Z * list N).

Fixpoint w_get (k : Z) (w : watching) : option (list N) :=
  match w with
  | [] => None
  | (k', p) :: w' => if Z.eqb k k' then Some p else w_get k w'
  end.
Fixpoint w_remove (k : Z) (w : watching) : watching :=
  match w with
  | [] => []
  | (k', p) :: w' => if Z.eqb k k' then w_remove k w' else (k', p) :: w_remove k w'
  end.
(** [watching.insert(wd, path)]: replaces. *)
Definition w_insert (k : Z) (p : list N) (w : watching) : watching := (k, p) :: w_remove k w.

(** * Reading the buffer *)
Definition get (buf : list N) (i : nat) : N := nth i buf 0.
Definition le32_at (buf : list N) (o : nat) : N :=
  get buf o + 256 * get buf (o + 1) + 65536 * get buf (o + 2) + 16777216 * get buf (o + 3).
Definition sub (off n : nat) (l : list N) : list N := firstn n (skipn off l).
Definition idx4 (o : nat) : list nat := [o; o + 1; o + 2; o + 3]%nat.

(** [iter().rposition(|b| *b != 0)] *)
Fixpoint rposition_nz (l : list N) : option nat :=
  match l with
  | [] => None
  | b :: t =>
      match rposition_nz t with
      | Some n => Some (S n)
      | None => if b =? 0 then None else Some O
      end
  end.
(** [.map_or(len, |n| n + 1)] *)
Definition path_len (l : list N) : nat :=
  match rposition_nz l with Some n => S n | None => length l end.

(** The reference handed out: [&*(slice_from_raw_parts(event_ptr, path_len) as *const Event)]:
    header at [v_off], name bytes at [v_off + 16 .. v_off + 16 + v_plen], inside the buffer. *)
Record view := { v_off : nat; v_plen : nat }.

(** What the public API shows of an event: [Debug] prints [wd], [mask], [cookie];
    [file_path] the name. *)
Record event := { e_wd : Z; e_mask : N; e_cookie : N; e_name : list N }.

Definition read_view (mem : list N) (v : view) : event :=
  {| e_wd := to_i32 (le32_at mem (v_off v));
     e_mask := le32_at mem (v_off v + 4);
     e_cookie := le32_at mem (v_off v + 8);
     e_name := sub (v_off v + HDR) (v_plen v) mem |}.

(** The [Processing] arm: walk records from [p] until one is handed out or the buffer is
    exhausted. Every iteration advances [p] by at least 16, so [length buf] iterations are
    enough (lemma [process_fuel_irrelevant]). Result: table, new [processed], the reference
    handed out (if any) and the indices dereferenced. *)
Fixpoint process (fuel : nat) (w : watching) (buf : list N) (p : nat)
  : watching * nat * option view * list nat :=
  match fuel with
  | O => (w, p, None, [])
  | S f =>
      if (length buf <=? p)%nat then (w, p, None, [])
      else
        let len := N.to_nat (le32_at buf (p + 12)) in
        let p' := (p + HDR + len)%nat in
        let m := le32_at buf (p + 4) in
        if negb (N.land m IN_IGNORED =? 0) then
          let wdv := to_i32 (le32_at buf p) in
          let '(w2, p2, v, g) := process f (w_remove wdv w) buf p' in
          (w2, p2, v, idx4 (p + 12) ++ idx4 (p + 4) ++ idx4 p ++ g)
        else if negb (N.land m IN_Q_OVERFLOW =? 0) then
          let '(w2, p2, v, g) := process f w buf p' in
          (w2, p2, v, idx4 (p + 12) ++ idx4 (p + 4) ++ g)
        else
          let plen := path_len (sub (p + HDR) len buf) in
          (w, p', Some {| v_off := p; v_plen := plen |},
           idx4 (p + 12) ++ idx4 (p + 4) ++ seq (p + HDR) len ++ seq p (HDR + plen))
  end.

(** * [path_for] *)
Definition starts_with_sep (p : list N) : bool :=
  match p with b :: _ => b =? SEP | [] => false end.
Definition need_sep (base : list N) : bool :=
  match rev base with b :: _ => negb (b =? SEP) | [] => false end.
(** [Path::join] = [PathBuf::push] on Unix: an absolute argument replaces the base. *)
Definition path_join (base p : list N) : list N :=
  if starts_with_sep p then p
  else if need_sep base then base ++ [SEP] ++ p else base ++ p.

Definition path_for (w : watching) (e : event) : list N :=
  match w_get (e_wd e) w with
  | Some base => match e_name e with [] => base | _ => path_join base (e_name e) end
  | None => e_name e
  end.

(** * The iterator *)
Inductive rd := RBytes (bs : list N) | RErr (errno : Z).
Inductive phase := PReading | PProcessing (buf : list N) (p : nat) | PDone.
(** [s_mem]: the heap block behind the buffer [Vec] (one block for the whole life of the
    iterator: [buf.clear()] keeps it); [s_reads]: the read completions still to come. *)
Record st := { s_watch : watching; s_phase : phase; s_mem : list N; s_reads : list rd }.

Inductive item :=
  | IEvent (v : view) (e : event) (path : list N)
  | IErr (errno : Z)
  | INone
  | IPending.

(** Result of one [next()]: state, item, READ requests handed to the kernel, ghost accesses
    (index, length of the read it was made in). *)
Record polled := { p_state : st; p_item : item; p_nreads : nat; p_touch : list (nat * nat) }.

(** The kernel writes [bs] at the front of the block. *)
Definition overlay (bs mem : list N) : list N := bs ++ skipn (length bs) mem.
Definition tag (n : nat) (g : list nat) : list (nat * nat) := map (fun i => (i, n)) g.
Definition is_nil {A} (l : list A) : bool := match l with [] => true | _ => false end.

(** The [Reading] arm (and the loop back into [Processing]). *)
Fixpoint from_reading (w : watching) (mem : list N) (reads : list rd) (nr : nat)
         (g : list (nat * nat)) : polled :=
  match reads with
  | [] =>
      {| p_state := {| s_watch := w; s_phase := PReading; s_mem := mem; s_reads := [] |};
         p_item := IPending; p_nreads := S nr; p_touch := g |}
  | RErr e :: rs =>
      if op_restarts e then from_reading w mem rs (S nr) g
      else
        {| p_state := {| s_watch := w; s_phase := PDone; s_mem := mem; s_reads := rs |};
           p_item := IErr (op_errno e); p_nreads := S nr; p_touch := g |}
  | RBytes bs :: rs =>
      if is_nil bs then
        {| p_state := {| s_watch := w; s_phase := PDone; s_mem := mem; s_reads := rs |};
           p_item := INone; p_nreads := S nr; p_touch := g |}
      else
        let mem' := overlay bs mem in
        let '(w', p', ov, gt) := process (length bs) w bs 0 in
        let g' := g ++ tag (length bs) gt in
        match ov with
        | Some v =>
            let e := read_view bs v in
            {| p_state := {| s_watch := w'; s_phase := PProcessing bs p'; s_mem := mem'; s_reads := rs |};
               p_item := IEvent v e (path_for w' e); p_nreads := S nr; p_touch := g' |}
        | None => from_reading w' mem' rs (S nr) g'
        end
  end.

(** One [next()]: [poll_next] until it is ready (the kernel completing reads from the script),
    or [IPending] when the script is exhausted. *)
Definition next (s : st) : polled :=
  match s_phase s with
  | PDone => {| p_state := s; p_item := INone; p_nreads := 0; p_touch := [] |}
  | PReading => from_reading (s_watch s) (s_mem s) (s_reads s) 0 []
  | PProcessing buf p =>
      let '(w', p', ov, gt) := process (length buf) (s_watch s) buf p in
      let g := tag (length buf) gt in
      match ov with
      | Some v =>
          let e := read_view buf v in
          {| p_state := {| s_watch := w'; s_phase := PProcessing buf p'; s_mem := s_mem s;
                           s_reads := s_reads s |};
             p_item := IEvent v e (path_for w' e); p_nreads := 0; p_touch := g |}
      | None => from_reading w' (s_mem s) (s_reads s) 0 g
      end
  end.

Definition init (w : watching) (reads : list rd) : st :=
  {| s_watch := w; s_phase := PReading; s_mem := zeros BUF_SIZE; s_reads := reads |}.

Fixpoint poll_n (k : nat) (s : st) : list polled :=
  match k with
  | O => []
  | S k' => let r := next s in r :: poll_n k' (p_state r)
  end.

(** What an event reference obtained earlier shows now: the block is freed once the iterator is
    [Done] (the 0-byte or failed read dropped the [Vec]); otherwise the current bytes. *)
Definition reread (s : st) (v : view) : option event :=
  match s_phase s with
  | PDone => None
  | _ => Some (read_view (s_mem s) v)
  end.

(** * Correspondence driver *)
Inductive rdspec := Batch (rs : list record) | Fail (errno : Z).
Definition wire_rd (x : rdspec) : rd :=
  match x with Batch rs => RBytes (wire rs) | Fail e => RErr e end.

(** [ic_watch]: the [watch] calls in order (descriptor returned by the kernel, path relative
    to the case's directory); [ic_extra]: polls made after the stream ended; [ic_keep]: for the
    i-th event handed out, after how many further polls it is read again (0 = not kept; the
    last poll reads again everything still kept). *)
Record incase := { ic_watch : list (Z * list N); ic_script : list rdspec; ic_extra : nat;
                   ic_keep : list nat }.

(** Constructors taking plain integers (what the harness prints). *)
Definition bytes (l : list Z) : list N := map Z.to_N l.
Definition mk_rec (wd maskv cookiev : Z) (namev : list Z) (padv : Z) : record :=
  {| r_wd := wd; r_mask := Z.to_N maskv; r_cookie := Z.to_N cookiev; r_name := bytes namev;
     r_pad := Z.to_N padv |}.
Definition mk_case (ws : list (Z * list Z)) (sc : list rdspec) (extra : Z) (keep : list Z) : incase :=
  {| ic_watch := map (fun '(k, p) => (k, bytes p)) ws; ic_script := sc; ic_extra := Z.to_nat extra;
     ic_keep := map Z.to_nat keep |}.

Definition watch_table (ws : list (Z * list N)) : watching :=
  fold_left (fun w '(k, p) => w_insert k p w) ws [].

(** Poll until the stream ends (then [extra] more polls) or is pending. *)
Fixpoint drain (fuel extra : nat) (s : st) : list polled :=
  match fuel with
  | O => []
  | S f =>
      let r := next s in
      match p_item r with
      | IEvent _ _ _ => r :: drain f extra (p_state r)
      | IPending => [r]
      | _ => r :: poll_n extra (p_state r)
      end
  end.

Definition obs_bytes (l : list N) : list Z := Z.of_nat (length l) :: map nz l.
Definition obs_event (e : event) : list Z :=
  [e_wd e; nz (e_mask e); nz (e_cookie e)] ++ obs_bytes (e_name e).
Definition obs_item (it : item) : list Z :=
  match it with
  | IEvent _ e path => 1%Z :: obs_event e ++ obs_bytes path
  | IErr e => [2%Z; e]
  | INone => [3%Z]
  | IPending => [4%Z]
  end.
Definition obs_poll (r : polled) : list Z :=
  Z.of_nat (p_nreads r) :: repeat (Z.of_nat BUF_SIZE) (p_nreads r) ++ obs_item (p_item r).
Definition obs_reread (s : st) (k : nat * view * nat) : list Z :=
  let '(i, v, _) := k in
  match reread s v with
  | Some e => 6%Z :: Z.of_nat i :: obs_event e
  | None => [7%Z; Z.of_nat i]
  end.

Fixpoint run_polls (ps : list polled) (j ei : nat) (keep : list nat)
         (kept : list (nat * view * nat)) : list Z :=
  match ps with
  | [] => []
  | r :: ps' =>
      let last := is_nil ps' in
      let '(ei', kept1) :=
        match p_item r with
        | IEvent v _ _ =>
            let k := nth ei keep O in
            (S ei, match k with O => kept | _ => kept ++ [(ei, v, (j + k)%nat)] end)
        | _ => (ei, kept)
        end in
      let is_due := fun (x : nat * view * nat) => let '(_, _, d) := x in last || (d <=? j)%nat in
      obs_poll r
      ++ flat_map (obs_reread (p_state r)) (filter is_due kept1)
      ++ run_polls ps' (S j) ei' keep (filter (fun x => negb (is_due x)) kept1)
  end.

Definition script_fuel (sc : list rdspec) : nat :=
  S (fold_right (fun x n => match x with Batch rs => length rs + n | Fail _ => n end)%nat O sc).

Definition run_incase (c : incase) : list Z :=
  let s0 := init (watch_table (ic_watch c)) (map wire_rd (ic_script c)) in
  run_polls (drain (script_fuel (ic_script c)) (ic_extra c) s0) 0 0 (ic_keep c) [].

(** Model of the ring wake-up handshake: src/lib.rs [PollingState], src/io_uring/cq.rs
    [Completions::poll], src/io_uring/sq.rs [Submissions::wake] and [Shared::enter], for one
    poller thread calling [Ring::poll(None)] or [Ring::poll(Some(finite timeout))] and any number
    of waker threads calling [SubmissionQueue::wake], against a kernel that executes MSG_RING (K6).

    Small-step at the granularity of the hook-B scheduling points (one thread step = the code
    between two of them), so that an interleaving executed by the baton scheduler on the real
    code can be replayed step by step. The rings are abstracted to counters (their mechanics
    are C04/C05): [sqh]/[sqt] submissions consumed/published, [cq] completions published and
    not yet released. Three ring modes: default, single issuer (synchronous
    IORING_REGISTER_SEND_MSG_RING), kernel thread (SQPOLL).

    The poller's [io_uring_enter] can be interrupted by a signal (EINTR): event [PI], either at
    the call itself (the call does its submission work and then fails: the simulated kernel's
    [fail_next_enter] injection) or while it is blocked ([PInKernel]: a signal arrives later).
    [Shared::enter] turns EINTR into [Ok(0)] without [wake_blocked_futures];
    [Completions::poll] goes on with [set_polling(false)], reloads the tail, processes what is
    there, stores the head, runs the end-of-poll [wake_blocked_futures] and returns.

    Per-poll timeouts: [tmos] says for each poll still to make whether the caller passed [None]
    ([false]) or [Some(finite)] ([true]). [Completions::poll] uses a zero timeout when
    [set_polling(true)] reported "awoken", whatever the caller passed, and the caller's timeout
    otherwise; so a poll that blocks ([PInKernel]) waits without a timeout or with the caller's
    finite one ([timed]). The duration itself is not modelled: a timed wait ends with ETIME (event
    [Timeout]) exactly when the scheduler reports that nobody is left who could wake it — the
    precondition of [Stuck], for a timed wait. [Shared::enter] turns ETIME into [Ok(0)] without
    [wake_blocked_futures], the poll goes on with [set_polling(false)] like after EINTR. The ghost
    [lost] is set when a wake-up is owed at that moment: the poll slept its whole timeout through
    a wake-up.

    Futures parked on the blocked-futures list ([Shared::blocked_futures]: they were polled while
    the submission queue was full, [Submissions::wait_for_submission] pushed their waker): the
    state has their number [parked]; [Shared::wake_blocked_futures] is modelled as the code has it,
    with all its scheduling points, at its three call sites (after a successful enter of the
    poller, at the end of every poll, after a waker's enter):
      load SQ head; load SQ tail; [available = len.saturating_sub(tail - head)]; return when 0;
      try_lock; return when the list is empty; take the list, unlock;
      wake [min(available, n)] of the [n] wakers taken; LOCK (again); swap the list (what was
      parked meanwhile) with the rest; of what was parked meanwhile put the last
      [min(available - awoken, .)] back and wake the others; unlock.
    The blocked-futures mutex is never held across a scheduling point (by nobody: neither
    [wait_for_submission] nor the two critical sections here contain one), so the try_lock always
    succeeds and the LOCK never spins; a replay in which it did would diverge (code 2 instead of
    1). Waking a waker has no scheduling point. Nobody parks during the race and woken futures are
    not polled again, so the list only shrinks (and "what was parked meanwhile" is always
    nothing; the arithmetic is kept as written). The locals of the function ([available]; the
    wakers taken and not woken, what is left of [available]) live in the program counter. *)
From A10 Require Import Base.Word Base.Run Gen.Consts.

Inductive mode := Default | SingleIssuer | KernelThread.

(** Where the poller is inside [Completions::poll] / [Shared::enter]. The name says which
    scheduling point it is stopped at. *)
Inductive ppc :=
  | PIdle                 (* between polls (next: load CQ head), or finished *)
  | PLoadCqT              (* load CQ tail *)
  | PSetPolling           (* PollingState::set_polling(true) *)
  | PEnterH | PEnterT     (* unsubmitted_submissions: load SQ head, load SQ tail (+ syscall) *)
  | PEnterFlags           (* kernel-thread mode: load kernel flags (+ syscall) *)
  | PInKernel             (* blocked inside io_uring_enter *)
  | PWbH | PWbT           (* wake_blocked_futures: two loads, ... *)
  | PWbTry (avail : N)    (* ... try_lock; local: the available slots computed from the two loads *)
  | PWbLock (rest left : N) (* ... LOCK to put back; locals: wakers taken and not woken, available - awoken *)
  | PClearPolling         (* PollingState::set_polling(false) *)
  | PClearPollingIntr     (* the same code point, reached from an enter that failed with EINTR: the code as it is
                             does not tell the two apart; a poll that retried its wait would (see [pstep_loop]) *)
  | PLoadCqT2             (* reload CQ tail *)
  | PStoreHead            (* store CQ head *)
  | PEndWbH | PEndWbT | PEndWbTry (avail : N) | PEndWbLock (rest left : N).
                          (* wake_blocked_futures at the end of every poll (repair of H15); the poll returns afterwards *)

(** Where a waker is inside [Submissions::wake]. *)
Inductive wpc :=
  | WIdle                 (* next: PollingState::wake (fetch_or) *)
  | WAddH1 | WAddT1 | WAddLock | WAddSpin | WAddH2 | WAddT2 | WAddFill | WAddStore
  | WEnterH | WEnterT | WEnterFlags
  | WWbH | WWbT | WWbTry (avail : N) | WWbLock (rest left : N).

Record waker := { wp : wpc; calls : nat (* wake() calls still to make, incl. the current one *);
                  wok : bool (* local: the add of the current attempt succeeded *) }.

Record st := {
  md : mode;
  pstate : N;             (* PollingState: bit 0 polling, bit 1 awoken *)
  cap : N;                (* submission queue entries *)
  sqh : N; sqt : N;       (* submissions consumed / published *)
  sqo : N;                (* of the pending ones, how many (at the front) are not wake messages: operations queued
                             before the race that never complete *)
  cq : N;                 (* completions published, not yet released *)
  holder : option nat;    (* submission lock *)
  pp : ppc;
  polls : nat;            (* poll() calls still to make, incl. the current one *)
  tmos : list bool;       (* per poll() call still to make, incl. the current one: the caller's timeout is
                             [Some(finite)] ([true]) or [None] ([false]; also when the list has run out) *)
  aw : bool;              (* local: set_polling(true) reported "awoken" *)
  lh : N;                 (* local: loaded SQ head *)
  seen : N;               (* local: completions the current poll will release *)
  parked : N;             (* wakers on the blocked-futures list: futures polled while the queue was full *)
  psub : N;               (* kernel side: what the poller's blocked io_uring_enter submitted before it blocked
                             (a wait interrupted after submitting something reports the count, not EINTR) *)
  wakers : list waker;
  wlh : list N;           (* per waker local: loaded SQ head *)
  (* ghost *)
  owed : bool;            (* a wake() was called since the last poll returned *)
  lost : bool;            (* the poller blocked for ever, or slept its whole timeout, although a wake-up was owed *)
}.

Definition init (m : mode) (c prefill nparked : N) (npolls : nat) (tm : list bool) (wcalls : list nat) : st :=
  {| md := m; cap := c; sqo := prefill; pstate := 0; sqh := 0; sqt := prefill; cq := 0; holder := None;
     pp := PIdle; polls := npolls; aw := false; lh := 0; seen := 0; psub := 0;
     wakers := map (fun c => {| wp := WIdle; calls := c; wok := false |}) wcalls;
     wlh := map (fun _ => 0) wcalls; parked := nparked; owed := false; tmos := tm; lost := false |}.

(** The caller's timeout of the poll in progress (or of the next one to start) is finite. *)
Definition timed (s : st) : bool := hd false (tmos s).

Definition ppc_code (p : ppc) : Z :=
  match p with
  | PIdle | PLoadCqT | PEnterH | PEnterT | PEnterFlags | PWbH | PWbT | PLoadCqT2 | PEndWbH | PEndWbT => 4
  | PSetPolling | PClearPolling | PClearPollingIntr => 8
  | PWbTry _ | PEndWbTry _ => 3
  | PWbLock _ _ | PEndWbLock _ _ => 1
  | PStoreHead => 6
  | PInKernel => 998
  end.
Definition wpc_code (p : wpc) : Z :=
  match p with
  | WIdle => 8
  | WAddH1 | WAddT1 | WAddH2 | WAddT2 | WEnterH | WEnterT | WEnterFlags | WWbH | WWbT => 4
  | WAddLock | WWbLock _ _ => 1
  | WAddSpin => 2
  | WAddFill => 9
  | WAddStore => 5
  | WWbTry _ => 3
  end.

Definition upd (s : st) (f : st -> st) : st := f s.

(** Record updates, spelled out. *)
Definition set_p (s : st) (p : ppc) : st :=
  {| md := md s; cap := cap s; sqo := sqo s; pstate := pstate s; sqh := sqh s; sqt := sqt s; cq := cq s; holder := holder s;
     pp := p; polls := polls s; aw := aw s; lh := lh s; seen := seen s; wakers := wakers s;
     wlh := wlh s; psub := psub s; parked := parked s; owed := owed s; tmos := tmos s; lost := lost s |}.

(** The kernel consumes [k] wake messages: each posts its message completion and, when
    submitted through the ring, the sender's own completion. *)
Definition consume (s : st) (k : N) : st :=
  let k' := N.min k (sqt s - sqh s) in
  let o := N.min k' (sqo s) in
  {| md := md s; cap := cap s; sqo := sqo s - o; pstate := pstate s; sqh := sqh s + k'; sqt := sqt s;
     cq := cq s + 2 * (k' - o);
     holder := holder s; pp := pp s; polls := polls s; aw := aw s; lh := lh s; seen := seen s;
     wakers := wakers s; wlh := wlh s; psub := psub s; parked := parked s; owed := owed s; tmos := tmos s; lost := lost s |}.

Definition consume_all (s : st) : st := consume s (sqt s - sqh s).

(** What a syscall does with the submission queue first. *)
Definition syscall_submit (s : st) (to_submit : N) : st :=
  match md s with
  | KernelThread => consume_all s       (* the kernel thread has taken whatever was published *)
  | _ => consume s to_submit
  end.

(** [unsubmitted_submissions() >= len], with the head loaded earlier. *)
Definition sq_full (s : st) (loaded_head : N) : bool := cap s <=? sqt s - loaded_head.

Definition set_lh (s : st) (v : N) : st :=
  {| md := md s; cap := cap s; sqo := sqo s; pstate := pstate s; sqh := sqh s; sqt := sqt s; cq := cq s; holder := holder s;
     pp := pp s; polls := polls s; aw := aw s; lh := v; seen := seen s; wakers := wakers s;
     wlh := wlh s; psub := psub s; parked := parked s; owed := owed s; tmos := tmos s; lost := lost s |}.

(** The poll returns. *)
Definition poll_return (s : st) : st :=
  {| md := md s; cap := cap s; sqo := sqo s; pstate := pstate s; sqh := sqh s; sqt := sqt s; cq := cq s;
     holder := holder s; pp := PIdle; polls := pred (polls s); aw := false; lh := lh s; seen := seen s;
     wakers := wakers s; wlh := wlh s; psub := psub s; parked := parked s; owed := false; tmos := tl (tmos s); lost := lost s |}.

Definition set_psub (s : st) (v : N) : st :=
  {| md := md s; cap := cap s; sqo := sqo s; pstate := pstate s; sqh := sqh s; sqt := sqt s; cq := cq s; holder := holder s;
     pp := pp s; polls := polls s; aw := aw s; lh := lh s; seen := seen s; wakers := wakers s;
     wlh := wlh s; psub := v; parked := parked s; owed := owed s; tmos := tmos s; lost := lost s |}.

Definition set_parked (s : st) (v : N) : st :=
  {| md := md s; cap := cap s; sqo := sqo s; pstate := pstate s; sqh := sqh s; sqt := sqt s; cq := cq s; holder := holder s;
     pp := pp s; polls := polls s; aw := aw s; lh := lh s; seen := seen s; wakers := wakers s;
     wlh := wlh s; psub := psub s; parked := v; owed := owed s; tmos := tmos s; lost := lost s |}.

(** [wake_blocked_futures] after its two loads: [submissions_len.saturating_sub(tail - head)] (the
    subtraction of [N] truncates at 0 like [saturating_sub]); it is 0 exactly when [sq_full]. *)
Definition wbf_available (s : st) (loaded_head : N) : N := cap s - (sqt s - loaded_head).
(** ... with [n] wakers taken from the list: [awoken = min(available, n)] are woken at once; the
    thread keeps [n - awoken] of them and [available - awoken] for the put-back. *)
Definition wbf_awoken (avail n : N) : N := N.min avail n.
Definition wbf_rest (avail n : N) : N := n - wbf_awoken avail n.
Definition wbf_left (avail n : N) : N := avail - wbf_awoken avail n.
(** ... under the second lock: the list (what was parked since the take: [parked s]) is swapped with
    the rest; of the former the last [min(left, .)] are appended again ("add back any wakers for
    which we don't have a slot": as written it is the other way round — it keeps as many parked
    as there ARE slots left and wakes those beyond; harmless here because nothing is parked
    meanwhile), the others are woken. *)
Definition wbf_putback (s : st) (rest left : N) : st :=
  let newly := parked s in
  set_parked s (rest + N.min left newly).

(** Poller steps. *)
Definition after_enter_ok (s : st) : st := set_p s PWbH.

Definition enter_wait (s : st) (submitted : N) : st :=
  (* GETEVENTS with min_complete = 1: return at once when a completion is there; with a zero
     timeout (awoken: [Some(Duration::ZERO)] whatever the caller passed) report what was submitted,
     or ETIME when nothing was; otherwise block, with the caller's timeout ([timed]) *)
  if 0 <? cq s then after_enter_ok s
  else if aw s then (if 0 <? submitted then after_enter_ok s
                     else set_p s PClearPolling)      (* ETIME: no wake_blocked_futures *)
  else set_psub (set_p s PInKernel) submitted.

(** How many entries a syscall asking for [to_submit] takes. *)
Definition submitted_count (s : st) (to_submit : N) : N :=
  match md s with
  | KernelThread => 0
  | _ => N.min to_submit (sqt s - sqh s)
  end.

(** [set_polling(false)]: swap(NOT_POLLING), both bits cleared; the poller goes on at [next]. *)
Definition clear_polling (s : st) (next : ppc) : st :=
  {| md := md s; cap := cap s; sqo := sqo s; pstate := NOT_POLLING; sqh := sqh s; sqt := sqt s; cq := cq s; holder := holder s;
     pp := next; polls := polls s; aw := aw s; lh := lh s; seen := seen s;
     wakers := wakers s; wlh := wlh s; psub := psub s; parked := parked s; owed := owed s; tmos := tmos s; lost := lost s |}.

Definition pstep (s : st) : st :=
  match pp s with
  | PIdle =>
      match polls s with
      | O => s
      | S _ => (* load CQ head; nothing to remember: the CQ is empty iff cq = 0 at the tail load *)
          set_p s PLoadCqT
      end
  | PLoadCqT =>
      if 0 <? cq s then
        {| md := md s; cap := cap s; sqo := sqo s; pstate := pstate s; sqh := sqh s; sqt := sqt s; cq := cq s; holder := holder s;
           pp := PStoreHead; polls := polls s; aw := aw s; lh := lh s; seen := cq s;
           wakers := wakers s; wlh := wlh s; psub := psub s; parked := parked s; owed := owed s; tmos := tmos s; lost := lost s |}
      else set_p s PSetPolling
  | PSetPolling =>
      let awoken := N.testbit (pstate s) 1 in
      {| md := md s; cap := cap s; sqo := sqo s; pstate := IS_POLLING; sqh := sqh s; sqt := sqt s; cq := cq s; holder := holder s;
         pp := match md s with KernelThread => PEnterFlags | _ => PEnterH end;
         polls := polls s; aw := awoken; lh := lh s; seen := seen s;
         wakers := wakers s; wlh := wlh s; psub := psub s; parked := parked s; owed := owed s; tmos := tmos s; lost := lost s |}
  | PEnterH =>
      {| md := md s; cap := cap s; sqo := sqo s; pstate := pstate s; sqh := sqh s; sqt := sqt s; cq := cq s; holder := holder s;
         pp := PEnterT; polls := polls s; aw := aw s; lh := sqh s; seen := seen s;
         wakers := wakers s; wlh := wlh s; psub := psub s; parked := parked s; owed := owed s; tmos := tmos s; lost := lost s |}
  | PEnterT => enter_wait (syscall_submit s (sqt s - lh s)) (submitted_count s (sqt s - lh s))
  | PEnterFlags => enter_wait (syscall_submit s 0) 0
  | PInKernel =>
      (* resumed by the scheduler: only when something arrived *)
      let s' := match md s with KernelThread => consume_all s | _ => s end in
      if 0 <? cq s' then after_enter_ok s' else s'
  | PWbH => set_p (set_lh s (sqh s)) PWbT
  | PWbT => if sq_full s (lh s) then set_p s PClearPolling else set_p s (PWbTry (wbf_available s (lh s)))
  | PWbTry a =>
      (* try_lock (never taken, see above); nothing parked: return; else take the list, wake *)
      if parked s =? 0 then set_p s PClearPolling
      else set_p (set_parked s 0) (PWbLock (wbf_rest a (parked s)) (wbf_left a (parked s)))
  | PWbLock r l => set_p (wbf_putback s r l) PClearPolling
  | PClearPolling | PClearPollingIntr => clear_polling s PLoadCqT2
  | PLoadCqT2 =>
      {| md := md s; cap := cap s; sqo := sqo s; pstate := pstate s; sqh := sqh s; sqt := sqt s; cq := cq s; holder := holder s;
         pp := PStoreHead; polls := polls s; aw := aw s; lh := lh s; seen := cq s;
         wakers := wakers s; wlh := wlh s; psub := psub s; parked := parked s; owed := owed s; tmos := tmos s; lost := lost s |}
  | PStoreHead =>
      (* head := tail snapshot *)
      {| md := md s; cap := cap s; sqo := sqo s; pstate := pstate s; sqh := sqh s; sqt := sqt s; cq := cq s - seen s;
         holder := holder s; pp := PEndWbH; polls := polls s; aw := aw s; lh := lh s; seen := 0;
         wakers := wakers s; wlh := wlh s; psub := psub s; parked := parked s; owed := owed s; tmos := tmos s; lost := lost s |}
  | PEndWbH => set_p (set_lh s (sqh s)) PEndWbT
  | PEndWbT => if sq_full s (lh s) then poll_return s else set_p s (PEndWbTry (wbf_available s (lh s)))
  | PEndWbTry a =>
      if parked s =? 0 then poll_return s
      else set_p (set_parked s 0) (PEndWbLock (wbf_rest a (parked s)) (wbf_left a (parked s)))
  | PEndWbLock r l => poll_return (wbf_putback s r l)
  end.

(** The poller's step when its [io_uring_enter] is interrupted by a signal.
    At the call ([PEnterT], [PEnterFlags]): the kernel does the submission work of the call and
    then the call fails with EINTR, whatever is in the completion queue (this is what the
    simulated kernel's [fail_next_enter] does; Linux itself fails with EINTR only when it would
    have waited and nothing was submitted: the model allows more).
    While blocked ([PInKernel]): a signal arrives. Like Linux (and the simulated kernel's
    [BlockAction::Eintr]) the call reports success when a completion is there by now or when it
    had submitted something, EINTR otherwise.
    EINTR: [Shared::enter] returns [Ok(0)] without [wake_blocked_futures]; [set_polling(false)]
    is next. At every other point it is the ordinary poller step. *)
Definition pintr (s : st) : st :=
  match pp s with
  | PEnterT => set_p (syscall_submit s (sqt s - lh s)) PClearPollingIntr
  | PEnterFlags => set_p (syscall_submit s 0) PClearPollingIntr
  | PInKernel =>
      let s' := match md s with KernelThread => consume_all s | _ => s end in
      if 0 <? cq s' then after_enter_ok s'
      else if psub s =? 0 then set_p s' PClearPollingIntr
      else after_enter_ok s'
  | _ => pstep s
  end.

(** NOT the code as it is: [Completions::poll] waiting again after an interrupted enter
    ([loop { set_polling(true); enter; set_polling(false); if EINTR continue }]). Kept for
    [eintr_retry_loses_wakeup_refuted]: the second [set_polling(true)] no longer sees the awoken
    bit the first one consumed. *)
Definition pstep_loop (s : st) : st :=
  match pp s with
  | PClearPollingIntr => clear_polling s PSetPolling
  | _ => pstep s
  end.
Definition pintr_loop (s : st) : st :=
  match pp s with
  | PEnterT | PEnterFlags | PInKernel => pintr s
  | _ => pstep_loop s
  end.

(** The poller is blocked and the scheduler found nobody who could still run: the harness lets
    the wait end like an expired timeout (ETIME: no [wake_blocked_futures]; or the submitted
    count when the call had submitted something) so that the run can finish. *)
Definition pstuck (s : st) : st :=
  {| md := md s; cap := cap s; sqo := sqo s; pstate := pstate s; sqh := sqh s; sqt := sqt s; cq := cq s; holder := holder s;
     pp := (if psub s =? 0 then PClearPolling else PWbH); polls := polls s; aw := aw s; lh := lh s; seen := seen s;
     wakers := wakers s; wlh := wlh s; psub := psub s; parked := parked s; owed := owed s; tmos := tmos s; lost := lost s || owed s |}.

Definition set_w (s : st) (i : nat) (w : waker) : st :=
  {| md := md s; cap := cap s; sqo := sqo s; pstate := pstate s; sqh := sqh s; sqt := sqt s; cq := cq s; holder := holder s;
     pp := pp s; polls := polls s; aw := aw s; lh := lh s; seen := seen s;
     wakers := firstn i (wakers s) ++ w :: skipn (S i) (wakers s);
     wlh := wlh s; psub := psub s; parked := parked s; owed := owed s; tmos := tmos s; lost := lost s |}.

Definition set_wlh (s : st) (i : nat) (v : N) : st :=
  {| md := md s; cap := cap s; sqo := sqo s; pstate := pstate s; sqh := sqh s; sqt := sqt s; cq := cq s; holder := holder s;
     pp := pp s; polls := polls s; aw := aw s; lh := lh s; seen := seen s; wakers := wakers s;
     wlh := firstn i (wlh s) ++ v :: skipn (S i) (wlh s); psub := psub s; parked := parked s; owed := owed s; tmos := tmos s; lost := lost s |}.

Definition set_holder (s : st) (h : option nat) : st :=
  {| md := md s; cap := cap s; sqo := sqo s; pstate := pstate s; sqh := sqh s; sqt := sqt s; cq := cq s; holder := h;
     pp := pp s; polls := polls s; aw := aw s; lh := lh s; seen := seen s; wakers := wakers s;
     wlh := wlh s; psub := psub s; parked := parked s; owed := owed s; tmos := tmos s; lost := lost s |}.

Definition call_done (w : waker) : waker := {| wp := WIdle; calls := pred (calls w); wok := false |}.
Definition at_pc (w : waker) (p : wpc) : waker := {| wp := p; calls := calls w; wok := wok w |}.
Definition at_pc_ok (w : waker) (p : wpc) (b : bool) : waker := {| wp := p; calls := calls w; wok := b |}.
(** After the [wake_blocked_futures] of the waker's [enter]: the call is done when the add had
    succeeded, else back to the add. *)
Definition after_wbf (w : waker) : waker := if wok w then call_done w else at_pc w WAddH1.

Definition wstep (s : st) (i : nat) : st :=
  match nth_error (wakers s) i with
  | None => s
  | Some w =>
    match wp w with
    | WIdle =>
        match calls w with
        | O => s
        | S _ =>
            (* PollingState::wake: fetch_or(AWOKEN); message only when it was "polling, not awoken" *)
            let old := pstate s in
            let s1 := {| md := md s; cap := cap s; sqo := sqo s; pstate := N.lor old IS_AWOKEN; sqh := sqh s; sqt := sqt s;
                         cq := cq s; holder := holder s; pp := pp s; polls := polls s; aw := aw s;
                         lh := lh s; seen := seen s; wakers := wakers s; wlh := wlh s;
                         psub := psub s; parked := parked s; owed := true; tmos := tmos s; lost := lost s |} in
            if old =? IS_POLLING then
              match md s with
              | SingleIssuer =>
                  (* synchronous IORING_REGISTER_SEND_MSG_RING: one completion on the ring *)
                  let s2 := {| md := md s1; cap := cap s1; sqo := sqo s1; pstate := pstate s1; sqh := sqh s1; sqt := sqt s1;
                               cq := cq s1 + 1; holder := holder s1; pp := pp s1; polls := polls s1;
                               aw := aw s1; lh := lh s1; seen := seen s1; wakers := wakers s1;
                               wlh := wlh s1; psub := psub s1; parked := parked s1; owed := owed s1; tmos := tmos s1; lost := lost s1 |} in
                  set_w s2 i (call_done w)
              | _ => set_w s1 i (at_pc w WAddH1)
              end
            else set_w s1 i (call_done w)
        end
    | WAddH1 => set_w (set_wlh s i (sqh s)) i (at_pc w WAddT1)
    | WAddT1 =>
        (* unlocked pre-check; a full queue makes [add] fail: wake() still enters the kernel
           (which flushes the queue) and tries again *)
        if sq_full s (nth i (wlh s) 0)
        then set_w s i (at_pc_ok w (match md s with KernelThread => WEnterFlags | _ => WEnterH end) false)
        else set_w s i (at_pc w WAddLock)
    | WAddLock | WAddSpin =>
        match holder s with
        | None => set_w (set_holder s (Some i)) i (at_pc w WAddH2)
        | Some _ => set_w s i (at_pc w WAddSpin)
        end
    | WAddH2 => set_w (set_wlh s i (sqh s)) i (at_pc w WAddT2)
    | WAddT2 =>
        if sq_full s (nth i (wlh s) 0)
        then set_w (set_holder s None) i
               (at_pc_ok w (match md s with KernelThread => WEnterFlags | _ => WEnterH end) false)
        else set_w s i (at_pc w WAddFill)
    | WAddFill => set_w s i (at_pc w WAddStore)
    | WAddStore =>
        let s1 := {| md := md s; cap := cap s; sqo := sqo s; pstate := pstate s; sqh := sqh s; sqt := sqt s + 1; cq := cq s;
                     holder := None; pp := pp s; polls := polls s; aw := aw s; lh := lh s;
                     seen := seen s; wakers := wakers s; wlh := wlh s; psub := psub s; parked := parked s; owed := owed s; tmos := tmos s; lost := lost s |} in
        set_w s1 i (at_pc_ok w (match md s with KernelThread => WEnterFlags | _ => WEnterH end) true)
    | WEnterH => set_w (set_wlh s i (sqh s)) i (at_pc w WEnterT)
    | WEnterT =>
        (* enter(0, 0, zero timeout): submits, never waits *)
        set_w (syscall_submit s (sqt s - nth i (wlh s) 0)) i (at_pc w WWbH)
    | WEnterFlags => set_w (syscall_submit s 0) i (at_pc w WWbH)
    | WWbH => set_w (set_wlh s i (sqh s)) i (at_pc w WWbT)
    | WWbT =>
        (* wake_blocked_futures returns before the try_lock when no slot is available *)
        if sq_full s (nth i (wlh s) 0)
        then set_w s i (after_wbf w)
        else set_w s i (at_pc w (WWbTry (wbf_available s (nth i (wlh s) 0))))
    | WWbTry a =>
        if parked s =? 0 then set_w s i (after_wbf w)
        else set_w (set_parked s 0) i (at_pc w (WWbLock (wbf_rest a (parked s)) (wbf_left a (parked s))))
    | WWbLock r l => set_w (wbf_putback s r l) i (after_wbf w)
    end
  end.

(** The poller is blocked with the caller's finite timeout and the scheduler found nobody who could
    still run: the timeout expires. The kernel answers like for [pstuck] (ETIME: [Shared::enter]
    returns [Ok(0)] without [wake_blocked_futures]; or the submitted count when the call had
    submitted something), [set_polling(false)] is next and the poll returns; when a wake-up is owed
    the poll has slept its whole timeout through it. *)
Definition ptimeout (s : st) : st := pstuck s.

(** Events: thread 0 is the poller, thread i+1 is waker i. [Stuck] is the scheduler's report
    that the blocked poller can never be resumed. [PI]: the poller runs its next step and, if
    that step is (or is inside) the [io_uring_enter] call, the call is interrupted by a signal.
    [Timeout]: the scheduler's report that nobody is left to wake the poller, which is blocked
    with a finite timeout: the timeout expires. *)
Inductive ev := P | W (i : nat) | Stuck | PI | Timeout.

Definition step (s : st) (e : ev) : st * list Z :=
  match e with
  | P => (pstep s, [])
  | W i => (wstep s i, [])
  | Stuck => (match pp s with PInKernel => pstuck s | _ => s end, [])
  | PI => (pintr s, [])
  | Timeout => (match pp s with PInKernel => if timed s then ptimeout s else s | _ => s end, [])
  end.

(** The step function of the retrying variant (refutation only). *)
Definition step_loop (s : st) (e : ev) : st * list Z :=
  match e with
  | P => (pstep_loop s, [])
  | PI => (pintr_loop s, [])
  | _ => step s e
  end.

(** * NOT the code as it is: seeded change C11-j (refutation only, [kept_timeout_loses_wakeup]).
    [Completions::poll] computes the timeout with [timeout.or(awoken.then_some(Duration::ZERO))]:
    the caller's [Some(t)] is kept although [set_polling(true)] reported "awoken" (and consumed the
    bit); only a poll called with [None] gets the zero timeout. *)
Definition enter_wait_or (s : st) (submitted : N) : st :=
  if 0 <? cq s then after_enter_ok s
  else if timed s then set_psub (set_p s PInKernel) submitted      (* Some(t).or(..) = Some(t): waits *)
  else if aw s then (if 0 <? submitted then after_enter_ok s else set_p s PClearPolling)
  else set_psub (set_p s PInKernel) submitted.

Definition pstep_or (s : st) : st :=
  match pp s with
  | PEnterT => enter_wait_or (syscall_submit s (sqt s - lh s)) (submitted_count s (sqt s - lh s))
  | PEnterFlags => enter_wait_or (syscall_submit s 0) 0
  | _ => pstep s
  end.

Definition step_or (s : st) (e : ev) : st * list Z :=
  match e with
  | P => (pstep_or s, [])
  | _ => step s e
  end.

(** * NOT the code as it is: seeded change C11-i (refutation only, [refused_enter_loses_wakeup]).
    [Shared::single_issuer] is false on a ring set up with IORING_SETUP_SINGLE_ISSUER (it is read
    from the wrong flag): [Submissions::wake] takes the ordinary path, [add] + [io_uring_enter]
    from the waking thread. The kernel refuses that enter with EEXIST before doing anything (the
    caller is not the issuer of the ring): nothing is submitted, [Shared::enter] returns the error
    (no [wake_blocked_futures]), [wake()] returns it ([?]) whether its [add] had succeeded or not,
    and [SubmissionQueue::wake] only logs it. *)
Definition set_md (s : st) (m : mode) : st :=
  {| md := m; cap := cap s; sqo := sqo s; pstate := pstate s; sqh := sqh s; sqt := sqt s; cq := cq s; holder := holder s;
     pp := pp s; polls := polls s; aw := aw s; lh := lh s; seen := seen s; wakers := wakers s;
     wlh := wlh s; psub := psub s; parked := parked s; owed := owed s; tmos := tmos s; lost := lost s |}.

Definition wstep_nsi (s : st) (i : nat) : st :=
  match md s with
  | SingleIssuer =>
      match nth_error (wakers s) i with
      | None => s
      | Some w =>
          match wp w with
          | WEnterT => set_w s i (call_done w)                              (* EEXIST *)
          | _ => set_md (wstep (set_md s Default) i) SingleIssuer           (* the ordinary path *)
          end
      end
  | _ => wstep s i
  end.

Definition step_nsi (s : st) (e : ev) : st * list Z :=
  match e with
  | W i => (wstep_nsi s i, [])
  | _ => step s e
  end.

(** * NOT the code as it is: seeded change C11-h (refutation only, [has_waiting_bit_loses_wakeup]).
    A third bit HAS_WAITING of the state word says "futures are parked on the blocked-futures
    list": set by [wait_for_submission] (before the race: [init_hw]), kept by [set_polling] (a
    [fetch_update] instead of the swap), cleared under the lock by [wake_blocked_futures] when it
    finds or leaves the list empty, and read by [wake_blocked_futures] first thing as a lock-free
    early out (no scheduling point: it runs in the segment that calls the function, so that the
    function's first scheduling point is never reached). [PollingState::wake] is unchanged and
    still compares the whole word with [IS_POLLING] — as [wstep] does. The variant is the base
    step followed by the corrections. *)
Definition HAS_WAITING : N := 4.

Definition set_pstate (s : st) (v : N) : st :=
  {| md := md s; cap := cap s; sqo := sqo s; pstate := v; sqh := sqh s; sqt := sqt s; cq := cq s; holder := holder s;
     pp := pp s; polls := polls s; aw := aw s; lh := lh s; seen := seen s; wakers := wakers s;
     wlh := wlh s; psub := psub s; parked := parked s; owed := owed s; tmos := tmos s; lost := lost s |}.

Definition init_hw (m : mode) (c prefill nparked : N) (npolls : nat) (tm : list bool) (wcalls : list nat) : st :=
  set_pstate (init m c prefill nparked npolls tm wcalls) (if 0 <? nparked then HAS_WAITING else 0).

(** Every base step writes a word without bit 2 (the swaps) or keeps all bits ([fetch_or]): the
    variant keeps bit 2 of the old word. *)
Definition hw_keep (s s1 : st) : st :=
  set_pstate s1 (N.lor (N.land (pstate s) HAS_WAITING) (pstate s1)).
Definition hw_clear (s : st) : st := set_pstate s (N.land (pstate s) 3).

(** [has_waiting()] false on entry to [wake_blocked_futures]: the function returns at once. *)
Definition hw_enter_p (s : st) : st :=
  if N.testbit (pstate s) 2 then s
  else match pp s with
       | PWbH => set_p s PClearPolling
       | PEndWbH => poll_return s
       | _ => s
       end.

Definition hw_post_p (s s1 : st) : st :=
  let s2 := hw_keep s s1 in
  let s3 := match pp s with
            | PWbTry _ | PEndWbTry _ => if parked s =? 0 then hw_clear s2 else s2     (* found empty *)
            | PWbLock _ _ | PEndWbLock _ _ => if parked s2 =? 0 then hw_clear s2 else s2   (* left empty *)
            | _ => s2
            end in
  hw_enter_p s3.

Definition wstep_hw (s : st) (i : nat) : st :=
  match nth_error (wakers s) i with
  | None => s
  | Some w =>
      let s2 := hw_keep s (wstep s i) in
      let s3 := match wp w with
                | WWbTry _ => if parked s =? 0 then hw_clear s2 else s2
                | WWbLock _ _ => if parked s2 =? 0 then hw_clear s2 else s2
                | _ => s2
                end in
      if N.testbit (pstate s3) 2 then s3
      else match nth_error (wakers s3) i with
           | Some w3 => match wp w3 with WWbH => set_w s3 i (after_wbf w3) | _ => s3 end
           | None => s3
           end
  end.

Definition step_hw (s : st) (e : ev) : st * list Z :=
  match e with
  | W i => (wstep_hw s i, [])
  | _ => (hw_post_p s (fst (step s e)), [])
  end.

(** * Correspondence driver: per executed step the scheduling-point code the model expects the
    thread to be resumed from; at the end whether a wake-up was lost, how many polls returned.
    The scheduler's two reports about a blocked poller: 999 ([Stuck]) for a wait without a
    timeout, 996 ([Timeout]) for a wait with one; the other way round the replay diverges. *)
Definition timed_wait (s : st) : bool :=
  match pp s with PInKernel => timed s | _ => false end.

Fixpoint run_steps (s : st) (es : list ev) : st * list Z :=
  match es with
  | [] => (s, [])
  | e :: r =>
      let here := match e with
                  | P => ppc_code (pp s)
                  | W i => match nth_error (wakers s) i with Some w => wpc_code (wp w) | None => (-9)%Z end
                  | Stuck => if timed_wait s then (-9)%Z else 999%Z
                  | PI => match pp s with PInKernel => 997%Z | p => ppc_code p end
                  | Timeout => if timed_wait s then 996%Z else (-9)%Z
                  end in
      let '(s1, o) := run_steps (fst (step s e)) r in (s1, here :: o)
  end.

Record wkcase := { wk_mode : mode; wk_cap : N; wk_prefill : N; wk_parked : N; wk_polls : nat;
                   wk_timed : list bool (* per poll: [Some(finite)] *); wk_wakes : list nat;
                   wk_events : list ev }.

Definition run_wkcase (c : wkcase) : list Z :=
  let '(s, o) := run_steps (init (wk_mode c) (wk_cap c) (wk_prefill c) (wk_parked c) (wk_polls c) (wk_timed c) (wk_wakes c)) (wk_events c) in
  o ++ [(-1)%Z; bz (lost s); Z.of_nat (polls s); nz (cq s); nz (sqt s - sqh s); nz (parked s)].

(** The same for the seeded variant (not used by [bin/check]; for replaying the seeded code by hand). *)
Fixpoint run_steps_hw (s : st) (es : list ev) : st * list Z :=
  match es with
  | [] => (s, [])
  | e :: r =>
      let here := match e with
                  | P => ppc_code (pp s)
                  | W i => match nth_error (wakers s) i with Some w => wpc_code (wp w) | None => (-9)%Z end
                  | Stuck => if timed_wait s then (-9)%Z else 999%Z
                  | PI => match pp s with PInKernel => 997%Z | p => ppc_code p end
                  | Timeout => if timed_wait s then 996%Z else (-9)%Z
                  end in
      let '(s1, o) := run_steps_hw (fst (step_hw s e)) r in (s1, here :: o)
  end.
Definition run_wkcase_hw (c : wkcase) : list Z :=
  let '(s, o) := run_steps_hw (init_hw (wk_mode c) (wk_cap c) (wk_prefill c) (wk_parked c) (wk_polls c) (wk_timed c) (wk_wakes c)) (wk_events c) in
  o ++ [(-1)%Z; bz (lost s); Z.of_nat (polls s); nz (cq s); nz (sqt s - sqh s); nz (parked s)].

//! In-process simulated io_uring kernel.
//!
//! Installed through `a10::verif::install` (hook A). `setup` hands a10 a memfd laid out so that
//! a10's own three `mmap` calls succeed; the simulator maps the same file and plays the kernel's
//! side of the rings: it consumes SQEs in ring order during `enter`, keeps ordinary requests in an
//! in-flight table until the harness completes them, executes the bookkeeping requests
//! (ASYNC_CANCEL, MSG_RING, CLOSE) inline, and posts CQEs only into free slots. Everything it
//! sees is logged. It implements exactly the contract K1–K8 of DESIGN.md §5.
//!
//! ABI structures and numbers are pinned here (from the Linux uapi headers), independently of
//! a10's own bindings.

use std::collections::{BTreeMap, VecDeque};
use std::ffi::{c_int, c_long, c_uint, c_void};
use std::sync::atomic::{AtomicU16, AtomicU32, Ordering};
use std::sync::{Mutex, MutexGuard, OnceLock};

pub mod abi {
    #[repr(C)]
    #[derive(Clone, Copy, Debug, PartialEq, Eq)]
    pub struct Sqe {
        pub opcode: u8,
        pub flags: u8,
        pub ioprio: u16,
        pub fd: i32,
        pub off: u64,
        pub addr: u64,
        pub len: u32,
        pub op_flags: u32,
        pub user_data: u64,
        pub buf_index: u16,
        pub personality: u16,
        pub file_index: u32,
        pub addr3: u64,
        pub pad2: u64,
    }
    #[repr(C)]
    #[derive(Clone, Copy, Debug, PartialEq, Eq)]
    pub struct Cqe {
        pub user_data: u64,
        pub res: i32,
        pub flags: u32,
    }
    #[repr(C)]
    #[derive(Clone, Copy, Debug, Default)]
    pub struct SqOff {
        pub head: u32,
        pub tail: u32,
        pub ring_mask: u32,
        pub ring_entries: u32,
        pub flags: u32,
        pub dropped: u32,
        pub array: u32,
        pub resv1: u32,
        pub user_addr: u64,
    }
    #[repr(C)]
    #[derive(Clone, Copy, Debug, Default)]
    pub struct CqOff {
        pub head: u32,
        pub tail: u32,
        pub ring_mask: u32,
        pub ring_entries: u32,
        pub overflow: u32,
        pub cqes: u32,
        pub flags: u32,
        pub resv1: u32,
        pub user_addr: u64,
    }
    #[repr(C)]
    #[derive(Clone, Copy, Debug, Default)]
    pub struct Params {
        pub sq_entries: u32,
        pub cq_entries: u32,
        pub flags: u32,
        pub sq_thread_cpu: u32,
        pub sq_thread_idle: u32,
        pub features: u32,
        pub wq_fd: u32,
        pub resv: [u32; 3],
        pub sq_off: SqOff,
        pub cq_off: CqOff,
    }
    #[repr(C)]
    #[derive(Clone, Copy, Debug)]
    pub struct GeteventsArg {
        pub sigmask: u64,
        pub sigmask_sz: u32,
        pub min_wait_usec: u32,
        pub ts: u64,
    }
    #[repr(C)]
    #[derive(Clone, Copy, Debug)]
    pub struct BufReg {
        pub ring_addr: u64,
        pub ring_entries: u32,
        pub bgid: u16,
        pub flags: u16,
        pub resv: [u64; 3],
    }
    #[repr(C)]
    #[derive(Clone, Copy, Debug)]
    pub struct Buf {
        pub addr: u64,
        pub len: u32,
        pub bid: u16,
        pub resv: u16, // the ring tail lives here in entry 0
    }
    #[repr(C)]
    #[derive(Clone, Copy, Debug)]
    pub struct RsrcRegister {
        pub nr: u32,
        pub flags: u32,
        pub resv2: u64,
        pub data: u64,
        pub tags: u64,
    }
    #[repr(C)]
    #[derive(Clone, Copy, Debug)]
    pub struct RsrcUpdate {
        pub offset: u32,
        pub resv: u32,
        pub data: u64,
    }
    #[repr(C)]
    #[derive(Clone, Copy, Debug)]
    pub struct SyncCancelReg {
        pub addr: u64,
        pub fd: i32,
        pub flags: u32,
        pub timeout: [i64; 2],
        pub opcode: u8,
        pub pad: [u8; 7],
        pub pad2: [u64; 3],
    }
    const _: () = assert!(std::mem::size_of::<Sqe>() == 64);
    const _: () = assert!(std::mem::size_of::<Cqe>() == 16);
    const _: () = assert!(std::mem::size_of::<Params>() == 120);
    const _: () = assert!(std::mem::size_of::<Buf>() == 16);

    pub const OFF_SQ_RING: i64 = 0;
    pub const OFF_CQ_RING: i64 = 0x800_0000;
    pub const OFF_SQES: i64 = 0x1000_0000;

    // Opcodes.
    pub const OP_NOP: u8 = 0;
    pub const OP_READV: u8 = 1;
    pub const OP_WRITEV: u8 = 2;
    pub const OP_FSYNC: u8 = 3;
    pub const OP_POLL_ADD: u8 = 6;
    pub const OP_SENDMSG: u8 = 9;
    pub const OP_RECVMSG: u8 = 10;
    pub const OP_ACCEPT: u8 = 13;
    pub const OP_ASYNC_CANCEL: u8 = 14;
    pub const OP_CONNECT: u8 = 16;
    pub const OP_FALLOCATE: u8 = 17;
    pub const OP_OPENAT: u8 = 18;
    pub const OP_CLOSE: u8 = 19;
    pub const OP_FILES_UPDATE: u8 = 20;
    pub const OP_STATX: u8 = 21;
    pub const OP_READ: u8 = 22;
    pub const OP_WRITE: u8 = 23;
    pub const OP_FADVISE: u8 = 24;
    pub const OP_MADVISE: u8 = 25;
    pub const OP_SEND: u8 = 26;
    pub const OP_RECV: u8 = 27;
    pub const OP_OPENAT2: u8 = 28;
    pub const OP_SPLICE: u8 = 30;
    pub const OP_SHUTDOWN: u8 = 34;
    pub const OP_RENAMEAT: u8 = 35;
    pub const OP_UNLINKAT: u8 = 36;
    pub const OP_MKDIRAT: u8 = 37;
    pub const OP_MSG_RING: u8 = 40;
    pub const OP_SOCKET: u8 = 45;
    pub const OP_URING_CMD: u8 = 46;
    pub const OP_SEND_ZC: u8 = 47;
    pub const OP_SENDMSG_ZC: u8 = 48;
    pub const OP_READ_MULTISHOT: u8 = 49;
    pub const OP_WAITID: u8 = 50;
    pub const OP_FIXED_FD_INSTALL: u8 = 54;
    pub const OP_FTRUNCATE: u8 = 55;
    pub const OP_BIND: u8 = 56;
    pub const OP_LISTEN: u8 = 57;
    pub const OP_PIPE: u8 = 62;

    // SQE flags.
    pub const SQE_FIXED_FILE: u8 = 1 << 0;
    pub const SQE_ASYNC: u8 = 1 << 4;
    pub const SQE_BUFFER_SELECT: u8 = 1 << 5;
    pub const SQE_CQE_SKIP_SUCCESS: u8 = 1 << 6;

    // CQE flags.
    pub const CQE_F_BUFFER: u32 = 1;
    pub const CQE_F_MORE: u32 = 2;
    pub const CQE_F_SOCK_NONEMPTY: u32 = 4;
    pub const CQE_F_NOTIF: u32 = 8;
    pub const CQE_F_SKIP: u32 = 32;
    pub const CQE_BUFFER_SHIFT: u32 = 16;

    // enter flags.
    pub const ENTER_GETEVENTS: u32 = 1;
    pub const ENTER_SQ_WAKEUP: u32 = 2;
    pub const ENTER_SQ_WAIT: u32 = 4;
    pub const ENTER_EXT_ARG: u32 = 8;

    // setup flags.
    pub const SETUP_IOPOLL: u32 = 1 << 0;
    pub const SETUP_SQPOLL: u32 = 1 << 1;
    pub const SETUP_SQ_AFF: u32 = 1 << 2;
    pub const SETUP_CQSIZE: u32 = 1 << 3;
    pub const SETUP_CLAMP: u32 = 1 << 4;
    pub const SETUP_ATTACH_WQ: u32 = 1 << 5;
    pub const SETUP_R_DISABLED: u32 = 1 << 6;
    pub const SETUP_SUBMIT_ALL: u32 = 1 << 7;
    pub const SETUP_COOP_TASKRUN: u32 = 1 << 8;
    pub const SETUP_TASKRUN_FLAG: u32 = 1 << 9;
    pub const SETUP_SQE128: u32 = 1 << 10;
    pub const SETUP_CQE32: u32 = 1 << 11;
    pub const SETUP_SINGLE_ISSUER: u32 = 1 << 12;
    pub const SETUP_DEFER_TASKRUN: u32 = 1 << 13;
    pub const SETUP_NO_MMAP: u32 = 1 << 14;
    pub const SETUP_REGISTERED_FD_ONLY: u32 = 1 << 15;
    pub const SETUP_NO_SQARRAY: u32 = 1 << 16;

    // features.
    pub const FEAT_SINGLE_MMAP: u32 = 1 << 0;
    pub const FEAT_NODROP: u32 = 1 << 1;
    pub const FEAT_SUBMIT_STABLE: u32 = 1 << 2;
    pub const FEAT_RW_CUR_POS: u32 = 1 << 3;
    pub const FEAT_CUR_PERSONALITY: u32 = 1 << 4;
    pub const FEAT_FAST_POLL: u32 = 1 << 5;
    pub const FEAT_POLL_32BITS: u32 = 1 << 6;
    pub const FEAT_SQPOLL_NONFIXED: u32 = 1 << 7;
    pub const FEAT_EXT_ARG: u32 = 1 << 8;
    pub const FEAT_NATIVE_WORKERS: u32 = 1 << 9;
    pub const FEAT_RSRC_TAGS: u32 = 1 << 10;
    pub const FEAT_CQE_SKIP: u32 = 1 << 11;
    pub const FEAT_DEFAULT: u32 = FEAT_NODROP
        | FEAT_SUBMIT_STABLE
        | FEAT_RW_CUR_POS
        | FEAT_CUR_PERSONALITY
        | FEAT_FAST_POLL
        | FEAT_POLL_32BITS
        | FEAT_SQPOLL_NONFIXED
        | FEAT_EXT_ARG
        | FEAT_NATIVE_WORKERS
        | FEAT_RSRC_TAGS
        | FEAT_CQE_SKIP;

    // register opcodes.
    pub const REGISTER_FILES_UPDATE: u32 = 6;
    pub const REGISTER_ENABLE_RINGS: u32 = 12;
    pub const REGISTER_FILES2: u32 = 13;
    pub const REGISTER_FILES_UPDATE2: u32 = 14;
    pub const REGISTER_PBUF_RING: u32 = 22;
    pub const UNREGISTER_PBUF_RING: u32 = 23;
    pub const REGISTER_SYNC_CANCEL: u32 = 24;
    pub const REGISTER_SEND_MSG_RING: u32 = 31;

    pub const ASYNC_CANCEL_ALL: u32 = 1 << 0;
    pub const ASYNC_CANCEL_ANY: u32 = 1 << 2;
    pub const FILE_INDEX_ALLOC: u32 = u32::MAX;
}

use abi::*;

/// What the next `io_uring_setup` should do.
#[derive(Clone, Debug)]
pub struct SetupConfig {
    /// Initial value of `sq.head == sq.tail`.
    pub sq_start: u32,
    /// Initial value of `cq.head == cq.tail`.
    pub cq_start: u32,
    pub features: u32,
    /// Fail `setup` with this errno.
    pub fail_setup: Option<i32>,
    /// Return a descriptor that cannot be mapped (a pipe end).
    pub unmappable: bool,
    /// Fail the n-th (0-based) `mmap` a10 makes after this setup with ENOMEM.
    pub fail_mmap: Option<usize>,
    /// Fail the n-th (0-based) `madvise` with EINVAL.
    pub fail_madvise: Option<usize>,
    /// Fail `register(opcode)` with errno.
    pub fail_register: Option<(u32, i32)>,
    /// Requests complete on their own as soon as they are consumed (res, flags).
    pub auto_complete: Option<(i32, u32)>,
}

impl Default for SetupConfig {
    fn default() -> SetupConfig {
        SetupConfig {
            sq_start: 0,
            cq_start: 0,
            features: FEAT_DEFAULT,
            fail_setup: None,
            unmappable: false,
            fail_mmap: None,
            fail_madvise: None,
            fail_register: None,
            auto_complete: None,
        }
    }
}

#[derive(Clone, Debug, PartialEq)]
pub enum Ev {
    Setup { entries: u32, params_in: [u32; 7], res: i32 },
    Enter { to_submit: u32, min_complete: u32, flags: u32, timeout: Option<(i64, i64)>, res: i32 },
    /// SQE consumed by the kernel; `req` is set for requests placed in the in-flight table.
    Consumed { sqe: Sqe, req: Option<u64> },
    Posted { cqe: Cqe, overflow: bool },
    Register { opcode: u32, nr: u32, res: i32, detail: String },
    Mmap { len: usize, offset: i64, res_ok: bool, addr: usize },
    Munmap { addr: usize, len: usize },
    Madvise { addr: usize, len: usize, advice: i32, res: i32 },
    Close { fd: i32 },
    /// A blocking wait found nothing to return.
    Blocked { timeout: Option<(i64, i64)> },
    /// The implementation's published counters are inconsistent with the kernel's.
    Corrupt { what: String },
}

#[derive(Clone, Debug)]
pub struct Inflight {
    pub req: u64,
    pub sqe: Sqe,
    pub posted: u32,
    /// ASYNC_CANCEL targeting this request wins (posts -ECANCELED) when true.
    pub cancelable: bool,
}

pub struct PbufRing {
    pub addr: u64,
    pub entries: u32,
    pub head: u16,
}

pub struct Sim {
    pub fd: i32,
    pub sq_entries: u32,
    pub cq_entries: u32,
    pub flags: u32,
    sq_ring: *mut u8,
    cq_ring: *mut u8,
    sqes: *mut Sqe,
    pub inflight: Vec<Inflight>,
    pub overflow: VecDeque<Cqe>,
    pub log: Vec<Ev>,
    next_req: u64,
    pub pbufs: BTreeMap<u16, PbufRing>,
    /// Sparse direct-descriptor table: `None` = not registered.
    pub files: Option<Vec<i32>>,
    pub default_cancelable: bool,
    /// Per target descriptor (sqe.fd) override of `default_cancelable`.
    pub cancel_policy: Vec<(i32, bool)>,
    /// Requests the kernel refuses while preparing them, by target descriptor (sqe.fd) with the
    /// errno: the request never gets in flight, its only completion (-errno) is posted when the
    /// submission is consumed, and — as io_submit_sqes() does — on a ring set up without
    /// IORING_SETUP_SUBMIT_ALL the `enter` stops consuming there (the refused one counts as
    /// consumed; what is queued behind it stays queued).
    pub reject_policy: Vec<(i32, i32)>,
    /// Cancellation as the kernel does it for requests it cannot finish at once (K2, K4; used by
    /// C12). Off (default): ASYNC_CANCEL looks at `cancelable` only and REGISTER_SYNC_CANCEL
    /// finishes everything in flight. On: a request is cancelable iff its `cancelable` flag is set
    /// and it is not a two-step request (SEND_ZC / SENDMSG_ZC) whose result has been posted
    /// (`posted > 0`: only the notification is outstanding, nothing can hurry it). Cancelling a
    /// two-step request whose result is due posts (-ECANCELED, F_MORE) and then the notification
    /// (0, F_NOTIF). ASYNC_CANCEL of a request that cannot be cancelled answers EALREADY;
    /// REGISTER_SYNC_CANCEL leaves such requests in flight and fails with ETIME.
    pub strict_cancel: bool,
    pub cfg: SetupConfig,
    pub mmaps_seen: usize,
    pub madvises_seen: usize,
    /// Posted but (as far as the kernel knows) unconsumed CQEs, by ghost index.
    pub cq_ghost_tail: u64,
    pub sq_ghost_head: u64,
    pub enabled: bool,
    /// IORING_SETUP_SINGLE_ISSUER: the issuer of the ring (Linux: `ctx->submitter_task`). It is the
    /// thread that created the ring, unless the ring was created with IORING_SETUP_R_DISABLED: then
    /// nobody yet, and the thread that enables it (IORING_REGISTER_ENABLE_RINGS) becomes the issuer.
    /// `None` on rings without the flag. Any other thread's `io_uring_enter` (rings without a
    /// kernel thread: with SQPOLL the call only wakes the kernel thread and is not checked) and
    /// `io_uring_register` on the ring's descriptor fail with EEXIST before doing anything.
    /// IORING_REGISTER_SEND_MSG_RING with descriptor -1 is not a call on the ring and stays allowed.
    pub submitter: Option<std::thread::ThreadId>,
    /// Calls refused with EEXIST because the caller was not the issuer.
    pub refused_not_issuer: u32,
    /// Poison free CQ slots so that reading an unpublished slot is visible.
    pub poison_free_slots: bool,
    /// Fault injection: the next `io_uring_enter` with GETEVENTS first posts these completions and
    /// then fails with this errno (EAGAIN, EBUSY, ENOMEM: the kernel did its work, the call failed).
    pub fail_next_enter: Option<(i32, Vec<Cqe>)>,
    /// SQPOLL rings: the kernel thread is taken to have consumed everything published whenever
    /// anybody enters the kernel (default). Drivers that run the kernel thread themselves (C04:
    /// explicit consume steps) switch this off: entering does not consume anything then.
    pub sqpoll_auto: bool,
    /// Fault injection: the next `io_uring_enter` WITHOUT GETEVENTS (a pure submit / wake-up call)
    /// fails with this errno before doing anything.
    pub fail_next_plain_enter: Option<i32>,
    pub dead: bool,
    /// `Ev::Close` has been logged (the ring descriptor was found closed by a later ring call).
    pub close_logged: bool,
    /// Buffer groups whose ring memory was no longer a live heap block (according to the tracking
    /// allocator, when it is enabled) at the moment they were unregistered.
    pub pbuf_unregistered_after_free: Vec<u16>,
}

unsafe impl Send for Sim {}

const SQ_HEAD: usize = 0;
const SQ_TAIL: usize = 64;
const SQ_FLAGS: usize = 136;
const SQ_CQ_OVERFLOW: u32 = 1 << 1;
/// The submission index array (only used by rings set up WITHOUT IORING_SETUP_NO_SQARRAY).
const SQ_ARRAY: usize = 1024;
const CQ_HEAD: usize = 0;
const CQ_TAIL: usize = 64;
const CQ_CQES: usize = 192;
const RING_MAP: usize = 1 << 20;

struct Global {
    sims: Vec<Sim>,
    pending: SetupConfig,
    /// fds the simulator "issued" (fake descriptors): close(2) on them is recorded, not executed.
    pub fake_fds: Vec<i32>,
    pub closes: Vec<i32>,
    /// Fault injection: this many of the next close(2) calls on descriptors the simulator knows are
    /// interrupted by a signal: the descriptor IS closed (Linux releases the number before it can
    /// report EINTR) and the call fails with EINTR. Calling close again on that number closes
    /// whatever got it in between.
    pub close_eintr: u32,
    /// Called when a blocking wait has nothing to return; see `set_block_handler`.
    block: Option<Box<dyn FnMut(i32, bool) -> BlockAction + Send>>,
    pub last_errno_setup: Vec<Ev>,
}

#[derive(Clone, Copy, Debug, PartialEq)]
pub enum BlockAction {
    /// Something may have been posted; look again.
    Retry,
    /// The timeout expired.
    Etime,
    /// Interrupted by a signal.
    Eintr,
    /// Nothing can ever arrive: report and return ETIME so the harness can continue.
    Stuck,
}

fn global_mutex() -> &'static Mutex<Global> {
    static G: OnceLock<Mutex<Global>> = OnceLock::new();
    G.get_or_init(|| {
        Mutex::new(Global {
            sims: Vec::new(),
            pending: SetupConfig::default(),
            fake_fds: Vec::new(),
            closes: Vec::new(),
            close_eintr: 0,
            block: None,
            last_errno_setup: Vec::new(),
        })
    })
}

fn global() -> MutexGuard<'static, Global> {
    match global_mutex().lock() {
        Ok(g) => g,
        Err(e) => e.into_inner(),
    }
}

fn set_errno(e: i32) {
    unsafe { *libc::__errno_location() = e };
}

fn err(e: i32) -> Option<c_int> {
    set_errno(e);
    Some(-1)
}

static TABLE: a10::verif::Table = a10::verif::Table {
    io_uring_setup: Some(hook_setup),
    io_uring_enter2: Some(hook_enter),
    io_uring_register: Some(hook_register),
    mmap: Some(hook_mmap),
    munmap: Some(hook_munmap),
    madvise: Some(hook_madvise),
    close: Some(hook_close),
    yield_point: Some(crate::sched::yield_point),
};

pub fn install() {
    a10::verif::install(&TABLE);
}

/// Configure what the next `setup` does.
pub fn configure(cfg: SetupConfig) {
    global().pending = cfg;
}

/// `f(ring descriptor, the wait has a timeout)` decides what a blocking `io_uring_enter` with
/// nothing to return does.
pub fn set_block_handler(f: Option<Box<dyn FnMut(i32, bool) -> BlockAction + Send>>) {
    global().block = f;
}

/// Run `f` on the most recently created live simulated ring.
pub fn with<R>(f: impl FnOnce(&mut Sim) -> R) -> R {
    let mut g = global();
    let sim = g.sims.iter_mut().rev().find(|s| !s.dead).expect("no simulated ring");
    f(sim)
}

/// Like `with`, but never waits: `None` when the simulator's lock is held (e.g. by this very
/// thread, inside one of the hooks) or when there is no live simulated ring. For callers that
/// may run anywhere, such as the allocator's free-time probe.
pub fn try_with<R>(f: impl FnOnce(&mut Sim) -> R) -> Option<R> {
    let mut g = match global_mutex().try_lock() {
        Ok(g) => g,
        Err(std::sync::TryLockError::Poisoned(e)) => e.into_inner(),
        Err(std::sync::TryLockError::WouldBlock) => return None,
    };
    let sim = g.sims.iter_mut().rev().find(|s| !s.dead)?;
    Some(f(sim))
}

pub fn with_fd<R>(fd: i32, f: impl FnOnce(&mut Sim) -> R) -> Option<R> {
    let mut g = global();
    g.sims.iter_mut().rev().find(|s| s.fd == fd && !s.dead).map(f)
}

/// Forget all rings (their memfds are closed by a10's `OwnedFd`).
pub fn reset() {
    let mut g = global();
    for s in g.sims.drain(..) {
        s.unmap();
    }
    g.fake_fds.clear();
    g.closes.clear();
    g.close_eintr = 0;
    g.pending = SetupConfig::default();
    g.last_errno_setup.clear();
}

pub fn take_setup_log() -> Vec<Ev> {
    std::mem::take(&mut global().last_errno_setup)
}

pub fn add_fake_fd(fd: i32) {
    global().fake_fds.push(fd);
}

/// See `Global::close_eintr`.
pub fn set_close_eintr(n: u32) {
    global().close_eintr = n;
}

pub fn take_closes() -> Vec<i32> {
    std::mem::take(&mut global().closes)
}

/// Real descriptors of the harness process that the code under test obtained from a real system
/// call (pipe2(2) in `PipeOp::fallback`) and that the simulated kernel therefore has to treat as
/// issued: `.0` = open now, `.1` = registered earlier and closed since (a second close of such a
/// number is recorded and answered with EBADF, never passed to the real close(2), which could
/// hit whatever reuses the number).
static REAL_FDS: Mutex<(Vec<i32>, Vec<i32>)> = Mutex::new((Vec::new(), Vec::new()));

fn real_fds() -> MutexGuard<'static, (Vec<i32>, Vec<i32>)> {
    match REAL_FDS.lock() {
        Ok(g) => g,
        Err(e) => e.into_inner(),
    }
}

/// Register a real descriptor after the fact. From now on a `close(fd)` through hook A is
/// recorded (like one of a fake descriptor) *and* carried out, and so is an IORING_OP_CLOSE
/// naming it as a regular descriptor at the moment the simulated kernel consumes it.
pub fn add_real_fd(fd: i32) {
    let mut r = real_fds();
    r.1.retain(|x| *x != fd);
    if !r.0.contains(&fd) {
        r.0.push(fd);
    }
}

/// The registered real descriptors that are still open; they are forgotten (the caller closes
/// them), as is the list of closed ones. Called at the end of a case.
pub fn take_real_fds() -> Vec<i32> {
    let mut r = real_fds();
    r.1.clear();
    std::mem::take(&mut r.0)
}

/// Really close `fd` if it is a registered real descriptor that is open. `Some(true)`: closed
/// now; `Some(false)`: was registered, already closed; `None`: not one of them.
fn close_real_fd(fd: i32) -> Option<bool> {
    let mut r = real_fds();
    if let Some(pos) = r.0.iter().position(|x| *x == fd) {
        r.0.remove(pos);
        r.1.push(fd);
        unsafe { libc::close(fd) };
        Some(true)
    } else if r.1.contains(&fd) {
        Some(false)
    } else {
        None
    }
}

impl Sim {
    /// Called at the start of every hooked call that concerns this ring: if the ring descriptor
    /// has been closed in the meantime (`OwnedFd` closes without a hook), say so once, *before*
    /// the call is logged, so that "closed before the last munmap / enter / register" is visible
    /// in the order of the log.
    fn note_if_closed(&mut self) {
        if !self.close_logged && unsafe { libc::fcntl(self.fd, libc::F_GETFD) } == -1 {
            self.close_logged = true;
            self.log.push(Ev::Close { fd: self.fd });
        }
    }
    fn unmap(&self) {
        unsafe {
            libc::munmap(self.sq_ring.cast(), RING_MAP);
            libc::munmap(self.cq_ring.cast(), RING_MAP);
            libc::munmap(self.sqes.cast(), self.sq_entries as usize * 64);
        }
    }
    fn a32(&self, ring: *mut u8, off: usize) -> &AtomicU32 {
        unsafe { &*(ring.add(off) as *const AtomicU32) }
    }
    pub fn sq_head(&self) -> u32 {
        self.a32(self.sq_ring, SQ_HEAD).load(Ordering::SeqCst)
    }
    pub fn sq_tail(&self) -> u32 {
        self.a32(self.sq_ring, SQ_TAIL).load(Ordering::SeqCst)
    }
    pub fn cq_head(&self) -> u32 {
        self.a32(self.cq_ring, CQ_HEAD).load(Ordering::SeqCst)
    }
    pub fn cq_tail(&self) -> u32 {
        self.a32(self.cq_ring, CQ_TAIL).load(Ordering::SeqCst)
    }
    /// IORING_SQ_NEED_WAKEUP: the kernel thread of an SQPOLL ring says it went to sleep.
    pub fn set_need_wakeup(&self, on: bool) {
        if on {
            self.a32(self.sq_ring, SQ_FLAGS).fetch_or(1, Ordering::SeqCst);
        } else {
            self.a32(self.sq_ring, SQ_FLAGS).fetch_and(!1, Ordering::SeqCst);
        }
    }
    pub fn set_sq_flags(&self, v: u32) {
        self.a32(self.sq_ring, SQ_FLAGS).store(v, Ordering::SeqCst);
    }
    fn cqe_slot(&self, idx: u32) -> *mut Cqe {
        unsafe { (self.cq_ring.add(CQ_CQES) as *mut Cqe).add((idx & (self.cq_entries - 1)) as usize) }
    }
    /// Number of CQEs published and not yet released by the implementation.
    pub fn cq_ready(&self) -> u32 {
        self.cq_tail().wrapping_sub(self.cq_head())
    }
    /// The `k`-th completion published and not yet released by the implementation (0 = the one
    /// at the head). Does not allocate.
    pub fn cq_peek(&self, k: u32) -> Option<Cqe> {
        if k >= self.cq_ready().min(self.cq_entries) {
            return None;
        }
        Some(unsafe { self.cqe_slot(self.cq_head().wrapping_add(k)).read_volatile() })
    }
    /// Number of SQEs published and not yet consumed.
    pub fn sq_pending(&self) -> u32 {
        self.sq_tail().wrapping_sub(self.sq_head())
    }

    /// Submissions published by the implementation and not yet consumed, oldest first.
    /// Which entry of the submission array the kernel reads for queue position `pos` (K1): the
    /// position itself with IORING_SETUP_NO_SQARRAY, else what the index array says.
    fn sq_slot(&self, pos: u32) -> usize {
        let direct = (pos & (self.sq_entries - 1)) as usize;
        if self.flags & SETUP_NO_SQARRAY != 0 {
            direct
        } else {
            let v = self.a32(self.sq_ring, SQ_ARRAY + 4 * direct).load(Ordering::SeqCst);
            (v & (self.sq_entries - 1)) as usize
        }
    }

    pub fn pending_sqes(&self) -> Vec<Sqe> {
        let mut out = Vec::new();
        let mut h = self.sq_head();
        let t = self.sq_tail();
        while h != t && out.len() < self.sq_entries as usize {
            let idx = self.sq_slot(h);
            out.push(unsafe { self.sqes.add(idx).read_volatile() });
            h = h.wrapping_add(1);
        }
        out
    }

    /// Sanity of what the implementation published (K3: the kernel owns [tail, head+len)).
    pub fn check_counters(&mut self) {
        let ready = self.cq_ready();
        if ready > self.cq_entries {
            let what = format!(
                "completion queue head {} is ahead of tail {} (the implementation consumed entries the kernel never published)",
                self.cq_head(),
                self.cq_tail()
            );
            self.log.push(Ev::Corrupt { what });
        }
        let pending = self.sq_pending();
        if pending > self.sq_entries {
            let what = format!(
                "submission queue tail {} is more than {} entries ahead of head {} (unconsumed entries were overwritten)",
                self.sq_tail(),
                self.sq_entries,
                self.sq_head()
            );
            self.log.push(Ev::Corrupt { what });
        }
    }

    /// Post a CQE (K3): into the ring when there is room, else onto the overflow list (NODROP).
    pub fn post(&mut self, cqe: Cqe) {
        if !self.overflow.is_empty() || self.cq_ready() >= self.cq_entries {
            self.overflow.push_back(cqe);
            // As Linux does: IORING_SQ_CQ_OVERFLOW in the SQ flags while the list is not empty.
            self.a32(self.sq_ring, SQ_FLAGS).fetch_or(SQ_CQ_OVERFLOW, Ordering::SeqCst);
            self.log.push(Ev::Posted { cqe, overflow: true });
            return;
        }
        self.post_now(cqe);
        self.log.push(Ev::Posted { cqe, overflow: false });
    }

    fn post_now(&mut self, cqe: Cqe) {
        let tail = self.cq_tail();
        unsafe { self.cqe_slot(tail).write_volatile(cqe) };
        std::sync::atomic::fence(Ordering::SeqCst);
        self.a32(self.cq_ring, CQ_TAIL).store(tail.wrapping_add(1), Ordering::SeqCst);
        self.cq_ghost_tail += 1;
    }

    pub fn flush_overflow(&mut self) {
        while !self.overflow.is_empty() && self.cq_ready() < self.cq_entries {
            let cqe = self.overflow.pop_front().unwrap();
            self.post_now(cqe);
        }
        if self.overflow.is_empty() && !self.sq_ring.is_null() {
            self.a32(self.sq_ring, SQ_FLAGS).fetch_and(!SQ_CQ_OVERFLOW, Ordering::SeqCst);
        }
    }

    /// Scribble over every CQ slot the implementation has released (outside [head, tail)).
    pub fn poison_released(&mut self) {
        if !self.poison_free_slots {
            return;
        }
        let head = self.cq_head();
        let ready = self.cq_ready().min(self.cq_entries);
        for k in ready..self.cq_entries {
            let idx = head.wrapping_add(k);
            // user_data 0 is ignored by a10; a wrongly read slot shows up as a lost completion
            // or as a head running past the tail.
            unsafe { self.cqe_slot(idx).write_volatile(Cqe { user_data: 0, res: -0x5EED, flags: 0 }) };
        }
    }

    /// Complete an in-flight request with (res, flags). Without `CQE_F_MORE` it is final.
    pub fn complete(&mut self, req: u64, res: i32, flags: u32) -> bool {
        let Some(pos) = self.inflight.iter().position(|r| r.req == req) else {
            return false;
        };
        let ud = self.inflight[pos].sqe.user_data;
        let skip = self.inflight[pos].sqe.flags & SQE_CQE_SKIP_SUCCESS != 0 && res >= 0;
        if flags & CQE_F_MORE == 0 {
            self.inflight.remove(pos);
        } else {
            self.inflight[pos].posted += 1;
        }
        if !skip {
            self.post(Cqe { user_data: ud, res, flags });
        }
        true
    }

    pub fn find_req_by_user_data(&self, ud: u64) -> Option<u64> {
        self.inflight.iter().find(|r| r.sqe.user_data == ud).map(|r| r.req)
    }

    /// Pick the next provided buffer of group `bgid` (K5). Returns (bid, addr, len).
    pub fn pbuf_pick(&mut self, bgid: u16) -> Option<(u16, u64, u32)> {
        let ring = self.pbufs.get_mut(&bgid)?;
        let tail = unsafe { (*((ring.addr as usize + 14) as *const AtomicU16)).load(Ordering::SeqCst) };
        if ring.head == tail {
            return None;
        }
        let idx = (ring.head as u32 & (ring.entries - 1)) as usize;
        let b = unsafe { ((ring.addr as usize) as *const Buf).add(idx).read_volatile() };
        ring.head = ring.head.wrapping_add(1);
        Some((b.bid, b.addr, b.len))
    }

    pub fn pbuf_available(&self, bgid: u16) -> Vec<(u16, u64, u32)> {
        let Some(ring) = self.pbufs.get(&bgid) else { return Vec::new() };
        let tail = unsafe { (*((ring.addr as usize + 14) as *const AtomicU16)).load(Ordering::SeqCst) };
        let mut out = Vec::new();
        let mut h = ring.head;
        while h != tail {
            let idx = (h as u32 & (ring.entries - 1)) as usize;
            let b = unsafe { ((ring.addr as usize) as *const Buf).add(idx).read_volatile() };
            out.push((b.bid, b.addr, b.len));
            h = h.wrapping_add(1);
            if out.len() > 70000 {
                break;
            }
        }
        out
    }

    /// Consume up to `n` SQEs in ring order (K1).
    pub fn submit(&mut self, n: u32) -> u32 {
        let mut done = 0;
        while done < n {
            let head = self.sq_head();
            let tail = self.sq_tail();
            if head == tail {
                break;
            }
            let idx = self.sq_slot(head);
            let sqe = unsafe { self.sqes.add(idx).read_volatile() };
            self.a32(self.sq_ring, SQ_HEAD).store(head.wrapping_add(1), Ordering::SeqCst);
            self.sq_ghost_head += 1;
            done += 1;
            if !self.execute(sqe) && self.flags & SETUP_SUBMIT_ALL == 0 {
                break;
            }
        }
        done
    }

    /// Returns false when the request was refused while being prepared.
    fn execute(&mut self, sqe: Sqe) -> bool {
        let skip_ok = sqe.flags & SQE_CQE_SKIP_SUCCESS != 0;
        if !matches!(sqe.opcode, OP_ASYNC_CANCEL | OP_MSG_RING | OP_CLOSE) {
            if let Some(&(_, errno)) = self.reject_policy.iter().find(|p| p.0 == sqe.fd) {
                self.log.push(Ev::Consumed { sqe, req: None });
                self.post(Cqe { user_data: sqe.user_data, res: -errno, flags: 0 });
                return false;
            }
        }
        match sqe.opcode {
            OP_ASYNC_CANCEL => {
                self.log.push(Ev::Consumed { sqe, req: None });
                // K4: matched against requests submitted before it.
                let res = match self.inflight.iter().position(|r| r.sqe.user_data == sqe.addr) {
                    Some(pos) if self.can_cancel(pos) => {
                        self.cancel_at(pos);
                        0
                    }
                    Some(_) => -libc::EALREADY,
                    None => -libc::ENOENT,
                };
                if !(res == 0 && skip_ok) {
                    self.post(Cqe { user_data: sqe.user_data, res, flags: 0 });
                }
            }
            OP_MSG_RING => {
                self.log.push(Ev::Consumed { sqe, req: None });
                // K6: one CQE on the target ring (here: always this ring) and the sender's own.
                self.post(Cqe { user_data: sqe.off, res: sqe.len as i32, flags: 0 });
                if !skip_ok {
                    self.post(Cqe { user_data: sqe.user_data, res: 0, flags: 0 });
                }
            }
            OP_CLOSE if sqe.user_data == 3 => {
                // Background close issued by `AsyncFd::drop`.
                if sqe.file_index == 0 {
                    let _ = close_real_fd(sqe.fd);
                }
                self.log.push(Ev::Consumed { sqe, req: None });
                if !skip_ok {
                    self.post(Cqe { user_data: sqe.user_data, res: 0, flags: 0 });
                }
            }
            _ => {
                if sqe.opcode == OP_CLOSE && sqe.file_index == 0 {
                    // IORING_OP_CLOSE of a `close()` future: executed when consumed (the driver
                    // posts its completion); a real descriptor is really closed.
                    let _ = close_real_fd(sqe.fd);
                }
                let req = self.next_req;
                self.next_req += 1;
                self.log.push(Ev::Consumed { sqe, req: Some(req) });
                let cancelable = self.cancel_policy.iter().find(|p| p.0 == sqe.fd).map_or(self.default_cancelable, |p| p.1);
                self.inflight.push(Inflight { req, sqe, posted: 0, cancelable });
                if let Some((res, flags)) = self.cfg.auto_complete {
                    self.complete(req, res, flags);
                }
            }
        }
        true
    }

    /// A request that posts its result with IORING_CQE_F_MORE and a notification afterwards.
    pub fn is_two_step(sqe: &Sqe) -> bool {
        sqe.opcode == OP_SEND_ZC || sqe.opcode == OP_SENDMSG_ZC
    }

    /// Would a cancellation finish in-flight request `pos` now? (see `strict_cancel`)
    fn can_cancel(&self, pos: usize) -> bool {
        let r = &self.inflight[pos];
        if !self.strict_cancel {
            return r.cancelable;
        }
        r.cancelable && !(Sim::is_two_step(&r.sqe) && r.posted > 0)
    }

    /// Cancel in-flight request `pos` (which `can_cancel`): it leaves the in-flight table and posts
    /// its final completion; under `strict_cancel` a two-step request (whose result is due) posts
    /// the result first (-ECANCELED with F_MORE), then the notification.
    fn cancel_at(&mut self, pos: usize) {
        let target = self.inflight.remove(pos);
        let ud = target.sqe.user_data;
        if self.strict_cancel && Sim::is_two_step(&target.sqe) {
            self.post(Cqe { user_data: ud, res: -libc::ECANCELED, flags: CQE_F_MORE });
            self.post(Cqe { user_data: ud, res: 0, flags: CQE_F_NOTIF });
        } else {
            self.post(Cqe { user_data: ud, res: -libc::ECANCELED, flags: 0 });
        }
    }

    pub fn take_log(&mut self) -> Vec<Ev> {
        std::mem::take(&mut self.log)
    }
}

unsafe fn hook_setup(entries: c_uint, p: *mut c_void) -> Option<c_int> {
    let params = unsafe { &mut *(p as *mut Params) };
    let mut g = global();
    let cfg = g.pending.clone();
    let params_in = [
        params.sq_entries,
        params.cq_entries,
        params.flags,
        params.sq_thread_cpu,
        params.sq_thread_idle,
        params.wq_fd,
        entries,
    ];
    let fail = |g: &mut Global, e: i32| {
        g.last_errno_setup.push(Ev::Setup { entries, params_in, res: -e });
        err(e)
    };
    if let Some(e) = cfg.fail_setup {
        return fail(&mut g, e);
    }
    // Validation as in io_uring_create().
    let flags = params.flags;
    let mut sq = entries;
    if sq == 0 {
        return fail(&mut g, libc::EINVAL);
    }
    if sq > 32768 {
        if flags & SETUP_CLAMP == 0 {
            return fail(&mut g, libc::EINVAL);
        }
        sq = 32768;
    }
    sq = sq.next_power_of_two();
    let mut cq = if flags & SETUP_CQSIZE != 0 {
        let mut c = params.cq_entries;
        if c == 0 {
            return fail(&mut g, libc::EINVAL);
        }
        if c > 65536 {
            if flags & SETUP_CLAMP == 0 {
                return fail(&mut g, libc::EINVAL);
            }
            c = 65536;
        }
        c = c.next_power_of_two();
        if c < sq {
            return fail(&mut g, libc::EINVAL);
        }
        c
    } else {
        2 * sq
    };
    if cq == 0 {
        cq = 1;
    }
    if flags & SETUP_DEFER_TASKRUN != 0 && flags & SETUP_SINGLE_ISSUER == 0 {
        return fail(&mut g, libc::EINVAL);
    }
    if flags & SETUP_SQ_AFF != 0 && flags & SETUP_SQPOLL == 0 {
        return fail(&mut g, libc::EINVAL);
    }
    if flags & SETUP_COOP_TASKRUN != 0 && flags & SETUP_SQPOLL != 0 {
        return fail(&mut g, libc::EINVAL);
    }

    let fd = if cfg.unmappable {
        let mut fds = [0i32; 2];
        unsafe { libc::pipe2(fds.as_mut_ptr(), libc::O_CLOEXEC) };
        unsafe { libc::close(fds[1]) };
        fds[0]
    } else {
        let fd = unsafe { libc::memfd_create(b"simk\0".as_ptr().cast(), libc::MFD_CLOEXEC) };
        assert!(fd >= 0);
        let size = OFF_SQES + (sq as i64) * 64 + 4096;
        assert!(unsafe { libc::ftruncate(fd, size) } == 0);
        fd
    };
    params.sq_entries = sq;
    params.cq_entries = cq;
    params.features = cfg.features;
    params.sq_off = SqOff {
        head: SQ_HEAD as u32,
        tail: SQ_TAIL as u32,
        ring_mask: 256,
        ring_entries: 260,
        flags: SQ_FLAGS as u32,
        dropped: 264,
        // Without IORING_SETUP_NO_SQARRAY the kernel reads sqes[array[head & mask]]; the array
        // starts zeroed and it is the application's job to fill it in.
        array: if params.flags & SETUP_NO_SQARRAY != 0 { 0 } else { SQ_ARRAY as u32 },
        resv1: 0,
        user_addr: 0,
    };
    params.cq_off = CqOff {
        head: CQ_HEAD as u32,
        tail: CQ_TAIL as u32,
        ring_mask: 128,
        ring_entries: 132,
        overflow: 136,
        cqes: CQ_CQES as u32,
        flags: 140,
        resv1: 0,
        user_addr: 0,
    };
    let map = |len: usize, off: i64| -> *mut u8 {
        if cfg.unmappable {
            return std::ptr::null_mut();
        }
        let p = unsafe {
            libc::mmap(std::ptr::null_mut(), len, libc::PROT_READ | libc::PROT_WRITE, libc::MAP_SHARED, fd, off)
        };
        assert!(p != libc::MAP_FAILED);
        p.cast()
    };
    let sim = Sim {
        fd,
        sq_entries: sq,
        cq_entries: cq,
        flags,
        sq_ring: map(RING_MAP, OFF_SQ_RING),
        cq_ring: map(RING_MAP, OFF_CQ_RING),
        sqes: map(sq as usize * 64, OFF_SQES).cast(),
        inflight: Vec::new(),
        overflow: VecDeque::new(),
        log: vec![Ev::Setup { entries, params_in, res: fd }],
        next_req: 0,
        pbufs: BTreeMap::new(),
        files: None,
        default_cancelable: true,
        cancel_policy: Vec::new(),
        reject_policy: Vec::new(),
        strict_cancel: false,
        cfg: cfg.clone(),
        mmaps_seen: 0,
        madvises_seen: 0,
        cq_ghost_tail: 0,
        sq_ghost_head: 0,
        enabled: flags & SETUP_R_DISABLED == 0,
        submitter: if flags & SETUP_SINGLE_ISSUER != 0 && flags & SETUP_R_DISABLED == 0 {
            Some(std::thread::current().id())
        } else {
            None
        },
        refused_not_issuer: 0,
        poison_free_slots: false,
        fail_next_enter: None,
        sqpoll_auto: true,
        fail_next_plain_enter: None,
        dead: false,
        close_logged: false,
        pbuf_unregistered_after_free: Vec::new(),
    };
    if !cfg.unmappable {
        sim.a32(sim.sq_ring, SQ_HEAD).store(cfg.sq_start, Ordering::SeqCst);
        sim.a32(sim.sq_ring, SQ_TAIL).store(cfg.sq_start, Ordering::SeqCst);
        sim.a32(sim.cq_ring, CQ_HEAD).store(cfg.cq_start, Ordering::SeqCst);
        sim.a32(sim.cq_ring, CQ_TAIL).store(cfg.cq_start, Ordering::SeqCst);
    }
    g.sims.push(sim);
    Some(fd)
}

fn timeout_of(flags: u32, arg: *const c_void, size: usize) -> Option<(i64, i64)> {
    if flags & ENTER_EXT_ARG == 0 || arg.is_null() || size < std::mem::size_of::<GeteventsArg>() {
        return None;
    }
    let a = unsafe { (arg as *const GeteventsArg).read() };
    if a.ts == 0 {
        return None;
    }
    let ts = unsafe { (a.ts as usize as *const [i64; 2]).read() };
    Some((ts[0], ts[1]))
}

unsafe fn hook_enter(
    fd: c_int,
    to_submit: c_uint,
    min_complete: c_uint,
    flags: c_uint,
    arg: *const c_void,
    size: usize,
) -> Option<c_int> {
    let timeout = timeout_of(flags, arg, size);
    let submitted;
    {
        let mut g = global();
        let sim = g.sims.iter_mut().rev().find(|s| s.fd == fd && !s.dead)?;
        sim.note_if_closed();
        sim.check_counters();
        if !sim.enabled {
            sim.log.push(Ev::Enter { to_submit, min_complete, flags, timeout, res: -libc::EBADFD });
            return err(libc::EBADFD);
        }
        // io_uring_enter -> io_uring_add_tctx_node -> __io_uring_add_tctx_node_from_submit: on a
        // single-issuer ring only the issuer may enter (not checked on the SQPOLL path).
        if sim.flags & SETUP_SINGLE_ISSUER != 0
            && sim.flags & SETUP_SQPOLL == 0
            && sim.submitter != Some(std::thread::current().id())
        {
            sim.refused_not_issuer += 1;
            sim.log.push(Ev::Enter { to_submit, min_complete, flags, timeout, res: -libc::EEXIST });
            return err(libc::EEXIST);
        }
        if flags & ENTER_GETEVENTS == 0 {
            if let Some(e) = sim.fail_next_plain_enter.take() {
                sim.log.push(Ev::Enter { to_submit, min_complete, flags, timeout, res: -e });
                return err(e);
            }
        }
        submitted = if sim.flags & SETUP_SQPOLL != 0 {
            // The kernel thread has taken whatever was published.
            if sim.sqpoll_auto {
                sim.submit(u32::MAX);
            }
            0
        } else {
            sim.submit(to_submit)
        };
        sim.flush_overflow();
        sim.poison_released();
        if flags & ENTER_GETEVENTS != 0 {
            if let Some((e, cqes)) = sim.fail_next_enter.take() {
                for c in cqes {
                    sim.post(c);
                }
                sim.log.push(Ev::Enter { to_submit, min_complete, flags, timeout, res: -e });
                return err(e);
            }
        }
        if flags & ENTER_GETEVENTS == 0 || min_complete == 0 || sim.cq_ready() > 0 {
            sim.log.push(Ev::Enter { to_submit, min_complete, flags, timeout, res: submitted as i32 });
            return Some(submitted as c_int);
        }
        if timeout == Some((0, 0)) {
            // The kernel reports what it submitted unless nothing was submitted.
            if submitted > 0 {
                sim.log.push(Ev::Enter { to_submit, min_complete, flags, timeout, res: submitted as i32 });
                return Some(submitted as c_int);
            }
            sim.log.push(Ev::Enter { to_submit, min_complete, flags, timeout, res: -libc::ETIME });
            return err(libc::ETIME);
        }
    }
    // Blocking wait with nothing to return: ask the harness / scheduler what happens.
    loop {
        let action = {
            let mut g = global();
            if let Some(sim) = g.sims.iter_mut().rev().find(|s| s.fd == fd && !s.dead) {
                sim.log.push(Ev::Blocked { timeout });
            }
            let mut handler = g.block.take();
            drop(g);
            let action = match handler.as_mut() {
                Some(h) => h(fd, timeout.is_some()),
                None => crate::sched::default_block(fd, timeout.is_some()),
            };
            let mut g = global();
            if g.block.is_none() {
                g.block = handler;
            }
            action
        };
        let mut g = global();
        let sim = g.sims.iter_mut().rev().find(|s| s.fd == fd && !s.dead)?;
        if sim.flags & SETUP_SQPOLL != 0 && sim.sqpoll_auto {
            sim.submit(u32::MAX);
        }
        sim.flush_overflow();
        let ready = sim.cq_ready() > 0;
        let (res, ret) = match action {
            _ if ready => (submitted as i32, Some(submitted as c_int)),
            BlockAction::Retry => continue,
            BlockAction::Eintr if submitted == 0 => (-libc::EINTR, err(libc::EINTR)),
            BlockAction::Etime | BlockAction::Stuck if submitted == 0 => (-libc::ETIME, err(libc::ETIME)),
            _ => (submitted as i32, Some(submitted as c_int)),
        };
        sim.log.push(Ev::Enter { to_submit, min_complete, flags, timeout, res });
        return ret;
    }
}

unsafe fn hook_register(fd: c_int, opcode: c_uint, arg: *const c_void, nr: c_uint) -> Option<c_int> {
    let mut g = global();
    if opcode == REGISTER_SEND_MSG_RING && fd == -1 {
        // K6, synchronous variant: `arg` is an SQE whose `fd` names the target ring.
        let sqe = unsafe { (arg as *const Sqe).read() };
        let target = g.sims.iter_mut().rev().find(|s| s.fd == sqe.fd && !s.dead)?;
        if !target.enabled {
            // io_msg_ring: a target ring that is still disabled refuses messages.
            target.log.push(Ev::Register { opcode, nr, res: -libc::EBADFD, detail: "msg_ring to a disabled ring".into() });
            return err(libc::EBADFD);
        }
        target.post(Cqe { user_data: sqe.off, res: sqe.len as i32, flags: 0 });
        target.log.push(Ev::Register { opcode, nr, res: 0, detail: format!("msg_ring ud={}", sqe.off) });
        return Some(0);
    }
    let sim = g.sims.iter_mut().rev().find(|s| s.fd == fd && !s.dead)?;
    sim.note_if_closed();
    sim.check_counters();
    // __io_uring_register: `if (ctx->submitter_task && ctx->submitter_task != current) return -EEXIST`.
    if let Some(owner) = sim.submitter {
        if owner != std::thread::current().id() {
            sim.refused_not_issuer += 1;
            sim.log.push(Ev::Register { opcode, nr, res: -libc::EEXIST, detail: "caller is not the issuer of this single-issuer ring".into() });
            return err(libc::EEXIST);
        }
    }
    if let Some((op, e)) = sim.cfg.fail_register {
        if op == opcode {
            sim.log.push(Ev::Register { opcode, nr, res: -e, detail: "injected failure".into() });
            return err(e);
        }
    }
    let mut detail = String::new();
    let res: i32 = match opcode {
        REGISTER_ENABLE_RINGS => {
            if sim.enabled {
                -libc::EBADFD
            } else {
                sim.enabled = true;
                // io_register_enable_rings: the enabling thread becomes the issuer.
                if sim.flags & SETUP_SINGLE_ISSUER != 0 && sim.submitter.is_none() {
                    sim.submitter = Some(std::thread::current().id());
                }
                0
            }
        }
        REGISTER_FILES2 => {
            let r = unsafe { (arg as *const RsrcRegister).read() };
            detail = format!("nr={} flags={}", r.nr, r.flags);
            if sim.files.is_some() {
                -libc::EBUSY
            } else {
                sim.files = Some(vec![-1; r.nr as usize]);
                0
            }
        }
        REGISTER_FILES_UPDATE | REGISTER_FILES_UPDATE2 => {
            let u = unsafe { (arg as *const RsrcUpdate).read() };
            let fds = unsafe { std::slice::from_raw_parts(u.data as usize as *const i32, nr as usize) };
            detail = format!("offset={} fds={:?}", u.offset, fds);
            match sim.files.as_mut() {
                None => -libc::ENXIO,
                Some(t) => {
                    let mut r = 0;
                    for (i, f) in fds.iter().enumerate() {
                        let slot = u.offset as usize + i;
                        if slot >= t.len() {
                            r = -libc::EINVAL;
                            break;
                        }
                        t[slot] = *f;
                        r += 1;
                    }
                    r
                }
            }
        }
        REGISTER_PBUF_RING => {
            let r = unsafe { (arg as *const BufReg).read() };
            detail = format!("bgid={} entries={} addr={:#x}", r.bgid, r.ring_entries, r.ring_addr);
            if !r.ring_entries.is_power_of_two() || r.ring_entries > 32768 || r.ring_addr & 4095 != 0 {
                -libc::EINVAL
            } else if sim.pbufs.contains_key(&r.bgid) {
                -libc::EEXIST
            } else {
                sim.pbufs.insert(r.bgid, PbufRing { addr: r.ring_addr, entries: r.ring_entries, head: 0 });
                0
            }
        }
        UNREGISTER_PBUF_RING => {
            let r = unsafe { (arg as *const BufReg).read() };
            detail = format!("bgid={}", r.bgid);
            match sim.pbufs.remove(&r.bgid) {
                Some(ring) => {
                    if !crate::alloc::is_live(ring.addr as usize, 1) {
                        sim.pbuf_unregistered_after_free.push(r.bgid);
                    }
                    0
                }
                None => -libc::ENOENT,
            }
        }
        REGISTER_SYNC_CANCEL => {
            let r = unsafe { (arg as *const SyncCancelReg).read() };
            // Which requests the call names (io_cancel_req_match): ANY takes everything; else the
            // descriptor (FD) and/or opcode (OP) must agree and, when neither is given or
            // USERDATA is, `addr` must equal the request's user_data. Without ALL (ANY implies
            // it) only the first match is cancelled. Unknown flag bits and padding: EINVAL.
            const FD: u32 = 1 << 1;
            const FD_FIXED: u32 = 1 << 3;
            const USERDATA: u32 = 1 << 4;
            const OP: u32 = 1 << 5;
            let known = ASYNC_CANCEL_ALL | FD | ASYNC_CANCEL_ANY | FD_FIXED | USERDATA | OP;
            let matches = |q: &Sqe| -> bool {
                if r.flags & ASYNC_CANCEL_ANY != 0 {
                    return true;
                }
                if r.flags & FD != 0 && q.fd != r.fd {
                    return false;
                }
                if r.flags & OP != 0 && q.opcode != r.opcode {
                    return false;
                }
                let by_data = r.flags & (FD | OP) == 0 || r.flags & USERDATA != 0;
                !(by_data && q.user_data != r.addr)
            };
            let all = r.flags & (ASYNC_CANCEL_ALL | ASYNC_CANCEL_ANY) != 0;
            if r.flags & !known != 0 || r.pad != [0; 7] || r.pad2 != [0; 3] || nr != 1 {
                detail = format!("flags={} refused", r.flags);
                -libc::EINVAL
            } else if sim.strict_cancel {
                // K2/K4: every named in-flight request that can be cancelled, in order, exactly as
                // ASYNC_CANCEL would; the others stay in flight and the call times out.
                let n = sim.inflight.iter().filter(|q| matches(&q.sqe)).count();
                let mut pos = 0;
                let mut done = 0;
                while pos < sim.inflight.len() && (all || done == 0) {
                    if matches(&sim.inflight[pos].sqe) && sim.can_cancel(pos) {
                        sim.cancel_at(pos);
                        done += 1;
                    } else {
                        pos += 1;
                    }
                }
                let left = if all { n - done } else { usize::from(n > 0 && done == 0) };
                detail = format!("flags={} inflight={} named={} left={}", r.flags, sim.inflight.len() + done, n, left);
                if left > 0 {
                    -libc::ETIME
                } else if n == 0 {
                    -libc::ENOENT
                } else {
                    0
                }
            } else {
                detail = format!("flags={} inflight={}", r.flags, sim.inflight.len());
                // K4: every named in-flight request posts its final completion.
                let mut n = 0;
                let mut pos = 0;
                while pos < sim.inflight.len() && (all || n == 0) {
                    if matches(&sim.inflight[pos].sqe) {
                        let req = sim.inflight.remove(pos);
                        sim.post(Cqe { user_data: req.sqe.user_data, res: -libc::ECANCELED, flags: 0 });
                        n += 1;
                    } else {
                        pos += 1;
                    }
                }
                if n == 0 { -libc::ENOENT } else { 0 }
            }
        }
        _ => {
            detail = "unsupported".into();
            -libc::EINVAL
        }
    };
    sim.log.push(Ev::Register { opcode, nr, res, detail });
    if res < 0 {
        return err(-res);
    }
    Some(res)
}

unsafe fn hook_mmap(
    _addr: *mut c_void,
    len: usize,
    _prot: c_int,
    _flags: c_int,
    fd: c_int,
    offset: c_long,
) -> Option<*mut c_void> {
    let mut g = global();
    let sim = g.sims.iter_mut().rev().find(|s| s.fd == fd && !s.dead)?;
    let n = sim.mmaps_seen;
    sim.mmaps_seen += 1;
    if sim.cfg.fail_mmap == Some(n) {
        sim.log.push(Ev::Mmap { len, offset, res_ok: false, addr: 0 });
        set_errno(libc::ENOMEM);
        return Some(libc::MAP_FAILED);
    }
    let p = unsafe { libc::mmap(std::ptr::null_mut(), len, _prot, _flags, fd, offset) };
    let ok = p != libc::MAP_FAILED;
    sim.log.push(Ev::Mmap { len, offset, res_ok: ok, addr: if ok { p as usize } else { 0 } });
    Some(p)
}

unsafe fn hook_munmap(addr: *mut c_void, len: usize) -> Option<c_int> {
    let mut g = global();
    // Attribute the unmap to the ring that mapped this address.
    for sim in g.sims.iter_mut().rev() {
        let mine = sim.log.iter().any(|e| matches!(e, Ev::Mmap { addr: a, res_ok: true, .. } if *a == addr as usize));
        if mine {
            sim.note_if_closed();
            sim.log.push(Ev::Munmap { addr: addr as usize, len });
            break;
        }
    }
    None
}

unsafe fn hook_madvise(addr: *mut c_void, len: usize, advice: c_int) -> Option<c_int> {
    let mut g = global();
    for sim in g.sims.iter_mut().rev() {
        let mine = sim.log.iter().any(|e| matches!(e, Ev::Mmap { addr: a, res_ok: true, .. } if *a == addr as usize));
        if mine {
            let n = sim.madvises_seen;
            sim.madvises_seen += 1;
            if sim.cfg.fail_madvise == Some(n) {
                sim.log.push(Ev::Madvise { addr: addr as usize, len, advice, res: -libc::EINVAL });
                return err(libc::EINVAL);
            }
            sim.log.push(Ev::Madvise { addr: addr as usize, len, advice, res: 0 });
            break;
        }
    }
    None
}

unsafe fn hook_close(fd: c_int) -> Option<c_int> {
    let mut g = global();
    if g.fake_fds.contains(&fd) {
        g.closes.push(fd);
        if g.close_eintr > 0 {
            g.close_eintr -= 1;
            return err(libc::EINTR);
        }
        return Some(0);
    }
    match close_real_fd(fd) {
        Some(true) => {
            g.closes.push(fd);
            if g.close_eintr > 0 {
                g.close_eintr -= 1;
                return err(libc::EINTR);
            }
            Some(0)
        }
        Some(false) => {
            g.closes.push(fd);
            err(libc::EBADF)
        }
        None => None,
    }
}

/// Mark the ring with descriptor `fd` as gone (called by drivers after dropping the `Ring`).
pub fn retire(fd: i32) {
    let mut g = global();
    if let Some(pos) = g.sims.iter().position(|s| s.fd == fd && !s.dead) {
        let s = g.sims.remove(pos);
        if !s.sq_ring.is_null() {
            s.unmap();
        }
    }
}

//! Tracking global allocator: knows every live heap block, poisons memory on free, records
//! frees of watched addresses and frees of blocks that are not live (double free).

use std::alloc::{GlobalAlloc, Layout, System};
use std::sync::atomic::{AtomicBool, AtomicUsize, Ordering};

const CAP: usize = 1 << 17; // slots (open addressing), must be a power of two
const EMPTY: usize = 0;
const TOMB: usize = 1;

struct Table {
    addr: [usize; CAP],
    size: [usize; CAP],
}

static LOCK: AtomicBool = AtomicBool::new(false);
static mut TABLE: Table = Table { addr: [EMPTY; CAP], size: [0; CAP] };
static LIVE: AtomicUsize = AtomicUsize::new(0);

const WATCH_CAP: usize = 4096;
static mut WATCHED: [usize; WATCH_CAP] = [0; WATCH_CAP];
static mut WATCHED_N: usize = 0;
static mut FREED: [usize; WATCH_CAP] = [0; WATCH_CAP];
static mut FREED_N: usize = 0;
/// Probe byte of each FREED entry (0 when no probe is installed).
static mut FREED_INFO: [u8; WATCH_CAP] = [0; WATCH_CAP];
static mut BAD_FREES: usize = 0;
/// Watched blocks are leaked instead of freed (see `quarantine`).
static QUARANTINE: AtomicBool = AtomicBool::new(false);
/// Free-time probe (a `fn(usize) -> u8` stored as an address; 0 = none), see `set_probe`.
static PROBE: AtomicUsize = AtomicUsize::new(0);
static ENABLED: AtomicBool = AtomicBool::new(false);

fn lock() {
    while LOCK.compare_exchange_weak(false, true, Ordering::Acquire, Ordering::Relaxed).is_err() {
        std::hint::spin_loop();
    }
}
fn unlock() {
    LOCK.store(false, Ordering::Release);
}

fn hash(a: usize) -> usize {
    (a >> 4).wrapping_mul(0x9E37_79B9_7F4A_7C15) >> (64 - 17)
}

pub struct Tracking;

#[allow(static_mut_refs)]
unsafe impl GlobalAlloc for Tracking {
    unsafe fn alloc(&self, layout: Layout) -> *mut u8 {
        let p = unsafe { System.alloc(layout) };
        if !p.is_null() && ENABLED.load(Ordering::Relaxed) {
            lock();
            unsafe {
                if LIVE.load(Ordering::Relaxed) < CAP / 2 {
                    let mut i = hash(p as usize);
                    while TABLE.addr[i] != EMPTY && TABLE.addr[i] != TOMB {
                        i = (i + 1) & (CAP - 1);
                    }
                    TABLE.addr[i] = p as usize;
                    TABLE.size[i] = layout.size();
                    LIVE.fetch_add(1, Ordering::Relaxed);
                }
            }
            unlock();
        }
        p
    }

    unsafe fn dealloc(&self, ptr: *mut u8, layout: Layout) {
        if ENABLED.load(Ordering::Relaxed) {
            lock();
            unsafe {
                let a = ptr as usize;
                let mut i = hash(a);
                let mut found = false;
                let mut probes = 0;
                while TABLE.addr[i] != EMPTY && probes < CAP {
                    if TABLE.addr[i] == a {
                        TABLE.addr[i] = TOMB;
                        LIVE.fetch_sub(1, Ordering::Relaxed);
                        found = true;
                        break;
                    }
                    i = (i + 1) & (CAP - 1);
                    probes += 1;
                }
                let mut watched = false;
                let mut slot = usize::MAX;
                for k in 0..WATCHED_N {
                    if WATCHED[k] == a {
                        watched = true;
                        if FREED_N < WATCH_CAP {
                            FREED[FREED_N] = a;
                            FREED_INFO[FREED_N] = 0;
                            slot = FREED_N;
                            FREED_N += 1;
                        }
                    }
                }
                // Freeing a block that is not live: a double free (always counted for watched
                // addresses; for all addresses only in strict mode, since blocks allocated before
                // tracking started are unknown).
                if !found && (watched || TRACK_ALL.load(Ordering::Relaxed)) {
                    BAD_FREES += 1;
                }
                unlock();
                if watched {
                    // What does the rest of the world think of this block at the moment it is
                    // freed? (outside the lock: the probe may look at anything, but should not
                    // allocate)
                    let probe = PROBE.load(Ordering::Acquire);
                    if probe != 0 && slot != usize::MAX {
                        let f: fn(usize) -> u8 = std::mem::transmute::<usize, fn(usize) -> u8>(probe);
                        let b = f(a);
                        lock();
                        if slot < FREED_N && FREED[slot] == a {
                            FREED_INFO[slot] = b;
                        }
                        unlock();
                    }
                    if QUARANTINE.load(Ordering::Relaxed) {
                        // Leak it: a later use of the block by the code under test reads stale
                        // but mapped memory, and a second free is counted above (the block is
                        // no longer live) instead of aborting inside the system allocator.
                        return;
                    }
                }
            }
            // Poison so that a use after free reads garbage rather than the old contents.
            // (the first MiB of very large blocks: a multi-GiB block of which a few pages were
            // touched must not become resident by being freed)
            unsafe { ptr.write_bytes(0xDD, layout.size().min(1 << 20)) };
        }
        unsafe { System.dealloc(ptr, layout) }
    }
}

static TRACK_ALL: AtomicBool = AtomicBool::new(false);

/// Start tracking (blocks allocated earlier are unknown: frees of those are not counted as bad
/// unless `strict`).
pub fn enable(strict: bool) {
    TRACK_ALL.store(strict, Ordering::Relaxed);
    ENABLED.store(true, Ordering::SeqCst);
}

/// Is `[addr, addr+len)` inside one live heap block?
#[allow(static_mut_refs)]
pub fn is_live(addr: usize, len: usize) -> bool {
    lock();
    let mut ok = false;
    unsafe {
        for i in 0..CAP {
            let a = TABLE.addr[i];
            if a > TOMB && a <= addr && addr + len <= a + TABLE.size[i].max(1) {
                ok = true;
                break;
            }
        }
    }
    unlock();
    ok
}

/// The live block containing `addr`: (start, size).
#[allow(static_mut_refs)]
pub fn block_of(addr: usize) -> Option<(usize, usize)> {
    lock();
    let mut r = None;
    unsafe {
        for i in 0..CAP {
            let a = TABLE.addr[i];
            if a > TOMB && a <= addr && addr < a + TABLE.size[i].max(1) {
                r = Some((a, TABLE.size[i]));
                break;
            }
        }
    }
    unlock();
    r
}

/// Number of live tracked heap blocks.
pub fn live() -> usize {
    LIVE.load(Ordering::SeqCst)
}

#[allow(static_mut_refs)]
pub fn watch(addr: usize) {
    lock();
    unsafe {
        if WATCHED_N < WATCH_CAP && !WATCHED[..WATCHED_N].contains(&addr) {
            WATCHED[WATCHED_N] = addr;
            WATCHED_N += 1;
        }
    }
    unlock();
}

/// Frees of watched addresses since the last call, in order.
#[allow(static_mut_refs)]
pub fn take_freed() -> Vec<usize> {
    lock();
    let n = unsafe { FREED_N };
    let mut tmp = [0usize; 64];
    let k = n.min(64);
    unsafe {
        tmp[..k].copy_from_slice(&FREED[..k]);
        FREED_N = 0;
    }
    unlock();
    tmp[..k].to_vec()
}

/// Frees of watched addresses since the last call, in order, each with the byte the free-time
/// probe returned for it (0 without a probe). Drains the same list as `take_freed`.
#[allow(static_mut_refs)]
pub fn take_freed_info() -> Vec<(usize, u8)> {
    lock();
    let n = unsafe { FREED_N };
    let mut tmp = [(0usize, 0u8); 64];
    let k = n.min(64);
    unsafe {
        for i in 0..k {
            tmp[i] = (FREED[i], FREED_INFO[i]);
        }
        FREED_N = 0;
    }
    unlock();
    tmp[..k].to_vec()
}

/// Quarantine (default off): a freed WATCHED block is recorded as usual but neither poisoned nor
/// handed back to the system allocator. A use after free of it by the code under test then reads
/// stale, mapped memory, its address is never handed out again, and a second free of it is
/// counted as a bad free.
pub fn quarantine(on: bool) {
    QUARANTINE.store(on, Ordering::SeqCst);
}

/// Install (or remove) the free-time probe: called with the address whenever a watched block is
/// freed, after the allocator's lock has been released; the byte it returns is stored with the
/// entry `take_freed_info` reports. It must not panic and should not allocate.
pub fn set_probe(f: Option<fn(usize) -> u8>) {
    PROBE.store(f.map_or(0, |f| f as usize), Ordering::SeqCst);
}

#[allow(static_mut_refs)]
pub fn unwatch_all() {
    lock();
    unsafe {
        WATCHED_N = 0;
        FREED_N = 0;
    }
    unlock();
}

#[allow(static_mut_refs)]
pub fn take_bad_frees() -> usize {
    lock();
    let n = unsafe { std::mem::replace(&mut BAD_FREES, 0) };
    unlock();
    n
}

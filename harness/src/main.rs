//! Correspondence harness: drives the real a10 code (built from /repo's working tree with
//! `--cfg a10_verif`) and writes, per property, the cases it ran, what the implementation
//! did, and the verdict of an executable property oracle.
#![allow(dead_code, clippy::all)]

mod alloc;
mod out;
mod props;
mod rng;
mod sched;
mod simk;
mod util;

use std::process::exit;

#[global_allocator]
static GLOBAL: alloc::Tracking = alloc::Tracking;

pub struct Args {
    pub prop: String,
    pub seed: u64,
    pub thorough: bool,
    pub out: String,
    pub replay: Option<String>,
    pub n: Option<usize>,
}

fn main() {
    let mut a = std::env::args().skip(1);
    let mut args = Args {
        prop: String::new(),
        seed: 0,
        thorough: false,
        out: String::from("."),
        replay: None,
        n: None,
    };
    while let Some(x) = a.next() {
        match x.as_str() {
            "--seed" => args.seed = a.next().unwrap().parse().unwrap(),
            "--tier" => args.thorough = a.next().unwrap() == "thorough",
            "--out" => args.out = a.next().unwrap(),
            "--replay" => args.replay = Some(a.next().unwrap()),
            "--n" => args.n = Some(a.next().unwrap().parse().unwrap()),
            p if args.prop.is_empty() => args.prop = p.to_string(),
            other => {
                eprintln!("unknown argument {other}");
                exit(2)
            }
        }
    }
    std::fs::create_dir_all(&args.out).unwrap();
    let code = props::run(&args);
    exit(code);
}

//! C10 — all-or-error composite I/O under arbitrary short transfers.
//!
//! The real `write_all`, `write_all_vectored`, `send_all`, `send_all_vectored`, `read_n`,
//! `read_n_vectored`, `recv_n`, `recv_n_vectored` futures run on the simulated kernel. Every
//! request the simulator receives is decoded (opcode, fd, `off`, flags word, BUFFER_SELECT, the
//! address/length pair, the iovec array or the msghdr's iovecs) and completed with a scripted
//! result: a short transfer (1, len-1, len, random), zero, an error, or EINTR/ECANCELED which a10
//! restarts. Zero-copy sends complete with two CQEs. For reads the simulator stores a
//! recognisable byte stream through the pointers it was given.
//!
//! The oracle is a direct statement of the property on what was recorded (it does not run the
//! model): the ranges of every request, read as positions in the concatenated input, are the
//! contiguous interval [accepted so far, total); offsets advance by what was accepted; opcode and
//! flags never change; Ok iff everything was accepted; WriteZero iff a result was 0. For reads:
//! every request targets exactly the spare capacity behind what has arrived; the returned
//! buffers hold the old contents followed by the stream in arrival order; Ok iff at least n
//! bytes arrived; UnexpectedEof only after a 0 result to a request that asked for bytes.

use std::fmt::Write as _;
use std::future::Future;
use std::io;
use std::pin::Pin;
use std::sync::{Arc, Mutex, OnceLock};
use std::task::Poll;
use std::time::Duration;

use a10::io::{ReadBuf, ReadBufPool};
use a10::net::{RecvFlag, SendFlag};
use a10::Extract;

use crate::out::{self, Case, Spec};
use crate::rng::Rng;
use crate::simk::{self, abi};
use crate::util::{poll_once, WakeLog};
use crate::Args;

const FAKE_FD: i32 = 1000;
const NO_OFFSET: u64 = u64::MAX;

#[derive(Clone, Copy, PartialEq, Eq, Debug)]
enum Kind {
    WriteAll,
    WriteAllV,
    SendAll,
    SendAllV,
    ReadN,
    ReadNV,
    RecvN,
    RecvNV,
}

impl Kind {
    fn coq(self) -> &'static str {
        match self {
            Kind::WriteAll => "KWriteAll",
            Kind::WriteAllV => "KWriteAllVectored",
            Kind::SendAll => "KSendAll",
            Kind::SendAllV => "KSendAllVectored",
            Kind::ReadN => "KReadN",
            Kind::ReadNV => "KReadNVectored",
            Kind::RecvN => "KRecvN",
            Kind::RecvNV => "KRecvNVectored",
        }
    }
    fn name(self) -> &'static str {
        match self {
            Kind::WriteAll => "write_all",
            Kind::WriteAllV => "write_all_vectored",
            Kind::SendAll => "send_all",
            Kind::SendAllV => "send_all_vectored",
            Kind::ReadN => "read_n",
            Kind::ReadNV => "read_n_vectored",
            Kind::RecvN => "recv_n",
            Kind::RecvNV => "recv_n_vectored",
        }
    }
    fn is_read(self) -> bool {
        matches!(self, Kind::ReadN | Kind::ReadNV | Kind::RecvN | Kind::RecvNV)
    }
    fn is_vectored(self) -> bool {
        matches!(self, Kind::WriteAllV | Kind::SendAllV | Kind::ReadNV | Kind::RecvNV)
    }
    fn is_socket(self) -> bool {
        matches!(self, Kind::SendAll | Kind::SendAllV | Kind::RecvN | Kind::RecvNV)
    }
    /// The opcode the kernel must see (pinned numbers of simk::abi, not a10's bindings).
    fn opcode(self, zc: bool) -> u8 {
        match self {
            Kind::WriteAll => abi::OP_WRITE,
            Kind::WriteAllV => abi::OP_WRITEV,
            Kind::SendAll => if zc { abi::OP_SEND_ZC } else { abi::OP_SEND },
            Kind::SendAllV => if zc { abi::OP_SENDMSG_ZC } else { abi::OP_SENDMSG },
            Kind::ReadN => abi::OP_READ,
            Kind::ReadNV => abi::OP_READV,
            Kind::RecvN => abi::OP_RECV,
            Kind::RecvNV => abi::OP_RECVMSG,
        }
    }
}

/// One buffer as the harness knows it before handing it to a10.
#[derive(Clone, Copy, Debug, PartialEq, Eq)]
struct Desc {
    base: usize,
    len: usize,
    cap: usize,
}

trait Describe {
    fn describe(&self, out: &mut Vec<Desc>);
    /// Copy of the initialised bytes (reads only; small buffers).
    fn contents(&self, out: &mut Vec<Vec<u8>>);
}
impl Describe for Vec<u8> {
    fn describe(&self, out: &mut Vec<Desc>) {
        out.push(Desc { base: self.as_ptr() as usize, len: self.len(), cap: self.capacity() });
    }
    fn contents(&self, out: &mut Vec<Vec<u8>>) {
        out.push(self.clone());
    }
}
impl Describe for &'static [u8] {
    fn describe(&self, out: &mut Vec<Desc>) {
        out.push(Desc { base: self.as_ptr() as usize, len: self.len(), cap: self.len() });
    }
    fn contents(&self, out: &mut Vec<Vec<u8>>) {
        out.push(Vec::new());
    }
}
impl Describe for ReadBuf {
    fn describe(&self, out: &mut Vec<Desc>) {
        let s: &[u8] = self;
        out.push(Desc { base: s.as_ptr() as usize, len: s.len(), cap: self.capacity() });
    }
    fn contents(&self, out: &mut Vec<Vec<u8>>) {
        let s: &[u8] = self;
        out.push(s.to_vec());
    }
}
impl<T: Describe, const N: usize> Describe for [T; N] {
    fn describe(&self, out: &mut Vec<Desc>) {
        for b in self {
            b.describe(out);
        }
    }
    fn contents(&self, out: &mut Vec<Vec<u8>>) {
        for b in self {
            b.contents(out);
        }
    }
}
macro_rules! describe_tuple {
    ($($g:ident . $i:tt),+) => {
        impl<$($g: Describe),+> Describe for ($($g),+) {
            fn describe(&self, out: &mut Vec<Desc>) { $( self.$i.describe(out); )+ }
            fn contents(&self, out: &mut Vec<Vec<u8>>) { $( self.$i.contents(out); )+ }
        }
    };
}
describe_tuple!(A.0, B.1);
describe_tuple!(A.0, B.1, C.2);
describe_tuple!(A.0, B.1, C.2, D.3);
describe_tuple!(A.0, B.1, C.2, D.3, E.4);
describe_tuple!(A.0, B.1, C.2, D.3, E.4, F.5);
describe_tuple!(A.0, B.1, C.2, D.3, E.4, F.5, G.6);
describe_tuple!(A.0, B.1, C.2, D.3, E.4, F.5, G.6, H.7);

/// What a finished future handed back, reduced to what the checks need.
struct Returned {
    descs: Vec<Desc>,
    data: Vec<Vec<u8>>,
}

type Fut = Pin<Box<dyn Future<Output = io::Result<Returned>>>>;

fn erase_unit<F>(f: F) -> Fut
where
    F: Future<Output = io::Result<()>> + 'static,
{
    Box::pin(async move { f.await.map(|()| Returned { descs: Vec::new(), data: Vec::new() }) })
}

fn erase<F, T>(f: F, want_data: bool) -> Fut
where
    F: Future<Output = io::Result<T>> + 'static,
    T: Describe + 'static,
{
    Box::pin(async move {
        f.await.map(|t| {
            let mut descs = Vec::new();
            t.describe(&mut descs);
            let mut data = Vec::new();
            if want_data {
                t.contents(&mut data);
            }
            Returned { descs, data }
        })
    })
}

// ---------------------------------------------------------------------------------------------
// Input data.

/// 64 KiB of fixed pseudo-random bytes behind the `&'static [u8]` buffers.
fn static_pool() -> &'static [u8] {
    static POOL: OnceLock<&'static [u8]> = OnceLock::new();
    POOL.get_or_init(|| {
        let mut r = Rng::new(0xC10);
        let v: Vec<u8> = (0..65536).map(|_| r.next() as u8).collect();
        Box::leak(v.into_boxed_slice())
    })
}

/// 4 GiB of readable zero pages that cost nothing until touched (never touched): lets
/// `&'static [u8]` buffers reach the top of the u32 length range.
fn huge_region() -> Option<&'static [u8]> {
    static HUGE: OnceLock<Option<&'static [u8]>> = OnceLock::new();
    *HUGE.get_or_init(|| {
        let len: usize = 1 << 32;
        let p = unsafe {
            libc::mmap(
                std::ptr::null_mut(),
                len,
                libc::PROT_READ,
                libc::MAP_PRIVATE | libc::MAP_ANONYMOUS | libc::MAP_NORESERVE,
                -1,
                0,
            )
        };
        if p == libc::MAP_FAILED {
            None
        } else {
            Some(unsafe { std::slice::from_raw_parts(p as *const u8, len) })
        }
    })
}

/// A write buffer before it is turned into its Rust type.
#[derive(Clone, Debug)]
enum WBuf {
    Vec(Vec<u8>),
    Static(&'static [u8]),
}

impl WBuf {
    fn len(&self) -> usize {
        match self {
            WBuf::Vec(v) => v.len(),
            WBuf::Static(s) => s.len(),
        }
    }
    fn into_vec(self) -> Vec<u8> {
        match self {
            WBuf::Vec(v) => v,
            WBuf::Static(s) => s.to_vec(),
        }
    }
    fn into_static(self) -> &'static [u8] {
        match self {
            WBuf::Static(s) => s,
            WBuf::Vec(v) => Box::leak(v.into_boxed_slice()),
        }
    }
}

#[derive(Clone, Copy, PartialEq, Eq, Debug)]
enum Container {
    /// `[Vec<u8>; N]` / `Vec<u8>`
    ArrayVec,
    /// `[&'static [u8]; N]` / `&'static [u8]`
    ArrayStatic,
    /// `(Vec<u8>, &'static [u8], Vec<u8>, ...)`
    Tuple,
}

fn arr<T, const N: usize>(v: Vec<T>) -> [T; N] {
    match v.try_into() {
        Ok(a) => a,
        Err(_) => panic!("arity mismatch"),
    }
}

fn tovecs(bufs: Vec<WBuf>) -> Vec<Vec<u8>> {
    bufs.into_iter().map(WBuf::into_vec).collect()
}
fn tostatics(bufs: Vec<WBuf>) -> Vec<&'static [u8]> {
    bufs.into_iter().map(WBuf::into_static).collect()
}

/// Caller's choices for one operation.
#[derive(Clone, Debug)]
struct Params {
    kind: Kind,
    container: Container,
    off: u64,
    flag_bits: u32, // index mask into the flag constant tables
    zc: bool,
    zc_first: bool,
    extract: bool,
    n: usize,
    pool: bool,
}

const SEND_FLAGS: [(SendFlag, u32); 6] = [
    (SendFlag::CONFIRM, libc::MSG_CONFIRM as u32),
    (SendFlag::DONT_ROUTE, libc::MSG_DONTROUTE as u32),
    (SendFlag::EOR, libc::MSG_EOR as u32),
    (SendFlag::MORE, libc::MSG_MORE as u32),
    (SendFlag::OOB, libc::MSG_OOB as u32),
    (SendFlag::FAST_OPEN, libc::MSG_FASTOPEN as u32),
];
const RECV_FLAGS: [(RecvFlag, u32); 5] = [
    (RecvFlag::CMSG_CLOEXEC, libc::MSG_CMSG_CLOEXEC as u32),
    (RecvFlag::ERR_QUEUE, libc::MSG_ERRQUEUE as u32),
    (RecvFlag::OOB, libc::MSG_OOB as u32),
    (RecvFlag::PEEK, libc::MSG_PEEK as u32),
    (RecvFlag::WAIT_ALL, libc::MSG_WAITALL as u32),
];

fn send_flag(bits: u32) -> Option<(SendFlag, u32)> {
    let mut acc: Option<(SendFlag, u32)> = None;
    for (i, (f, w)) in SEND_FLAGS.iter().enumerate() {
        if bits & (1 << i) != 0 {
            acc = Some(match acc {
                None => (*f, *w),
                Some((a, aw)) => (a | *f, aw | *w),
            });
        }
    }
    acc
}
fn recv_flag(bits: u32) -> Option<(RecvFlag, u32)> {
    let mut acc: Option<(RecvFlag, u32)> = None;
    for (i, (f, w)) in RECV_FLAGS.iter().enumerate() {
        if bits & (1 << i) != 0 {
            acc = Some(match acc {
                None => (*f, *w),
                Some((a, aw)) => (a | *f, aw | *w),
            });
        }
    }
    acc
}
/// The flags word the kernel must see, from libc's constants.
fn expected_flags(p: &Params) -> u32 {
    match p.kind {
        Kind::SendAll | Kind::SendAllV => send_flag(p.flag_bits).map(|x| x.1).unwrap_or(0),
        Kind::RecvN | Kind::RecvNV => recv_flag(p.flag_bits).map(|x| x.1).unwrap_or(0),
        _ => 0,
    }
}

// ---------------------------------------------------------------------------------------------
// Building the futures (static dispatch over arity and container).

macro_rules! finish_write {
    ($p:expr, $fut:expr) => {{
        let f = $fut;
        let f = if $p.off != NO_OFFSET { f.at($p.off) } else { f };
        if $p.extract { erase(f.extract(), false) } else { erase_unit(f) }
    }};
}
macro_rules! finish_send {
    ($p:expr, $fut:expr) => {{
        let mut f = $fut;
        if $p.zc && $p.zc_first {
            f = f.zc();
        }
        if let Some((fl, _)) = send_flag($p.flag_bits) {
            f = f.flags(fl);
        }
        if $p.zc && !$p.zc_first {
            f = f.zc();
        }
        if $p.extract { erase(f.extract(), false) } else { erase_unit(f) }
    }};
}
macro_rules! write_v {
    ($fd:expr, $p:expr, $bufs:expr) => {{
        let b = $bufs;
        match $p.kind {
            Kind::WriteAllV => finish_write!($p, $fd.write_all_vectored(b)),
            _ => finish_send!($p, $fd.send_all_vectored(b)),
        }
    }};
}
macro_rules! tuple_of {
    (@el $it:ident, V) => { $it.next().unwrap().into_vec() };
    (@el $it:ident, S) => { $it.next().unwrap().into_static() };
    ($it:expr; $($k:ident),+) => {{
        let mut it = $it;
        ($( tuple_of!(@el it, $k) ),+)
    }};
}

fn build_write(fd: &'static a10::AsyncFd, p: &Params, bufs: Vec<WBuf>, descs: &mut Vec<Desc>) -> Fut {
    let n = bufs.len();
    macro_rules! go {
        ($b:expr) => {{
            let b = $b;
            b.describe(descs);
            write_v!(fd, p, b)
        }};
    }
    if !p.kind.is_vectored() {
        let b = bufs.into_iter().next().unwrap();
        return match (p.container, p.kind) {
            (Container::ArrayStatic, Kind::WriteAll) => {
                let b = b.into_static();
                b.describe(descs);
                finish_write!(p, fd.write_all(b))
            }
            (_, Kind::WriteAll) => {
                let b = b.into_vec();
                b.describe(descs);
                finish_write!(p, fd.write_all(b))
            }
            (Container::ArrayStatic, _) => {
                let b = b.into_static();
                b.describe(descs);
                finish_send!(p, fd.send_all(b))
            }
            (_, _) => {
                let b = b.into_vec();
                b.describe(descs);
                finish_send!(p, fd.send_all(b))
            }
        };
    }
    match p.container {
        Container::ArrayVec => {
            let v = tovecs(bufs);
            match n {
                1 => go!(arr::<_, 1>(v)),
                2 => go!(arr::<_, 2>(v)),
                3 => go!(arr::<_, 3>(v)),
                4 => go!(arr::<_, 4>(v)),
                5 => go!(arr::<_, 5>(v)),
                6 => go!(arr::<_, 6>(v)),
                7 => go!(arr::<_, 7>(v)),
                _ => go!(arr::<_, 8>(v)),
            }
        }
        Container::ArrayStatic => {
            let v = tostatics(bufs);
            match n {
                1 => go!(arr::<_, 1>(v)),
                2 => go!(arr::<_, 2>(v)),
                3 => go!(arr::<_, 3>(v)),
                4 => go!(arr::<_, 4>(v)),
                5 => go!(arr::<_, 5>(v)),
                6 => go!(arr::<_, 6>(v)),
                7 => go!(arr::<_, 7>(v)),
                _ => go!(arr::<_, 8>(v)),
            }
        }
        Container::Tuple => {
            let it = bufs.into_iter();
            match n {
                2 => go!(tuple_of!(it; V, S)),
                3 => go!(tuple_of!(it; S, V, S)),
                4 => go!(tuple_of!(it; V, S, V, S)),
                5 => go!(tuple_of!(it; S, V, S, V, S)),
                6 => go!(tuple_of!(it; V, S, V, S, V, S)),
                7 => go!(tuple_of!(it; S, V, S, V, S, V, S)),
                _ => go!(tuple_of!(it; V, S, V, S, V, S, V, S)),
            }
        }
    }
}

macro_rules! finish_read {
    ($p:expr, $fut:expr) => {{
        let f = $fut;
        let f = if $p.off != NO_OFFSET { f.from($p.off) } else { f };
        erase(f, true)
    }};
}
macro_rules! finish_recv {
    ($p:expr, $fut:expr) => {{
        let f = $fut;
        let f = if let Some((fl, _)) = recv_flag($p.flag_bits) { f.flags(fl) } else { f };
        erase(f, true)
    }};
}
macro_rules! read_v {
    ($fd:expr, $p:expr, $bufs:expr) => {{
        let b = $bufs;
        match $p.kind {
            Kind::ReadNV => finish_read!($p, $fd.read_n_vectored(b, $p.n)),
            _ => finish_recv!($p, $fd.recv_n_vectored(b, $p.n)),
        }
    }};
}
macro_rules! vtuple {
    ($it:expr; $($k:tt),+) => {{
        let mut it = $it;
        ($( { let _ = $k; it.next().unwrap() } ),+)
    }};
}

fn build_read(fd: &'static a10::AsyncFd, p: &Params, bufs: Vec<Vec<u8>>, pool: Option<&ReadBufPool>, descs: &mut Vec<Desc>) -> Fut {
    let n = bufs.len();
    macro_rules! go {
        ($b:expr) => {{
            let b = $b;
            b.describe(descs);
            read_v!(fd, p, b)
        }};
    }
    if !p.kind.is_vectored() {
        if let Some(pool) = pool {
            let b = pool.get();
            return match p.kind {
                Kind::ReadN => finish_read!(p, fd.read_n(b, p.n)),
                _ => finish_recv!(p, fd.recv_n(b, p.n)),
            };
        }
        let b = bufs.into_iter().next().unwrap();
        b.describe(descs);
        return match p.kind {
            Kind::ReadN => finish_read!(p, fd.read_n(b, p.n)),
            _ => finish_recv!(p, fd.recv_n(b, p.n)),
        };
    }
    match p.container {
        Container::Tuple if n >= 2 => {
            let it = bufs.into_iter();
            match n {
                2 => go!(vtuple!(it; 0, 1)),
                3 => go!(vtuple!(it; 0, 1, 2)),
                4 => go!(vtuple!(it; 0, 1, 2, 3)),
                5 => go!(vtuple!(it; 0, 1, 2, 3, 4)),
                6 => go!(vtuple!(it; 0, 1, 2, 3, 4, 5)),
                7 => go!(vtuple!(it; 0, 1, 2, 3, 4, 5, 6)),
                _ => go!(vtuple!(it; 0, 1, 2, 3, 4, 5, 6, 7)),
            }
        }
        _ => match n {
            1 => go!(arr::<_, 1>(bufs)),
            2 => go!(arr::<_, 2>(bufs)),
            3 => go!(arr::<_, 3>(bufs)),
            4 => go!(arr::<_, 4>(bufs)),
            5 => go!(arr::<_, 5>(bufs)),
            6 => go!(arr::<_, 6>(bufs)),
            7 => go!(arr::<_, 7>(bufs)),
            _ => go!(arr::<_, 8>(bufs)),
        },
    }
}

// ---------------------------------------------------------------------------------------------
// The kernel's side of one run.

#[derive(Clone, Debug)]
struct ReqRec {
    sqe: abi::Sqe,
    /// (pointer, length) pairs the kernel was given (or, with BUFFER_SELECT, offers).
    iovs: Vec<(usize, usize)>,
    sel: bool,
    /// Anything malformed in the submission besides what the observation shows.
    malformed: Option<String>,
    /// The bytes the request offers (writes of moderate size), copied while the request is in
    /// flight.
    content: Option<Vec<u8>>,
}

impl ReqRec {
    fn requested(&self) -> u64 {
        self.iovs.iter().map(|v| v.1 as u64).sum()
    }
}

#[repr(C)]
#[derive(Clone, Copy)]
struct RawIovec {
    base: usize,
    len: usize,
}
#[repr(C)]
#[derive(Clone, Copy)]
struct RawMsghdr {
    name: usize,
    namelen: u32,
    iov: usize,
    iovlen: usize,
    control: usize,
    controllen: usize,
    flags: i32,
}
const _: () = assert!(std::mem::size_of::<RawMsghdr>() == std::mem::size_of::<libc::msghdr>());
const _: () = assert!(std::mem::size_of::<RawIovec>() == std::mem::size_of::<libc::iovec>());

fn decode(sqe: &abi::Sqe, bgid_offer: Option<(u64, u32)>) -> ReqRec {
    let mut malformed = None;
    let sel = sqe.flags & abi::SQE_BUFFER_SELECT != 0;
    let mut iovs = Vec::new();
    match sqe.opcode {
        abi::OP_READ | abi::OP_WRITE | abi::OP_SEND | abi::OP_SEND_ZC | abi::OP_RECV => {
            if sel {
                match bgid_offer {
                    Some((addr, len)) => iovs.push((addr as usize, len as usize)),
                    None => malformed = Some("BUFFER_SELECT with no buffer in the group".into()),
                }
                if sqe.addr != 0 || sqe.len != 0 {
                    malformed = Some(format!("BUFFER_SELECT request with addr {:#x} len {}", sqe.addr, sqe.len));
                }
            } else {
                iovs.push((sqe.addr as usize, sqe.len as usize));
            }
        }
        abi::OP_READV | abi::OP_WRITEV => {
            let n = sqe.len as usize;
            if n > 8 || sqe.addr == 0 {
                malformed = Some(format!("iovec array {:#x} of {} entries", sqe.addr, n));
            } else {
                let a = unsafe { std::slice::from_raw_parts(sqe.addr as usize as *const RawIovec, n) };
                iovs.extend(a.iter().map(|v| (v.base, v.len)));
            }
        }
        abi::OP_SENDMSG | abi::OP_SENDMSG_ZC | abi::OP_RECVMSG => {
            if sqe.addr == 0 || sqe.len != 1 {
                malformed = Some(format!("msghdr {:#x}, len {}", sqe.addr, sqe.len));
            } else {
                let m = unsafe { (sqe.addr as usize as *const RawMsghdr).read() };
                if m.iovlen > 8 || (m.iov == 0 && m.iovlen > 0) {
                    malformed = Some(format!("msg_iov {:#x} of {} entries", m.iov, m.iovlen));
                } else {
                    let a = unsafe { std::slice::from_raw_parts(m.iov as *const RawIovec, m.iovlen) };
                    iovs.extend(a.iter().map(|v| (v.base, v.len)));
                }
                if m.name != 0 || m.namelen != 0 || m.control != 0 || m.controllen != 0 {
                    malformed = Some(format!(
                        "msghdr carries name {:#x}/{} control {:#x}/{}",
                        m.name, m.namelen, m.control, m.controllen
                    ));
                }
            }
        }
        other => malformed = Some(format!("unexpected opcode {other}")),
    }
    ReqRec { sqe: *sqe, iovs, sel, malformed, content: None }
}

/// The byte the kernel stores at stream position `k` of a read.
fn stream_byte(salt: u8, k: u64) -> u8 {
    (k.wrapping_mul(131).wrapping_add(salt as u64) % 251) as u8 ^ 0x5A
}

const ERRS: [i32; 5] = [-5 /*EIO*/, -32 /*EPIPE*/, -28 /*ENOSPC*/, -104 /*ECONNRESET*/, -11 /*EAGAIN*/];

/// Next scripted result for a request asking for `requested` bytes; `None` = never completes.
fn choose(r: &mut Rng, step: usize, requested: u64, style: u64) -> Option<i32> {
    if step >= 40 {
        return None;
    }
    let cap = requested.min(i32::MAX as u64);
    if cap == 0 {
        return Some(match r.below(12) {
            0 => *r.pick(&ERRS),
            1 => -4,
            _ => 0,
        });
    }
    let pick = r.below(64);
    Some(match pick {
        0..=2 => 0,
        3..=4 => *r.pick(&ERRS),
        5..=7 => *r.pick(&[-4, -125]),
        8 => return None,
        9..=16 => 1,
        17..=22 => cap as i32,
        23..=28 => (cap - 1).max(1) as i32,
        _ => match style {
            // small steps: many continuations
            0 => r.range(1, cap.min(7)) as i32,
            1 => r.range(1, cap) as i32,
            // about half of what is left
            _ => ((cap + 1) / 2).max(1) as i32,
        },
    })
}

enum RunResult {
    Pending,
    Done(io::Result<Returned>),
    Panicked(String),
    Stuck(String),
}

struct Run {
    reqs: Vec<ReqRec>,
    script: Vec<i32>,
    result: RunResult,
    /// How zero-copy errors were completed etc. (for the JSON rendering only).
    notes: Vec<String>,
    pool_base: Option<usize>,
    pool_cap: Option<usize>,
}

fn drive(
    ring: &mut a10::Ring,
    mut fut: Fut,
    r: &mut Rng,
    p: &Params,
    salt: u8,
    silent: &Arc<Mutex<Option<String>>>,
) -> Run {
    let wakes = WakeLog::default();
    let waker = wakes.waker(1);
    let style = r.below(3);
    let mut run = Run { reqs: Vec::new(), script: Vec::new(), result: RunResult::Pending, notes: Vec::new(), pool_base: None, pool_cap: None };
    let mut delivered: u64 = 0;
    loop {
        let polled = std::panic::catch_unwind(std::panic::AssertUnwindSafe(|| poll_once(fut.as_mut(), &waker)));
        match polled {
            Err(_) => {
                run.result = RunResult::Panicked(silent.lock().unwrap().take().unwrap_or_default());
                std::mem::forget(fut);
                return run;
            }
            Ok(Poll::Ready(res)) => {
                run.result = RunResult::Done(res);
                break;
            }
            Ok(Poll::Pending) => {}
        }
        // The kernel consumes the submission.
        if let Err(e) = ring.poll(Some(Duration::ZERO)) {
            run.result = RunResult::Stuck(format!("Ring::poll failed: {e}"));
            break;
        }
        let inflight: Vec<(u64, abi::Sqe)> = simk::with(|s| s.inflight.iter().map(|i| (i.req, i.sqe)).collect());
        if inflight.len() != 1 {
            run.result = RunResult::Stuck(format!("{} requests in flight after polling the future (expected 1)", inflight.len()));
            break;
        }
        let (req, sqe) = inflight[0];
        let offer = if sqe.flags & abi::SQE_BUFFER_SELECT != 0 {
            simk::with(|s| s.pbuf_available(sqe.buf_index).first().map(|b| (b.1, b.2)))
        } else {
            None
        };
        let mut rec = decode(&sqe, offer);
        let requested = rec.requested();
        if !p.kind.is_read() && rec.malformed.is_none() && requested <= 1 << 20 {
            let mut c = Vec::with_capacity(requested as usize);
            for (ptr, len) in &rec.iovs {
                c.extend_from_slice(unsafe { std::slice::from_raw_parts(*ptr as *const u8, *len) });
            }
            rec.content = Some(c);
        }
        let step = run.script.len();
        run.reqs.push(rec.clone());
        if rec.malformed.is_some() {
            break;
        }
        let Some(res) = choose(r, step, requested, style) else {
            break; // Pending forever
        };
        run.script.push(res);
        let mut cqe_flags = 0u32;
        if res > 0 && p.kind.is_read() {
            // Store the next `res` bytes of the stream front to back.
            let mut left = res as usize;
            let mut k = delivered;
            if rec.sel {
                let (bid, addr, len) = simk::with(|s| s.pbuf_pick(sqe.buf_index)).expect("offered buffer");
                run.pool_base = Some(addr as usize);
                run.pool_cap = Some(len as usize);
                cqe_flags |= abi::CQE_F_BUFFER | ((bid as u32) << abi::CQE_BUFFER_SHIFT);
            }
            for (ptr, len) in &rec.iovs {
                let take = left.min(*len);
                for i in 0..take {
                    unsafe { (*ptr as *mut u8).add(i).write(stream_byte(salt, k)) };
                    k += 1;
                }
                left -= take;
                if left == 0 {
                    break;
                }
            }
            delivered += res as u64;
        }
        let zc_op = matches!(sqe.opcode, abi::OP_SEND_ZC | abi::OP_SENDMSG_ZC);
        simk::with(|s| {
            if zc_op && (res >= 0 || r.chance(1, 2)) {
                // Zero copy: the result first, the buffer-release notification second.
                s.complete(req, res, cqe_flags | abi::CQE_F_MORE);
                s.complete(req, 0, abi::CQE_F_NOTIF);
            } else {
                s.complete(req, res, cqe_flags);
            }
        });
        if let Err(e) = ring.poll(Some(Duration::ZERO)) {
            run.result = RunResult::Stuck(format!("Ring::poll failed: {e}"));
            break;
        }
        if wakes.take().is_empty() {
            run.notes.push(format!("no wake-up after completion {step}"));
        }
    }
    // An operation still in flight: dropping the future cancels it; let the kernel do so.
    drop(fut);
    let _ = ring.poll(Some(Duration::ZERO));
    let _ = ring.poll(Some(Duration::ZERO));
    run
}

// ---------------------------------------------------------------------------------------------
// Oracle.

fn errno_of(e: &io::Error) -> Option<i32> {
    e.raw_os_error()
}

struct Verdict {
    what: Option<String>,
    known: Option<String>,
}

fn restartable(res: i32) -> bool {
    res == -4 || res == -125
}

/// Common per-request checks. Returns the first complaint.
fn check_req_common(j: usize, rec: &ReqRec, p: &Params, want_off: u64, want_sel: bool) -> Option<String> {
    let name = p.kind.name();
    if let Some(m) = &rec.malformed {
        return Some(format!("{name}: request {j}: {m}"));
    }
    let sqe = &rec.sqe;
    if sqe.opcode != p.kind.opcode(p.zc) {
        return Some(format!(
            "{name}: request {j} was issued with opcode {} instead of {} (zero copy {}){}",
            sqe.opcode,
            p.kind.opcode(p.zc),
            if p.zc { "requested" } else { "not requested" },
            if j > 0 { ": the continuation lost the caller's send mode" } else { "" }
        ));
    }
    if sqe.fd != FAKE_FD {
        return Some(format!("{name}: request {j} names descriptor {} instead of {FAKE_FD}", sqe.fd));
    }
    let want_flags = expected_flags(p);
    if sqe.op_flags != want_flags {
        return Some(format!(
            "{name}: request {j} carries flags {:#x}, the caller chose {:#x}{}",
            sqe.op_flags,
            want_flags,
            if j > 0 { ": the continuation dropped the caller's flags" } else { "" }
        ));
    }
    if sqe.off != want_off {
        return Some(format!(
            "{name}: request {j} is issued at offset {} instead of {want_off} (caller's offset {} plus the bytes transferred so far)",
            sqe.off, p.off
        ));
    }
    if rec.sel != want_sel {
        return Some(format!("{name}: request {j} has BUFFER_SELECT {} (expected {want_sel})", rec.sel));
    }
    let other = sqe.flags & !abi::SQE_BUFFER_SELECT;
    if other != 0 || sqe.ioprio != 0 {
        return Some(format!("{name}: request {j} has sqe flags {:#x} ioprio {}", sqe.flags, sqe.ioprio));
    }
    None
}

fn want_off(p: &Params, pos: u64) -> u64 {
    if p.kind.is_socket() {
        0
    } else if p.off == NO_OFFSET {
        NO_OFFSET
    } else {
        p.off.wrapping_add(pos)
    }
}

fn oracle_write(p: &Params, descs: &[Desc], input: &[Vec<u8>], small: bool, run: &Run) -> Verdict {
    let name = p.kind.name();
    let fail = |s: String| Verdict { what: Some(s), known: None };
    let total: u64 = descs.iter().map(|d| d.len as u64).sum();
    let mut pre = Vec::with_capacity(descs.len());
    let mut acc = 0u64;
    for d in descs {
        pre.push(acc);
        acc += d.len as u64;
    }
    let all: Vec<u8> = if small { input.concat() } else { Vec::new() };
    let mut accepted: Vec<u8> = Vec::new();
    let mut pos = 0u64;
    let mut ended: Option<&'static str> = None; // why no further request may follow
    for (j, rec) in run.reqs.iter().enumerate() {
        if let Some(why) = ended {
            return fail(format!("{name}: request {j} was issued after {why}"));
        }
        if let Some(c) = check_req_common(j, rec, p, want_off(p, pos), false) {
            return fail(c);
        }
        if rec.iovs.len() != descs.len() {
            return fail(format!("{name}: request {j} has {} buffers, the caller passed {}", rec.iovs.len(), descs.len()));
        }
        // The non-empty ranges, as positions in the concatenated input, must be the contiguous
        // interval [pos, total).
        let mut at = pos;
        for (k, (ptr, len)) in rec.iovs.iter().enumerate() {
            let d = &descs[k];
            let start = ptr.wrapping_sub(d.base);
            if start > d.len || start + len > d.len {
                return fail(format!(
                    "{name}: request {j}, buffer {k}: range [{start}, {start}+{len}) lies outside the caller's buffer of {} bytes",
                    d.len
                ));
            }
            if *len == 0 {
                continue;
            }
            let g = pre[k] + start as u64;
            if g != at {
                return fail(format!(
                    "{name}: request {j}, buffer {k} starts at input byte {g}; {at} bytes have been handed over or offered before it ({} accepted so far): bytes would be {}",
                    pos,
                    if g < at { "sent twice" } else { "skipped" }
                ));
            }
            at += *len as u64;
        }
        if at != total {
            return fail(format!("{name}: request {j} offers input bytes [{pos}, {at}) but the input has {total}"));
        }
        match run.script.get(j) {
            None => ended = Some("a request that never completed"),
            Some(&res) if res > 0 => {
                if small {
                    match &rec.content {
                        Some(c) if c.len() >= res as usize => accepted.extend_from_slice(&c[..res as usize]),
                        _ => return fail(format!("{name}: request {j}: result {res} exceeds the {} bytes offered", rec.requested())),
                    }
                }
                pos += res as u64;
                if pos == total {
                    ended = Some("everything had been transferred");
                }
            }
            Some(0) => ended = Some("a zero-byte transfer"),
            Some(&res) if restartable(res) => {}
            Some(_) => ended = Some("an error"),
        }
    }
    let last = run.script.last().copied();
    let consumed_all = run.script.len() == run.reqs.len();
    match &run.result {
        RunResult::Panicked(m) => fail(format!("{name} panicked: {m}")),
        RunResult::Stuck(m) => fail(format!("{name}: {m}")),
        RunResult::Pending => {
            if consumed_all {
                fail(format!("{name}: still pending after its last request completed with {last:?}"))
            } else {
                Verdict { what: None, known: None }
            }
        }
        RunResult::Done(res) => {
            if !consumed_all {
                return fail(format!("{name} finished while request {} was still in flight", run.reqs.len() - 1));
            }
            match res {
                Ok(ret) => {
                    if pos != total {
                        return fail(format!("{name} returned Ok(..) after {pos} of {total} bytes were transferred"));
                    }
                    if small && accepted != all {
                        return fail(format!("{name} returned Ok(..) but the bytes the kernel accepted differ from the input"));
                    }
                    if p.extract && ret.descs.iter().map(|d| (d.base, d.len)).ne(descs.iter().map(|d| (d.base, d.len))) {
                        return fail(format!("{name}.extract() did not return the caller's buffers"));
                    }
                    Verdict { what: None, known: None }
                }
                Err(e) => {
                    let kind = e.kind();
                    match last {
                        Some(0) => {
                            if kind != io::ErrorKind::WriteZero || errno_of(e).is_some() {
                                return fail(format!("{name}: the kernel accepted nothing (result 0) but the error is {e:?} instead of WriteZero"));
                            }
                        }
                        Some(res) if res < 0 && !restartable(res) => {
                            if errno_of(e) != Some(-res) {
                                return fail(format!("{name}: the kernel failed with {res} but the caller got {e:?}"));
                            }
                        }
                        other => return fail(format!("{name} failed with {e:?} after the result {other:?} ({pos} of {total} bytes transferred)")),
                    }
                    Verdict { what: None, known: None }
                }
            }
        }
    }
}

fn oracle_read(p: &Params, descs: &[Desc], initial: &[Vec<u8>], salt: u8, run: &Run) -> Verdict {
    let name = p.kind.name();
    let fail = |s: String| Verdict { what: Some(s), known: None };
    let mut lens: Vec<usize> = descs.iter().map(|d| d.len).collect();
    let mut pos = 0u64;
    let mut ended: Option<&'static str> = None;
    let mut zero_to_empty_request = false;
    for (j, rec) in run.reqs.iter().enumerate() {
        if let Some(why) = ended {
            return fail(format!("{name}: request {j} was issued after {why}"));
        }
        if let Some(c) = check_req_common(j, rec, p, want_off(p, pos), p.pool && pos == 0) {
            return fail(c);
        }
        if rec.iovs.len() != descs.len() {
            return fail(format!("{name}: request {j} has {} buffers, the caller passed {}", rec.iovs.len(), descs.len()));
        }
        // The target of every request is exactly the spare capacity behind what has arrived.
        for (k, (ptr, len)) in rec.iovs.iter().enumerate() {
            let d = &descs[k];
            let start = ptr.wrapping_sub(d.base);
            if start != lens[k] || *len != d.cap - lens[k] {
                return fail(format!(
                    "{name}: request {j}, buffer {k}: target [{start}, {start}+{len}) but the buffer holds {} of {} bytes: arriving bytes would not be appended",
                    lens[k], d.cap
                ));
            }
        }
        match run.script.get(j) {
            None => ended = Some("a request that never completed"),
            Some(&res) if res > 0 => {
                let mut left = res as usize;
                for k in 0..lens.len() {
                    let take = left.min(descs[k].cap - lens[k]);
                    lens[k] += take;
                    left -= take;
                }
                pos += res as u64;
                if pos >= p.n as u64 {
                    ended = Some("n bytes had arrived");
                }
            }
            Some(0) => {
                ended = Some("a zero-byte transfer");
                zero_to_empty_request = rec.requested() == 0;
            }
            Some(&res) if restartable(res) => {}
            Some(_) => ended = Some("an error"),
        }
    }
    let last = run.script.last().copied();
    let consumed_all = run.script.len() == run.reqs.len();
    match &run.result {
        RunResult::Panicked(m) => fail(format!("{name} panicked: {m}")),
        RunResult::Stuck(m) => fail(format!("{name}: {m}")),
        RunResult::Pending => {
            if consumed_all {
                fail(format!("{name}: still pending after its last request completed with {last:?}"))
            } else {
                Verdict { what: None, known: None }
            }
        }
        RunResult::Done(res) => {
            if !consumed_all {
                return fail(format!("{name} finished while request {} was still in flight", run.reqs.len() - 1));
            }
            match res {
                Ok(ret) => {
                    if pos < p.n as u64 {
                        return fail(format!("{name} returned Ok(..) after {pos} bytes; at least {} were asked for", p.n));
                    }
                    if ret.descs.len() != descs.len() {
                        return fail(format!("{name} returned {} buffers", ret.descs.len()));
                    }
                    let mut k = 0u64;
                    for (i, d) in ret.descs.iter().enumerate() {
                        if d.base != descs[i].base || d.cap != descs[i].cap {
                            return fail(format!("{name}: returned buffer {i} is not the caller's buffer"));
                        }
                        if d.len != lens[i] {
                            return fail(format!("{name}: returned buffer {i} has length {} instead of {}", d.len, lens[i]));
                        }
                        let data = &ret.data[i];
                        if data[..initial[i].len()] != initial[i][..] {
                            return fail(format!("{name}: the bytes buffer {i} held before the read were changed"));
                        }
                        for (o, b) in data[initial[i].len()..].iter().enumerate() {
                            if *b != stream_byte(salt, k) {
                                return fail(format!(
                                    "{name}: buffer {i} byte {} is not stream byte {k}: bytes were not appended in arrival order",
                                    initial[i].len() + o
                                ));
                            }
                            k += 1;
                        }
                    }
                    if k != pos {
                        return fail(format!("{name}: {pos} bytes arrived, the returned buffers grew by {k}"));
                    }
                    Verdict { what: None, known: None }
                }
                Err(e) => {
                    match last {
                        Some(0) => {
                            if e.kind() != io::ErrorKind::UnexpectedEof || errno_of(e).is_some() {
                                return fail(format!("{name}: zero-byte transfer but the error is {e:?} instead of UnexpectedEof"));
                            }
                            if zero_to_empty_request {
                                // H16: no spare capacity left, the kernel was asked for 0 bytes.
                                return Verdict {
                                    what: Some(format!(
                                        "{name} failed with UnexpectedEof although the stream had not ended: after {pos} of {} bytes the spare capacity was used up, the next request asked for 0 bytes and got 0",
                                        p.n
                                    )),
                                    known: Some("read-n-spare-below-n".into()),
                                };
                            }
                        }
                        Some(res) if res < 0 && !restartable(res) => {
                            if errno_of(e) != Some(-res) {
                                return fail(format!("{name}: the kernel failed with {res} but the caller got {e:?}"));
                            }
                        }
                        other => return fail(format!("{name} failed with {e:?} after the result {other:?} ({pos} bytes arrived, {} asked for)", p.n)),
                    }
                    Verdict { what: None, known: None }
                }
            }
        }
    }
}

// ---------------------------------------------------------------------------------------------
// Observation (what Model/Composite.v's run_ccase prints).

fn observe(p: &Params, descs: &[Desc], run: &Run) -> Vec<i128> {
    let mut obs: Vec<i128> = Vec::new();
    for rec in &run.reqs {
        obs.push(rec.sqe.opcode as i128);
        obs.push(rec.sqe.off as i128);
        obs.push(rec.sqe.op_flags as i128);
        obs.push(rec.sel as i128);
        obs.push(rec.iovs.len() as i128);
        for (k, (ptr, len)) in rec.iovs.iter().enumerate() {
            if k >= descs.len() {
                break;
            }
            obs.push(k as i128);
            obs.push(*ptr as i128 - descs[k].base as i128);
            obs.push(*len as i128);
        }
    }
    obs.push(-1);
    match &run.result {
        RunResult::Pending => obs.push(4),
        RunResult::Panicked(_) => obs.push(5),
        RunResult::Stuck(_) => obs.push(7),
        RunResult::Done(Ok(ret)) => {
            obs.push(0);
            if p.kind.is_read() || p.extract {
                obs.push(ret.descs.len() as i128);
                for (i, d) in ret.descs.iter().enumerate() {
                    // A buffer that is not the caller's shows up as -1.
                    let same = descs.get(i).map(|o| o.base == d.base).unwrap_or(false);
                    obs.push(if same { d.len as i128 } else { -1 });
                }
            }
        }
        RunResult::Done(Err(e)) => match (e.raw_os_error(), e.kind()) {
            (Some(c), _) => {
                obs.push(3);
                obs.push(-(c as i128));
            }
            (None, io::ErrorKind::WriteZero) => obs.push(1),
            (None, io::ErrorKind::UnexpectedEof) => obs.push(2),
            (None, k) => {
                obs.push(6);
                obs.push(k as i128);
            }
        },
    }
    obs
}

// ---------------------------------------------------------------------------------------------
// Case generation.

fn gen_lens(r: &mut Rng, n: usize, max: usize) -> Vec<usize> {
    // Empty buffers anywhere (first, last, runs of them), total >= 1.
    let pattern = r.below(8);
    let mut lens: Vec<usize> = (0..n)
        .map(|i| {
            let empty = match pattern {
                0 => i == n - 1,
                1 => i == 0,
                2 => i == 0 || i == n - 1,
                3 => i % 2 == 1,
                4 => r.chance(1, 2),
                _ => r.chance(1, 5),
            };
            if empty {
                0
            } else {
                match r.below(6) {
                    0 => 1,
                    1 => 2,
                    2 => r.range(1, 16) as usize,
                    _ => r.range(1, max as u64) as usize,
                }
            }
        })
        .collect();
    if lens.iter().all(|l| *l == 0) {
        let k = r.below(n as u64) as usize;
        lens[k] = r.range(1, max as u64) as usize;
    }
    lens
}

const OFFSETS: [u64; 10] = [0, 1, 4095, 4096, (1 << 31) - 1, 1 << 31, u32::MAX as u64, 1 << 32, (1 << 40) + 7, (1 << 62) + 12345];

fn gen_off(r: &mut Rng, kind: Kind) -> u64 {
    if kind.is_socket() || r.chance(2, 5) {
        return NO_OFFSET;
    }
    if r.chance(2, 3) {
        *r.pick(&OFFSETS)
    } else {
        r.next() >> r.range(2, 50)
    }
}

fn coq_bool(b: bool) -> &'static str {
    if b { "true" } else { "false" }
}

fn one_case(r: &mut Rng, silent: &Arc<Mutex<Option<String>>>) -> Case {
    let kind = *r.pick(&[Kind::WriteAll, Kind::WriteAllV, Kind::WriteAllV, Kind::SendAll, Kind::SendAllV, Kind::SendAllV, Kind::ReadN, Kind::ReadNV, Kind::ReadNV, Kind::RecvN, Kind::RecvNV]);
    let nbufs = if kind.is_vectored() { r.range(1, 8) as usize } else { 1 };
    let mut container = *r.pick(&[Container::ArrayVec, Container::ArrayStatic, Container::Tuple]);
    if container == Container::Tuple && (nbufs < 2 || !kind.is_vectored()) {
        container = Container::ArrayVec;
    }
    let pool = !kind.is_vectored() && kind.is_read() && r.chance(1, 3);
    let mut p = Params {
        kind,
        container,
        off: gen_off(r, kind),
        flag_bits: if kind.is_socket() && r.chance(2, 3) { r.below(64) as u32 } else { 0 },
        zc: matches!(kind, Kind::SendAll | Kind::SendAllV) && r.chance(1, 2),
        zc_first: r.chance(1, 2),
        extract: !kind.is_read() && r.chance(1, 2),
        n: 0,
        pool,
    };
    if matches!(kind, Kind::RecvN | Kind::RecvNV) {
        p.flag_bits &= 31;
    }

    simk::configure(simk::SetupConfig { sq_start: r.next() as u32, cq_start: r.next() as u32, ..Default::default() });
    let mut ring = a10::Ring::config().with_submission_queue_size(2).build().expect("ring on the simulated kernel");
    let ring_fd = simk::with(|s| s.fd);
    simk::add_fake_fd(FAKE_FD);
    let fd = Box::new(unsafe { a10::AsyncFd::from_raw_fd(FAKE_FD, ring.sq()) });
    let fd_ref: &'static a10::AsyncFd = unsafe { &*(&*fd as *const a10::AsyncFd) };
    let salt = r.next() as u8;

    let mut descs: Vec<Desc> = Vec::new();
    let mut tags: Vec<String> = Vec::new();
    let run;
    let verdict;
    let mut huge = false;
    let mut pool_obj: Option<ReadBufPool> = None;
    let mut buf_json = String::new();
    if !kind.is_read() {
        // ---- writes -------------------------------------------------------------------------
        huge = container != Container::ArrayVec && huge_region().is_some() && r.chance(1, 10);
        let lens = if huge {
            // Lengths at the top of the u32 range (only the static buffers can be that large).
            (0..nbufs)
                .map(|i| {
                    let is_static = container == Container::ArrayStatic
                        || (container == Container::Tuple && ((nbufs % 2 == 0 && i % 2 == 1) || (nbufs % 2 == 1 && i % 2 == 0)));
                    if is_static && r.chance(2, 3) {
                        *r.pick(&[u32::MAX as usize, u32::MAX as usize - 1, 1 << 31, (1 << 31) + 1, (1usize << 32) - 4096, 3_000_000_000])
                    } else if r.chance(1, 3) {
                        0
                    } else {
                        r.range(1, 64) as usize
                    }
                })
                .collect::<Vec<_>>()
        } else {
            let max = if r.chance(1, 4) { 5000 } else { 48 };
            gen_lens(r, nbufs, max)
        };
        let lens = if lens.iter().all(|l| *l == 0) { let mut l = lens; l[0] = 5; l } else { lens };
        let sp = static_pool();
        let bufs: Vec<WBuf> = lens
            .iter()
            .enumerate()
            .map(|(i, l)| {
                let is_static = match container {
                    Container::ArrayVec => false,
                    Container::ArrayStatic => true,
                    Container::Tuple => (nbufs % 2 == 0 && i % 2 == 1) || (nbufs % 2 == 1 && i % 2 == 0),
                };
                if *l > 65536 {
                    WBuf::Static(&huge_region().unwrap()[..*l])
                } else if is_static {
                    let o = r.below((sp.len() - *l + 1) as u64) as usize;
                    WBuf::Static(&sp[o..o + *l])
                } else {
                    WBuf::Vec((0..*l).map(|_| r.next() as u8).collect())
                }
            })
            .collect();
        let small = !huge;
        let input: Vec<Vec<u8>> = if small { bufs.iter().map(|b| b.clone().into_vec()).collect() } else { Vec::new() };
        let fut = build_write(fd_ref, &p, bufs, &mut descs);
        // Keep positional offsets inside the kernel's range (offsets of 2^63 and above are
        // refused by Linux; the running offset must not reach u64::MAX, see offset_ok).
        run = drive(&mut ring, fut, r, &p, salt, silent);
        verdict = oracle_write(&p, &descs, &input, small, &run);
        for (i, d) in descs.iter().enumerate() {
            let _ = write!(buf_json, "{}{}", if i > 0 { "," } else { "" }, d.len);
        }
    } else {
        // ---- reads --------------------------------------------------------------------------
        let max = if r.chance(1, 4) { 3000 } else { 40 };
        let caps = if pool { vec![*r.pick(&[1usize, 2, 8, 16, 64, 100])] } else { gen_lens(r, nbufs, max) };
        let mut initial: Vec<Vec<u8>> = Vec::new();
        let bufs: Vec<Vec<u8>> = caps
            .iter()
            .map(|c| {
                let l = if pool { 0 } else { match r.below(4) { 0 => 0, 1 => *c, _ => r.below(*c as u64 + 1) as usize } };
                let mut v: Vec<u8> = Vec::with_capacity(*c);
                v.resize(l, 0xA5u8 ^ (l as u8));
                initial.push(v.clone());
                v
            })
            .collect();
        let spare: usize = bufs.iter().map(|v| v.capacity() - v.len()).sum();
        let spare = if pool { caps[0] } else { spare };
        // n: mostly within the spare capacity, sometimes beyond it (H16), sometimes huge.
        p.n = match r.below(10) {
            0 if spare > 0 => spare,
            1 => spare + 1 + r.below(4) as usize,
            2 if r.chance(1, 3) => *r.pick(&[usize::MAX, usize::MAX - 1, 1 << 32, (1usize << 63) + 5]),
            _ if spare > 0 => r.range(1, spare as u64) as usize,
            _ => 1,
        };
        if pool {
            let pool_size = *r.pick(&[1u16, 2, 4]);
            pool_obj = Some(ReadBufPool::new(ring.sq(), pool_size, caps[0] as u32).expect("ReadBufPool on the simulated kernel"));
        }
        let fut = build_read(fd_ref, &p, bufs, pool_obj.as_ref(), &mut descs);
        let r2 = drive(&mut ring, fut, r, &p, salt, silent);
        if pool {
            // The pool buffer is known once the kernel has picked one.
            let base = r2.pool_base.unwrap_or_else(|| r2.reqs.first().and_then(|q| q.iovs.first()).map(|v| v.0).unwrap_or(0));
            descs.push(Desc { base, len: 0, cap: caps[0] });
            initial = vec![Vec::new()];
        }
        run = r2;
        verdict = oracle_read(&p, &descs, &initial, salt, &run);
        for (i, d) in descs.iter().enumerate() {
            let _ = write!(buf_json, "{}[{},{}]", if i > 0 { "," } else { "" }, d.len, d.cap);
        }
    }

    // ---- observation, Coq term, JSON ------------------------------------------------------------
    let obs = observe(&p, &descs, &run);
    let mut coq = format!("{{| k_kind := {}; k_bufs := [", kind.coq());
    for (i, d) in descs.iter().enumerate() {
        let cap = if kind.is_read() { d.cap } else { d.len };
        let _ = write!(coq, "{}{{| base := 0%N; len := {}%N; cap := {}%N |}}", if i > 0 { "; " } else { "" }, d.len, cap);
    }
    let _ = write!(
        coq,
        "]; k_pool := {}; k_n := {}%N; k_off := {}%N; k_flags := {}%N; k_zc := {}; k_extract := {}; k_script := [",
        coq_bool(p.pool),
        p.n,
        if kind.is_socket() { 0 } else { p.off },
        expected_flags(&p),
        coq_bool(p.zc),
        coq_bool(p.extract)
    );
    for (i, s) in run.script.iter().enumerate() {
        if i > 0 {
            coq.push_str("; ");
        }
        if *s < 0 {
            let _ = write!(coq, "({s})");
        } else {
            let _ = write!(coq, "{s}");
        }
    }
    coq.push_str("] |}");
    let outcome = match &run.result {
        RunResult::Pending => "pending".to_string(),
        RunResult::Panicked(m) => format!("panicked: {m}"),
        RunResult::Stuck(m) => format!("stuck: {m}"),
        RunResult::Done(Ok(_)) => "ok".to_string(),
        RunResult::Done(Err(e)) => format!("err: {e}"),
    };
    let json = format!(
        "{{\"op\":{},\"container\":{},\"buffers\":[{}],\"pool\":{},\"n\":{},\"offset\":{},\"flags\":{},\"zc\":{},\"extract\":{},\"script\":{:?},\"requests\":{},\"outcome\":{}}}",
        out::jstr(kind.name()),
        out::jstr(&format!("{:?}", p.container)),
        buf_json,
        p.pool,
        p.n,
        if p.off == NO_OFFSET { "\"none\"".to_string() } else { p.off.to_string() },
        expected_flags(&p),
        p.zc,
        p.extract,
        run.script,
        run.reqs.len(),
        out::jstr(&outcome)
    );
    tags.push(format!("op:{}", kind.name()));
    tags.push(format!("arity:{}", descs.len()));
    tags.push(format!("requests:{}", run.reqs.len().min(6)));
    tags.push(format!(
        "outcome:{}",
        match &run.result {
            RunResult::Pending => "pending",
            RunResult::Panicked(_) => "panic",
            RunResult::Stuck(_) => "stuck",
            RunResult::Done(Ok(_)) => "ok",
            RunResult::Done(Err(e)) if e.kind() == io::ErrorKind::WriteZero => "write-zero",
            RunResult::Done(Err(e)) if e.kind() == io::ErrorKind::UnexpectedEof => "unexpected-eof",
            RunResult::Done(Err(_)) => "os-error",
        }
    ));
    if !kind.is_read() {
        tags.push(format!("empty_last:{}", descs.last().map(|d| d.len == 0).unwrap_or(false)));
        tags.push(format!("huge_lengths:{huge}"));
        tags.push(format!("zc:{}", p.zc));
        tags.push(format!("extract:{}", p.extract));
    } else {
        tags.push(format!("pool:{}", p.pool));
        let spare: usize = descs.iter().map(|d| d.cap - d.len).sum();
        tags.push(format!("n_beyond_spare:{}", p.n > spare));
    }
    if !kind.is_socket() {
        tags.push(format!("positional:{}", p.off != NO_OFFSET));
    } else {
        tags.push(format!("flags_set:{}", expected_flags(&p) != 0));
    }
    tags.push(format!("restarts:{}", run.script.iter().any(|s| restartable(*s))));
    if verdict.known.is_some() {
        tags.push("h16".into());
    }
    let nontrivial = run.script.iter().any(|s| *s >= 0);

    // ---- teardown --------------------------------------------------------------------------------
    drop(run);
    drop(pool_obj);
    drop(fd);
    let _ = std::panic::catch_unwind(std::panic::AssertUnwindSafe(move || drop(ring)));
    simk::retire(ring_fd);

    Case { coq, obs, json, oracle: verdict.what, known: verdict.known, tags, nontrivial }
}

// ---------------------------------------------------------------------------------------------
// Thorough tier: the same futures against real pipes of one page.

fn real_pipe(cap: i32) -> Option<(i32, i32)> {
    let mut fds = [0i32; 2];
    if unsafe { libc::pipe2(fds.as_mut_ptr(), libc::O_CLOEXEC) } != 0 {
        return None;
    }
    unsafe { libc::fcntl(fds[1], libc::F_SETPIPE_SZ, cap) };
    Some((fds[0], fds[1]))
}

/// write_all_vectored into a 4 KiB pipe drained in random chunks; read_n from a pipe fed in
/// random chunks. Returns (runs, failures).
fn corroborate_real(seed: u64, rounds: usize) -> (usize, usize, Vec<String>) {
    let mut failures = Vec::new();
    let mut runs = 0;
    let mut beyond = 0;
    let mut ring = match a10::Ring::config().with_submission_queue_size(8).build() {
        Ok(r) => r,
        Err(e) => return (0, 0, vec![format!("skipped: no io_uring on this kernel ({e})")]),
    };
    let root = Rng::new(seed ^ 0xC10C10);
    let wakes = WakeLog::default();
    let waker = wakes.waker(7);
    for i in 0..rounds {
        let mut r = root.fork(i as u64);
        // ---- write_all_vectored --------------------------------------------------------------
        {
            let Some((rd, wr)) = real_pipe(4096) else { continue };
            unsafe { libc::fcntl(rd, libc::F_SETFL, libc::O_NONBLOCK) };
            let lens = gen_lens(&mut r, 4, 6000);
            let bufs: Vec<Vec<u8>> = lens.iter().map(|l| (0..*l).map(|_| r.next() as u8).collect()).collect();
            let want: Vec<u8> = bufs.concat();
            if want.len() > 4096 {
                beyond += 1; // more than the pipe holds: the kernel must return a short count
            }
            let fd = Box::new(unsafe { a10::AsyncFd::from_raw_fd(wr, ring.sq()) });
            let fd_ref: &'static a10::AsyncFd = unsafe { &*(&*fd as *const a10::AsyncFd) };
            let extract = r.chance(1, 2);
            let arr4: [Vec<u8>; 4] = arr(bufs);
            let mut fut: Fut = if extract { erase(fd_ref.write_all_vectored(arr4).extract(), false) } else { erase_unit(fd_ref.write_all_vectored(arr4)) };
            let mut got: Vec<u8> = Vec::new();
            let mut done: Option<io::Result<Returned>> = None;
            let mut spins = 0;
            while spins < 20000 {
                spins += 1;
                if done.is_none() {
                    if let Poll::Ready(res) = poll_once(fut.as_mut(), &waker) {
                        done = Some(res);
                    }
                }
                let _ = ring.poll(Some(Duration::from_millis(if done.is_none() { 1 } else { 0 })));
                let mut chunk = vec![0u8; r.range(1, 3000) as usize];
                let n = unsafe { libc::read(rd, chunk.as_mut_ptr().cast(), chunk.len()) };
                if n > 0 {
                    got.extend_from_slice(&chunk[..n as usize]);
                }
                if done.is_some() && n <= 0 {
                    break;
                }
            }
            runs += 1;
            match done {
                Some(Ok(_)) if got == want => {}
                Some(Ok(_)) => failures.push(format!(
                    "real pipe (4096 bytes): write_all_vectored of buffers {lens:?} returned Ok but the reader received {} of {} bytes{}",
                    got.len(),
                    want.len(),
                    if got.len() <= want.len() && got[..] == want[..got.len()] { " (a prefix)" } else { " (different bytes)" }
                )),
                Some(Err(e)) => failures.push(format!("real pipe: write_all_vectored of buffers {lens:?} failed: {e}")),
                None => failures.push(format!("real pipe: write_all_vectored of buffers {lens:?} did not finish")),
            }
            drop(fut);
            drop(fd); // closes wr
            let _ = ring.poll(Some(Duration::ZERO));
            unsafe { libc::close(rd) };
        }
        // ---- read_n ---------------------------------------------------------------------------
        {
            let Some((rd, wr)) = real_pipe(4096) else { continue };
            unsafe { libc::fcntl(wr, libc::F_SETFL, libc::O_NONBLOCK) };
            let cap = r.range(16, 9000) as usize;
            let n = r.range(1, cap as u64) as usize;
            let src: Vec<u8> = (0..cap + 64).map(|_| r.next() as u8).collect();
            let fd = Box::new(unsafe { a10::AsyncFd::from_raw_fd(rd, ring.sq()) });
            let fd_ref: &'static a10::AsyncFd = unsafe { &*(&*fd as *const a10::AsyncFd) };
            let mut fut: Fut = erase(fd_ref.read_n(Vec::with_capacity(cap), n), true);
            let mut sent = 0usize;
            let mut done: Option<io::Result<Returned>> = None;
            let mut spins = 0;
            while spins < 20000 && done.is_none() {
                spins += 1;
                if let Poll::Ready(res) = poll_once(fut.as_mut(), &waker) {
                    done = Some(res);
                    break;
                }
                let _ = ring.poll(Some(Duration::from_millis(1)));
                if sent < src.len() {
                    let c = (r.range(1, 700) as usize).min(src.len() - sent);
                    let w = unsafe { libc::write(wr, src[sent..].as_ptr().cast(), c) };
                    if w > 0 {
                        sent += w as usize;
                    }
                }
            }
            runs += 1;
            match done {
                Some(Ok(ret)) => {
                    let data = &ret.data[0];
                    if data.len() < n || data.len() > sent || data[..] != src[..data.len()] {
                        failures.push(format!(
                            "real pipe: read_n(capacity {cap}, n {n}) returned {} bytes after {sent} were written{}",
                            data.len(),
                            if data.len() <= sent && data[..] == src[..data.len()] { "" } else { "; not the bytes written, in order" }
                        ));
                    }
                }
                Some(Err(e)) => failures.push(format!("real pipe: read_n(capacity {cap}, n {n}) failed: {e}")),
                None => failures.push(format!("real pipe: read_n(capacity {cap}, n {n}) did not finish")),
            }
            drop(fut);
            drop(fd);
            let _ = ring.poll(Some(Duration::ZERO));
            unsafe { libc::close(wr) };
        }
    }
    (runs, beyond, failures)
}

pub fn run(args: &Args) -> i32 {
    // Real-kernel corroboration first: once the simulator is installed every ring is simulated.
    let (real_runs, real_beyond, real_failures) = if args.thorough { corroborate_real(args.seed, 40) } else { (0, 0, Vec::new()) };

    simk::install();
    let silent: Arc<Mutex<Option<String>>> = Arc::new(Mutex::new(None));
    let s2 = silent.clone();
    if std::env::var("C10_LOUD").is_err() {
        std::panic::set_hook(Box::new(move |info| {
            *s2.lock().unwrap() = Some(info.to_string());
        }));
    }
    let _ = static_pool();
    let _ = huge_region();
    let n = args.n.unwrap_or(if args.thorough { 40_000 } else { 3_000 });
    let root = Rng::new(args.seed);
    if let Ok(i) = std::env::var("C10_ONLY") {
        // Debugging aid: one case, in this process, printed.
        let _ = std::panic::take_hook();
        let i: u64 = i.parse().unwrap();
        let c = one_case(&mut root.fork(i), &silent);
        println!("{}\n{}\nobs {:?}\noracle {:?} known {:?}", c.json, c.coq, c.obs, c.oracle, c.known);
        return 0;
    }
    let mut cases = out::run_forked(&args.out, n, 12, &|i| {
        let mut r = root.fork(i as u64);
        one_case(&mut r, &silent)
    });
    let _ = std::panic::take_hook();
    let skipped = real_failures.iter().any(|f| f.starts_with("skipped"));
    for f in real_failures.iter().filter(|f| !f.starts_with("skipped")) {
        cases.push(Case {
            coq: String::new(),
            obs: vec![],
            json: format!("{{\"real_pipe\":{}}}", out::jstr(f)),
            oracle: Some(f.clone()),
            known: None,
            tags: vec!["real-pipe-failure".into()],
            nontrivial: false,
        });
    }
    let spec = Spec { prop: "C10", imports: &["Model.BufTraits", "Model.Composite"], run_fn: "run_ccase", case_ty: "ccase", shard: 500 };
    let extra = [
        ("real_pipe_runs", real_runs.to_string()),
        ("real_pipe_writes_larger_than_pipe", real_beyond.to_string()),
        ("real_pipe_skipped", skipped.to_string()),
        ("huge_buffers_available", huge_region().is_some().to_string()),
    ];
    out::write_all(&args.out, &spec, &cases, &extra);
    0
}

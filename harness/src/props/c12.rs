//! C12 — teardown in any order.
//!
//! A generated population (a `Ring` on the simulated kernel with a small submission and
//! completion queue, `SubmissionQueue` clones, `AsyncFd`s over fake descriptors, operations in
//! five starting states, `ReadBufPool`s with `ReadBuf`s obtained through completed pool reads) is
//! dropped in a generated order on the real a10 code, optionally with the kernel finishing
//! in-flight requests in between. Two sorts of operation are not finished by a cancellation:
//! operations on a "hard" descriptor (the simulated kernel does not cancel them: ASYNC_CANCEL
//! answers EALREADY, the blanket REGISTER_SYNC_CANCEL leaves them in flight and fails with ETIME)
//! and zero-copy sends (`send(buf).zc()`: a result completion with IORING_CQE_F_MORE, later a
//! notification; three more starting states: result processed, abandoned with the result
//! processed, abandoned with both processed). Kernel completions are generated at any point,
//! also after the `Ring` and everything else is gone. After every drop the driver reads what the simulated kernel
//! saw (enter / consumed submissions / register / munmap, in order), what the tracking allocator
//! saw (frees of the operation states and of the pools' two page-aligned allocations), the
//! synchronous closes, and whether the ring descriptor is still open. The same case is run on
//! Model/Teardown.v (`run_tdcase`).
//!
//! The oracle does not use the model: order of the logged calls against the munmaps and the
//! descriptor close, the mmap lengths, the allocator, the simulator's tables; every case runs in
//! a forked child so that touching unmapped memory is a crash of that case. The operation states
//! and the buffers they own are watched by the tracking allocator in quarantine mode with a
//! free-time probe: at the moment one of them is released the simulated kernel must not have the
//! request in flight nor hold an unprocessed completion for it in a mapped completion ring
//! (set-up included); a released block stays mapped, so a use after free by the code under test
//! does not take the process down and a second release is counted.
//!
//! Thorough tier: all 120 orders of a fixed five-object population, a second exhaustive family
//! (ring, an fd with an in-flight zero-copy send, a hard fd with an in-flight read: all 30
//! admissible orders of the five drops x all placements of two kernel completions), and a
//! corroboration on the real kernel (no simulator) that only counts `/proc/self/fd`, `/proc/self/maps` and live heap
//! blocks.

use std::collections::BTreeMap;
use std::fmt::Write as _;
use std::future::Future;
use std::os::fd::{FromRawFd, OwnedFd};
use std::panic::{catch_unwind, AssertUnwindSafe};
use std::pin::Pin;
use std::sync::{Arc, Mutex};
use std::task::{Context, Poll, Waker};
use std::time::Duration;

use crate::out::{self, Case, Spec};
use crate::rng::Rng;
use crate::simk::{self, abi, Ev};
use crate::{alloc, Args};

// ---------------------------------------------------------------------------------------------
// Case description

#[derive(Clone, Copy, Debug, PartialEq, Eq)]
enum Ist {
    NotStarted,
    Queued,
    Inflight,
    Done,
    Finished,
    /// Two-step operations only: in flight, the result (F_MORE) processed, notification outstanding.
    Mid,
    /// As `Mid`, the future dropped before the result was processed (abandoned, state alive).
    AbMid,
    /// Abandoned, both completions processed during set-up: the state is gone at the start.
    AbDone,
}

impl Ist {
    /// The future exists when the teardown starts.
    fn has_future(self) -> bool {
        !matches!(self, Ist::AbMid | Ist::AbDone)
    }
}

#[derive(Clone, Copy, Debug, PartialEq, Eq)]
enum Kind {
    Read,
    Accept,
    Socket,
    /// `fd.send(buf).zc()`: completes in two steps.
    SendZc,
}

/// Length of the buffer of a zero-copy send (= its result).
const ZC_LEN: usize = 48;

#[derive(Clone, Copy, Debug, PartialEq, Eq)]
enum Obj {
    Ring,
    Clone(usize),
    Fd(usize),
    Op(usize),
    Pool(usize),
    Buf(usize),
}

#[derive(Clone, Copy, Debug, PartialEq, Eq)]
enum Event {
    Drop(Obj),
    KComplete(usize),
}

#[derive(Clone, Debug)]
struct Plan {
    sqn: u32,
    cqn: u32,
    clones: usize,
    fds: usize,
    /// Per AsyncFd: a direct descriptor (slot h of the ring's table) instead of a regular one.
    direct: Vec<bool>,
    /// Per AsyncFd (regular ones only): the kernel does not cancel requests on this descriptor.
    hard: Vec<bool>,
    /// Per AsyncFd (regular ones only): the kernel refuses requests on this descriptor while
    /// preparing them (EBADF, posted when the submission is consumed; never in flight).
    rej: Vec<bool>,
    /// (fd the future borrows, or None for one that owns a SubmissionQueue; kind; starting state)
    ops: Vec<(Option<usize>, Kind, Ist)>,
    pools: usize,
    bufs: Vec<usize>,
    events: Vec<Event>,
}

const H13: &str = "fd-dropped-after-ring";
const H14: &str = "abandoned-ops-beyond-cq-capacity";
const H28: &str = "op-in-flight-after-ring-drop";

impl Plan {
    fn two_step(&self, o: usize) -> bool {
        self.ops[o].1 == Kind::SendZc
    }
    /// The kernel does not cancel the request of operation `o`.
    fn survives(&self, o: usize) -> bool {
        self.ops[o].0.is_some_and(|h| self.hard[h])
    }
    /// The kernel refuses the request of operation `o` when it consumes the submission.
    fn refused(&self, o: usize) -> bool {
        self.ops[o].0.is_some_and(|h| self.rej[h])
    }
}

fn fake_fd(h: usize) -> i32 {
    1_000_000 + h as i32
}
fn base_fd(h: usize) -> i32 {
    1_500_000 + h as i32
}
fn util_fd(b: usize) -> i32 {
    1_900_000 + b as i32
}

fn fixed_model() -> bool {
    // /repo carries the repair of H14 (fbe02e5): the model of the repaired drop is the one compared.
    std::env::var("C12_FIXED").map(|v| v == "1").unwrap_or(true)
}

fn coq_obj(o: &Obj) -> String {
    match o {
        Obj::Ring => "ORing".into(),
        Obj::Clone(c) => format!("(OClone {c}%nat)"),
        Obj::Fd(h) => format!("(OFd {h}%nat)"),
        Obj::Op(o) => format!("(OOp {o}%nat)"),
        Obj::Pool(p) => format!("(OPool {p}%nat)"),
        Obj::Buf(b) => format!("(OBuf {b}%nat)"),
    }
}

fn json_obj(o: &Obj) -> String {
    match o {
        Obj::Ring => "ring".into(),
        Obj::Clone(c) => format!("sq_clone{c}"),
        Obj::Fd(h) => format!("fd{h}"),
        Obj::Op(o) => format!("op{o}"),
        Obj::Pool(p) => format!("pool{p}"),
        Obj::Buf(b) => format!("buf{b}"),
    }
}

fn coq_nats(xs: impl Iterator<Item = usize>) -> String {
    let v: Vec<String> = xs.map(|x| format!("{x}%nat")).collect();
    format!("[{}]", v.join("; "))
}

fn coq_plan(p: &Plan, lens: (usize, usize, usize)) -> String {
    let mut s = format!(
        "{{| t_fixed := {}; t_pop := {{| pp_d := {{| d_sqn := {}%nat; d_cqn := {}%nat; d_len_sq := {}%N; d_len_sqes := {}%N; d_len_cq := {}%N; d_two := {}; d_surv := {}; d_rej := {} |}}; pp_clones := {}%nat; pp_fds := {}%nat; pp_ops := [",
        fixed_model(),
        p.sqn,
        p.cqn,
        lens.0,
        lens.1,
        lens.2,
        coq_nats((0..p.ops.len()).filter(|o| p.two_step(*o))),
        coq_nats((0..p.ops.len()).filter(|o| p.survives(*o))),
        coq_nats((0..p.ops.len()).filter(|o| p.refused(*o))),
        p.clones,
        p.fds
    );
    for (i, (on, _, st)) in p.ops.iter().enumerate() {
        if i > 0 {
            s.push_str("; ");
        }
        let on = match on {
            Some(h) => format!("Some {h}%nat"),
            None => "None".into(),
        };
        let st = match st {
            Ist::NotStarted => "INotStarted",
            Ist::Queued => "IQueued",
            Ist::Inflight => "IInflight",
            Ist::Done => "IDone",
            Ist::Finished => "IFinished",
            Ist::Mid => "IMid",
            Ist::AbMid => "IAbMid",
            Ist::AbDone => "IAbDone",
        };
        let _ = write!(s, "({on}, {st})");
    }
    let _ = write!(s, "]; pp_pools := {}%nat; pp_bufs := [", p.pools);
    for (i, b) in p.bufs.iter().enumerate() {
        if i > 0 {
            s.push_str("; ");
        }
        let _ = write!(s, "{b}%nat");
    }
    s.push_str("] |}; t_events := [");
    for (i, e) in p.events.iter().enumerate() {
        if i > 0 {
            s.push_str("; ");
        }
        match e {
            Event::Drop(o) => {
                let _ = write!(s, "Drop {}", coq_obj(o));
            }
            Event::KComplete(o) => {
                let _ = write!(s, "KComplete {o}%nat");
            }
        }
    }
    s.push_str("] |}");
    s
}

fn json_plan(p: &Plan, kernel: &str) -> String {
    let mut s = format!(
        "{{\"kernel\":\"{kernel}\",\"sq_entries\":{},\"cq_entries\":{},\"sq_clones\":{},\"fds\":{},\"direct\":{:?},\"not_cancelable\":{:?},\"refused_at_submission\":{:?},\"ops\":[",
        p.sqn, p.cqn, p.clones, p.fds, p.direct, p.hard, p.rej
    );
    for (i, (on, k, st)) in p.ops.iter().enumerate() {
        if i > 0 {
            s.push(',');
        }
        let on = match on {
            Some(h) => format!("\"fd{h}\""),
            None => "\"sq\"".into(),
        };
        let _ = write!(s, "{{\"on\":{on},\"kind\":\"{k:?}\",\"state\":\"{st:?}\"}}");
    }
    let _ = write!(s, "],\"pools\":{},\"bufs_of_pool\":{:?},\"events\":[", p.pools, p.bufs);
    for (i, e) in p.events.iter().enumerate() {
        if i > 0 {
            s.push(',');
        }
        match e {
            Event::Drop(o) => {
                let _ = write!(s, "\"drop({})\"", json_obj(o));
            }
            Event::KComplete(o) => {
                let _ = write!(s, "\"kernel_completes(op{o})\"");
            }
        }
    }
    s.push_str("]}");
    s
}

// ---------------------------------------------------------------------------------------------
// Generation

fn gen_order(r: &mut Rng, p: &Plan, ring_bias: u64) -> Vec<Event> {
    let mut objs: Vec<Obj> = vec![Obj::Ring];
    objs.extend((0..p.clones).map(Obj::Clone));
    objs.extend((0..p.fds).map(Obj::Fd));
    // Abandoned operations have no future left to drop.
    objs.extend((0..p.ops.len()).filter(|o| p.ops[*o].2.has_future()).map(Obj::Op));
    objs.extend((0..p.pools).map(Obj::Pool));
    objs.extend((0..p.bufs.len()).map(Obj::Buf));
    // Random keys; an AsyncFd goes after every future that borrows it (what the borrow checker
    // enforces).
    let mut key: BTreeMap<usize, u64> = BTreeMap::new();
    for (i, o) in objs.iter().enumerate() {
        let k = match (o, ring_bias) {
            (Obj::Ring, 0) => 0,
            (Obj::Ring, 1) => u64::MAX / 2,
            _ => 1 + r.below(1 << 40),
        };
        key.insert(i, k);
    }
    for (i, o) in objs.iter().enumerate() {
        if let Obj::Fd(h) = o {
            let mut k = key[&i];
            for (j, o2) in objs.iter().enumerate() {
                if let Obj::Op(x) = o2 {
                    if p.ops[*x].0 == Some(*h) {
                        k = k.max(key[&j] + 1);
                    }
                }
            }
            key.insert(i, k);
        }
    }
    let mut idx: Vec<usize> = (0..objs.len()).collect();
    idx.sort_by_key(|i| (key[i], *i));
    let mut events: Vec<Event> = idx.into_iter().map(|i| Event::Drop(objs[i])).collect();
    // The kernel takes the next step of some requests on its own, anywhere: before the first drop,
    // after the Ring is gone, after the last drop.
    if !p.ops.is_empty() {
        for _ in 0..r.below(5) {
            let o = r.below(p.ops.len() as u64) as usize;
            let at = r.below(events.len() as u64 + 1) as usize;
            events.insert(at, Event::KComplete(o));
        }
    }
    events
}

fn gen_plan(r: &mut Rng) -> Plan {
    let (sqn, cqn) = *r.pick(&[(2u32, 2u32), (2, 4), (4, 4), (2, 2), (4, 8)]);
    let clones = r.below(3) as usize;
    let mut fds = r.below(4) as usize;
    let n_ops = r.below(5) as usize;
    // The two new sorts of operation: zero-copy sends in 3 cases of 8, descriptors the kernel
    // does not cancel on in 3 of 8 (both in 1 of 8; neither in 3 of 8).
    let ext = r.below(8);
    let zc_on = ext <= 2;
    let hard_on = (2..=4).contains(&ext);
    if zc_on && fds == 0 {
        fds = 1;
    }
    let mut ops = Vec::new();
    let mut queued = 0;
    let heavy = r.chance(1, 3); // many running operations: the drain overflows
    for _ in 0..n_ops {
        let on = if fds > 0 && r.chance(3, 4) { Some(r.below(fds as u64) as usize) } else { None };
        let kind = match on {
            Some(_) => *r.pick(&[Kind::Read, Kind::Read, Kind::Accept]),
            None => Kind::Socket,
        };
        let mut st = if heavy {
            *r.pick(&[Ist::Inflight, Ist::Inflight, Ist::Inflight, Ist::Queued, Ist::NotStarted])
        } else {
            *r.pick(&[Ist::NotStarted, Ist::Queued, Ist::Inflight, Ist::Inflight, Ist::Done, Ist::Finished])
        };
        if st == Ist::Queued {
            if queued >= sqn as usize {
                st = Ist::Inflight;
            } else {
                queued += 1;
            }
        }
        ops.push((on, kind, st));
    }
    if zc_on {
        for _ in 0..1 + r.below(2) {
            let on = Some(r.below(fds as u64) as usize);
            let mut st = *r.pick(&[
                Ist::NotStarted,
                Ist::Queued,
                Ist::Inflight,
                Ist::Inflight,
                Ist::Inflight,
                Ist::Mid,
                Ist::Mid,
                Ist::Done,
                Ist::Finished,
                Ist::AbMid,
                Ist::AbMid,
                Ist::AbDone,
            ]);
            if st == Ist::Queued {
                if queued >= sqn as usize {
                    st = Ist::Inflight;
                } else {
                    queued += 1;
                }
            }
            let at = r.below(ops.len() as u64 + 1) as usize;
            ops.insert(at, (on, Kind::SendZc, st));
        }
    }
    let pools = r.below(3) as usize;
    let mut bufs = Vec::new();
    for p in 0..pools {
        for _ in 0..r.below(3) {
            bufs.push(p);
        }
    }
    let direct: Vec<bool> = (0..fds).map(|_| r.chance(1, 3)).collect();
    let hard: Vec<bool> = (0..fds).map(|h| hard_on && !direct[h] && r.chance(1, 2)).collect();
    // A third sort (1 case in 5): descriptors on which the kernel refuses every request while
    // preparing it. Such an operation is never in flight: it starts out unpolled or queued, and
    // its only completion (the error) is posted when the submission is consumed.
    let rej_on = r.chance(1, 5);
    let rej: Vec<bool> = (0..fds).map(|h| rej_on && !direct[h] && !hard[h] && r.chance(2, 3)).collect();
    let mut queued_now = ops.iter().filter(|o| o.2 == Ist::Queued).count();
    for o in ops.iter_mut() {
        if o.0.is_some_and(|h| rej[h]) && !matches!(o.2, Ist::NotStarted | Ist::Queued) {
            if queued_now < sqn as usize && r.chance(3, 4) {
                o.2 = Ist::Queued;
                queued_now += 1;
            } else {
                o.2 = Ist::NotStarted;
            }
        }
    }
    // Half of those cases: a refused submission queued in front of an ordinary one (the kernel must
    // go on consuming behind the refusal: IORING_SETUP_SUBMIT_ALL).
    if let Some(h) = rej.iter().position(|x| *x) {
        if queued_now + 2 <= sqn as usize && r.chance(1, 2) {
            ops.insert(0, (Some(h), Kind::Read, Ist::Queued));
            let on = (0..fds).find(|g| !rej[*g] && !hard[*g]);
            ops.push((on, if on.is_some() { Kind::Read } else { Kind::Socket }, Ist::Queued));
        }
    }
    let mut plan = Plan { sqn, cqn, clones, fds, direct, hard, rej, ops, pools, bufs, events: Vec::new() };
    let ring_bias = match r.below(4) {
        0 => 0, // ring first
        1 => 1, // ring (nearly) last
        _ => 2,
    };
    plan.events = gen_order(r, &plan, ring_bias);
    plan
}

/// The fixed population of the exhaustive tier: ring, one clone, one fd with an in-flight read
/// on it, one pool. All 120 orders of the five drops that keep the future before its fd are run
/// (60 of them); the others are skipped.
fn fixed_plan(perm: usize) -> Option<Plan> {
    let objs = [Obj::Ring, Obj::Clone(0), Obj::Fd(0), Obj::Op(0), Obj::Pool(0)];
    let mut idx: Vec<usize> = (0..5).collect();
    let mut k = perm;
    let mut order = Vec::new();
    for n in (1..=5).rev() {
        order.push(idx.remove(k % n));
        k /= n;
    }
    let events: Vec<Event> = order.iter().map(|i| Event::Drop(objs[*i])).collect();
    let pos = |o: Obj| events.iter().position(|e| *e == Event::Drop(o)).unwrap();
    if pos(Obj::Op(0)) > pos(Obj::Fd(0)) {
        return None;
    }
    Some(Plan {
        sqn: 2,
        cqn: 2,
        clones: 1,
        fds: 1,
        direct: vec![false],
        hard: vec![false],
        rej: vec![false],
        ops: vec![(Some(0), Kind::Read, Ist::Inflight)],
        pools: 1,
        bufs: vec![],
        events,
    })
}

/// Second exhaustive family: ring, fd0 with an in-flight zero-copy send (op0) on it, fd1 — which
/// the kernel does not cancel on — with an in-flight read (op1) on it; every one of the 30 orders
/// of the five drops that keep each future before its fd, combined with every placement of two
/// kernel completions (targets (op0, op0), (op0, op1), (op1, op0); positions 0 <= i <= j <= 5
/// among the drops: 3 x 21 = 63 placements): 1890 cases.
const FIXED2_PLACEMENTS: usize = 63;
const FIXED2_ORDERS: usize = 30;

fn fixed_plan2(index: usize) -> Plan {
    let objs = [Obj::Ring, Obj::Fd(0), Obj::Op(0), Obj::Fd(1), Obj::Op(1)];
    let mut orders: Vec<Vec<Obj>> = Vec::new();
    for perm in 0..120 {
        let mut idx: Vec<usize> = (0..5).collect();
        let mut k = perm;
        let mut order = Vec::new();
        for n in (1..=5).rev() {
            order.push(objs[idx.remove(k % n)]);
            k /= n;
        }
        let pos = |o: Obj| order.iter().position(|e| *e == o).unwrap();
        if pos(Obj::Op(0)) < pos(Obj::Fd(0)) && pos(Obj::Op(1)) < pos(Obj::Fd(1)) {
            orders.push(order);
        }
    }
    assert_eq!(orders.len(), FIXED2_ORDERS);
    let order = &orders[index / FIXED2_PLACEMENTS];
    let pl = index % FIXED2_PLACEMENTS;
    let targets = [(0usize, 0usize), (0, 1), (1, 0)][pl / 21];
    let mut ij = Vec::new();
    for i in 0..=5usize {
        for j in i..=5usize {
            ij.push((i, j));
        }
    }
    assert_eq!(ij.len(), 21);
    let (i, j) = ij[pl % 21];
    let mut events: Vec<Event> = Vec::new();
    for (n, o) in order.iter().enumerate() {
        if i == n {
            events.push(Event::KComplete(targets.0));
        }
        if j == n {
            events.push(Event::KComplete(targets.1));
        }
        events.push(Event::Drop(*o));
    }
    if i == 5 {
        events.push(Event::KComplete(targets.0));
    }
    if j == 5 {
        events.push(Event::KComplete(targets.1));
    }
    Plan {
        sqn: 2,
        cqn: 2,
        clones: 0,
        fds: 2,
        direct: vec![false, false],
        hard: vec![false, true],
        rej: vec![false, false],
        ops: vec![(Some(0), Kind::SendZc, Ist::Inflight), (Some(1), Kind::Read, Ist::Inflight)],
        pools: 0,
        bufs: vec![],
        events,
    }
}

// ---------------------------------------------------------------------------------------------
// Execution on the simulated kernel

enum Fut {
    Read(Pin<Box<a10::io::Read<'static, Vec<u8>>>>),
    Accept(Pin<Box<a10::net::MultishotAccept<'static>>>),
    Socket(Pin<Box<a10::net::Socket>>),
    SendZc(Pin<Box<a10::net::Send<'static, Vec<u8>>>>),
}

fn words<T>(x: &T) -> Vec<usize> {
    let n = std::mem::size_of::<T>() / std::mem::size_of::<usize>();
    (0..n).map(|i| unsafe { (x as *const T as *const usize).add(i).read() }).collect()
}

/// Address of the boxed operation state: the pointer-sized field of the future that is a live
/// heap block and is not its target (`&AsyncFd` / `Arc<Shared>`).
fn box_addr_of(f: &Fut, not: usize) -> usize {
    let ws = match f {
        Fut::Read(f) => words(&**f),
        Fut::Accept(f) => words(&**f),
        Fut::Socket(f) => words(&**f),
        Fut::SendZc(f) => words(&**f),
    };
    let cands: Vec<usize> = ws
        .into_iter()
        .filter(|w| *w != not && *w > 4096 && alloc::block_of(*w).is_some_and(|(start, _)| start == *w))
        .collect();
    assert!(cands.len() == 1, "cannot identify the operation state of a future: {cands:?}");
    cands[0]
}

fn poll_fut(f: &mut Fut) -> i32 {
    let waker = Waker::noop();
    let mut ctx = Context::from_waker(waker);
    match f {
        Fut::Read(f) => match f.as_mut().poll(&mut ctx) {
            Poll::Pending => 0,
            // The buffer comes back to the caller, who lets go of it here.
            Poll::Ready(_) => 1,
        },
        Fut::Socket(f) => match f.as_mut().poll(&mut ctx) {
            Poll::Pending => 0,
            Poll::Ready(r) => {
                assert!(r.is_err(), "the scripted socket result is an error");
                1
            }
        },
        Fut::Accept(f) => match f.as_mut().poll_next(&mut ctx) {
            Poll::Pending => 0,
            Poll::Ready(Some(_)) => 2,
            Poll::Ready(None) => 1,
        },
        Fut::SendZc(f) => match f.as_mut().poll(&mut ctx) {
            Poll::Pending => 0,
            Poll::Ready(r) => {
                assert!(matches!(r, Ok(n) if n == ZC_LEN), "the zero-copy send returns the result of its first completion");
                1
            }
        },
    }
}

struct World {
    ring: Option<a10::Ring>,
    ring_fd: i32,
    clones: Vec<Option<a10::SubmissionQueue>>,
    fds: Vec<Option<Box<a10::AsyncFd>>>,
    futs: Vec<Option<Fut>>,
    boxes: Vec<usize>,
    /// Per operation: the heap buffer its state owns (0: none).
    op_bufs: Vec<usize>,
    /// Per operation: frees of the state box / of the buffer seen during set-up.
    setup_box_frees: Vec<usize>,
    setup_buf_frees: Vec<usize>,
    /// Oracle failures found while the starting states were built.
    setup_problems: Vec<String>,
    pools: Vec<Option<a10::io::ReadBufPool>>,
    bgid: Vec<u16>,
    pool_ring: Vec<usize>,
    pool_bufs: Vec<usize>,
    bufs: Vec<Option<a10::io::ReadBuf>>,
    /// (address, length) of a10's mappings: submission ring, entries, completion ring.
    maps: [(usize, usize); 3],
    cursor: usize,
}

fn setup_ring_poll(ring: &mut a10::Ring) {
    ring.poll(Some(Duration::ZERO)).expect("Ring::poll during set-up");
}

fn kernel_result(k: Kind) -> i32 {
    match k {
        Kind::Read => 0,
        Kind::Accept => -libc::ENOTSOCK,
        Kind::Socket => -libc::EMFILE,
        Kind::SendZc => 0, // the notification; the result step is (ZC_LEN, F_MORE)
    }
}

// ---- free-time probe ---------------------------------------------------------------------------
// (state box, buffer) of every operation of the running case, for the probe: plain statics, the
// probe runs inside the allocator.
const PAIRS_CAP: usize = 32;
static mut PAIRS: [(usize, usize); PAIRS_CAP] = [(0, 0); PAIRS_CAP];
static mut PAIRS_N: usize = 0;

const P_INFLIGHT: u8 = 1; // the simulated kernel has the request in flight
const P_CQE: u8 = 2; // a completion for it sits in the completion ring [head, tail) or on the overflow list
const P_BUSY: u8 = 4; // the simulator could not be asked
const P_OVERFLOW: u8 = 8; // ... one of them on the overflow list (nobody can be processing that one)

#[allow(static_mut_refs)]
fn set_pairs(boxes: &[usize], bufs: &[usize]) {
    unsafe {
        PAIRS_N = 0;
        for (b, u) in boxes.iter().zip(bufs.iter()) {
            if PAIRS_N < PAIRS_CAP {
                PAIRS[PAIRS_N] = (*b, *u);
                PAIRS_N += 1;
            }
        }
    }
}

/// What the simulated kernel knows about the block at `addr` (a state box or a buffer owned by
/// one) at the moment it is freed.
#[allow(static_mut_refs)]
fn free_probe(addr: usize) -> u8 {
    let (mut key, mut buf) = (addr, 0usize);
    unsafe {
        for i in 0..PAIRS_N {
            let (b, u) = PAIRS[i];
            if b == addr || (u != 0 && u == addr) {
                key = b;
                buf = u;
            }
        }
    }
    let bits = simk::try_with(|s| {
        let mut bits = 0u8;
        for q in &s.inflight {
            let a = q.sqe.addr as usize;
            if (q.sqe.user_data & !1) as usize == key || a == addr || (buf != 0 && a == buf) {
                bits |= P_INFLIGHT;
            }
        }
        let mut k = 0;
        while let Some(c) = s.cq_peek(k) {
            if (c.user_data & !1) as usize == key {
                bits |= P_CQE;
            }
            k += 1;
        }
        for c in s.overflow.iter() {
            if (c.user_data & !1) as usize == key {
                bits |= P_CQE | P_OVERFLOW;
            }
        }
        bits
    });
    bits.unwrap_or(P_BUSY)
}

/// Items (i) and (ii) of the oracle for one release of a watched block of operation `o`.
/// `processing`: the release happened inside a call that processes completions (`Ring::poll`,
/// dropping the `Ring`): the completion being processed is still inside [head, tail) then, so
/// only one on the overflow list is certainly unprocessed.
fn judge_release(p: &Plan, what: &str, o: usize, is_box: bool, bits: u8, processing: bool, cq_mapped: bool) -> Option<String> {
    let name = if is_box { format!("state of op{o}") } else { format!("buffer owned by the state of op{o}") };
    let (on, kind, st) = p.ops[o];
    let sort = format!(
        "{kind:?}{}{}, starting state {st:?}",
        on.map(|h| format!(" on fd{h}")).unwrap_or_default(),
        if p.survives(o) { " which the kernel does not cancel" } else { "" }
    );
    if bits & P_INFLIGHT != 0 {
        return Some(format!("{what}: the {name} was released while its request is still in flight ({sort}): the kernel still uses it"));
    }
    if bits & P_BUSY != 0 {
        return Some(format!("{what}: the {name} was released inside a call of the simulated kernel (its tables could not be consulted)"));
    }
    if cq_mapped && (bits & P_OVERFLOW != 0 || (!processing && bits & P_CQE != 0)) {
        return Some(format!("{what}: the {name} was released while a completion for it is still to be processed ({sort})"));
    }
    None
}

/// Build the population and bring every operation into its starting state.
fn build_world(p: &Plan, r: &mut Rng) -> World {
    simk::configure(simk::SetupConfig { sq_start: r.next() as u32, cq_start: r.next() as u32, ..Default::default() });
    let cfg = a10::Ring::config().with_submission_queue_size(p.sqn).with_completion_queue_size(p.cqn);
    let cfg = if p.direct.iter().any(|d| *d) { cfg.with_direct_descriptors(p.fds as u32 + 2) } else { cfg };
    let mut ring = cfg.build().expect("ring on the simulated kernel");
    let ring_fd = simk::with(|s| s.fd);
    let mut maps = [(0usize, 0usize); 3];
    simk::with(|s| {
        assert_eq!((s.sq_entries, s.cq_entries), (p.sqn, p.cqn));
        // Cancellation as the kernel does it: nothing on a "hard" descriptor is cancelled, a
        // zero-copy send whose result is out only waits for its notification.
        s.strict_cancel = true;
        for h in 0..p.fds {
            if p.hard[h] {
                assert!(!p.direct[h]);
                s.cancel_policy.push((fake_fd(h), false));
            }
            if p.rej[h] {
                assert!(!p.direct[h] && !p.hard[h]);
                s.reject_policy.push((fake_fd(h), libc::EBADF));
            }
        }
        for e in &s.log {
            if let Ev::Mmap { len, offset, res_ok: true, addr } = e {
                let which = match *offset {
                    abi::OFF_SQ_RING => 0,
                    abi::OFF_SQES => 1,
                    abi::OFF_CQ_RING => 2,
                    _ => panic!("unexpected mmap offset"),
                };
                maps[which] = (*addr, *len);
            }
        }
    });
    let sq = ring.sq();
    let shared_ptr = words(&sq)[0];
    let clones: Vec<_> = (0..p.clones).map(|_| Some(sq.clone())).collect();
    let mut fds = Vec::new();
    for h in 0..p.fds {
        if p.direct[h] {
            // A direct descriptor in slot h of the ring's table, obtained the public way: a
            // scripted to_direct_descriptor on a throw-away regular descriptor.
            simk::add_fake_fd(base_fd(h));
            let base = unsafe { a10::AsyncFd::from_raw_fd(base_fd(h), sq.clone()) };
            let waker = Waker::noop();
            let mut ctx = Context::from_waker(waker);
            let fd = {
                let mut fut = Box::pin(base.to_direct_descriptor());
                assert!(fut.as_mut().poll(&mut ctx).is_pending());
                setup_ring_poll(&mut ring);
                simk::with(|s| {
                    let q = s.inflight.iter().find(|q| q.sqe.opcode == abi::OP_FILES_UPDATE).expect("FILES_UPDATE in flight");
                    let (req, addr) = (q.req, q.sqe.addr);
                    // The kernel installs the descriptor in a free slot and writes the index back.
                    unsafe { (addr as usize as *mut i32).write(h as i32) };
                    if let Some(t) = s.files.as_mut() {
                        t[h] = base_fd(h);
                    }
                    s.complete(req, 1, 0);
                });
                setup_ring_poll(&mut ring);
                match fut.as_mut().poll(&mut ctx) {
                    Poll::Ready(Ok(fd)) => fd,
                    other => panic!("to_direct_descriptor did not complete: {:?}", other.map(|r| r.map(|_| ()))),
                }
            };
            assert!(fd.kind() == a10::fd::Kind::Direct);
            drop(base); // queues a CLOSE of the throw-away descriptor
            setup_ring_poll(&mut ring); // ... which the kernel consumes here
            fds.push(Some(Box::new(fd)));
        } else {
            simk::add_fake_fd(fake_fd(h));
            fds.push(Some(Box::new(unsafe { a10::AsyncFd::from_raw_fd(fake_fd(h), sq.clone()) })));
        }
    }
    // Pools: learn the group id and the two allocations from what the kernel was told.
    let mut pools = Vec::new();
    let mut bgid = Vec::new();
    let mut pool_ring = Vec::new();
    let mut pool_bufs = Vec::new();
    for _ in 0..p.pools {
        let before: Vec<u16> = simk::with(|s| s.pbufs.keys().copied().collect());
        let pool = a10::io::ReadBufPool::new(sq.clone(), 2, 8).expect("ReadBufPool::new");
        let (id, ring_addr) = simk::with(|s| {
            let (id, pr) = s.pbufs.iter().find(|(k, _)| !before.contains(k)).expect("pool registration");
            (*id, pr.addr as usize)
        });
        let first = unsafe { (ring_addr as *const abi::Buf).read_volatile() };
        let second = unsafe { (ring_addr as *const abi::Buf).add(1).read_volatile() };
        let base = first.addr.min(second.addr) as usize;
        assert!(alloc::block_of(ring_addr).is_some_and(|b| b.0 == ring_addr), "pool ring is not a heap block");
        assert!(alloc::block_of(base).is_some_and(|b| b.0 == base), "pool buffers are not a heap block");
        alloc::watch(ring_addr);
        alloc::watch(base);
        pools.push(Some(pool));
        bgid.push(id);
        pool_ring.push(ring_addr);
        pool_bufs.push(base);
    }
    // ReadBufs: a completed read with a pool buffer on a throw-away descriptor.
    let mut bufs = Vec::new();
    for (b, pi) in p.bufs.iter().enumerate() {
        simk::add_fake_fd(util_fd(b));
        let fd = unsafe { a10::AsyncFd::from_raw_fd(util_fd(b), sq.clone()) };
        let waker = Waker::noop();
        let mut ctx = Context::from_waker(waker);
        let buf = {
            let mut fut = Box::pin(fd.read(pools[*pi].as_ref().unwrap().get()));
            assert!(fut.as_mut().poll(&mut ctx).is_pending());
            setup_ring_poll(&mut ring);
            simk::with(|s| {
                let req = s.inflight.iter().find(|q| q.sqe.fd == util_fd(b)).expect("pool read in flight").req;
                let (bid, addr, len) = s.pbuf_pick(bgid[*pi]).expect("a free pool buffer");
                let n = 3.min(len as usize);
                for k in 0..n {
                    unsafe { (addr as *mut u8).add(k).write(0xA0 + k as u8) };
                }
                s.complete(req, n as i32, abi::CQE_F_BUFFER | ((bid as u32) << abi::CQE_BUFFER_SHIFT));
            });
            setup_ring_poll(&mut ring);
            match fut.as_mut().poll(&mut ctx) {
                Poll::Ready(Ok(buf)) => buf,
                other => panic!("pool read did not complete: {:?}", other.map(|r| r.map(|b| b.len()))),
            }
        };
        assert_eq!(buf.len(), 3);
        drop(fd); // queues a CLOSE
        setup_ring_poll(&mut ring); // ... which the kernel consumes here
        bufs.push(Some(buf));
    }
    let _ = simk::take_closes();

    // Operations. The state box and the heap buffer it owns are watched.
    let mut futs: Vec<Option<Fut>> = Vec::new();
    let mut boxes = Vec::new();
    let mut op_bufs = Vec::new();
    for (on, kind, _) in &p.ops {
        let fd_of = |h: usize| -> &'static a10::AsyncFd { unsafe { &*(&**fds[h].as_ref().unwrap() as *const a10::AsyncFd) } };
        let (fut, not, buf) = match (on, kind) {
            (Some(h), Kind::Read) => {
                let fd = fd_of(*h);
                let v: Vec<u8> = Vec::with_capacity(16);
                let b = v.as_ptr() as usize;
                (Fut::Read(Box::pin(fd.read(v))), fd as *const _ as usize, b)
            }
            (Some(h), Kind::SendZc) => {
                let fd = fd_of(*h);
                let v: Vec<u8> = vec![0x5A; ZC_LEN];
                let b = v.as_ptr() as usize;
                (Fut::SendZc(Box::pin(fd.send(v).zc())), fd as *const _ as usize, b)
            }
            (Some(h), _) => {
                let fd = fd_of(*h);
                (Fut::Accept(Box::pin(fd.multishot_accept())), fd as *const _ as usize, 0)
            }
            (None, _) => (Fut::Socket(Box::pin(a10::net::socket(sq.clone(), a10::net::Domain::IPV4, a10::net::Type::STREAM, None))), shared_ptr, 0),
        };
        let addr = box_addr_of(&fut, not);
        alloc::watch(addr);
        if buf != 0 {
            assert!(alloc::block_of(buf).is_some_and(|b| b.0 == buf), "the operation's buffer is not a heap block");
            assert!(buf != addr);
            alloc::watch(buf);
        }
        boxes.push(addr);
        op_bufs.push(buf);
        futs.push(Some(fut));
    }
    drop(sq);
    set_pairs(&boxes, &op_bufs);

    // Releases of watched blocks during set-up are judged like those during the teardown.
    let n = p.ops.len();
    let mut setup_box_frees = vec![0usize; n];
    let mut setup_buf_frees = vec![0usize; n];
    let mut setup_problems: Vec<String> = Vec::new();
    // (operation, box?) released legitimately by the stage that is being drained
    let drain = |stage: &str, processing: bool, allowed: &[(usize, bool)], problems: &mut Vec<String>, bf: &mut Vec<usize>, uf: &mut Vec<usize>| {
        let what = format!("set-up ({stage})");
        for (a, bits) in alloc::take_freed_info() {
            let hit = boxes.iter().position(|x| *x == a).map(|o| (o, true)).or_else(|| op_bufs.iter().position(|x| *x != 0 && *x == a).map(|o| (o, false)));
            let Some((o, is_box)) = hit else {
                problems.push(format!("{what}: a pool's memory was released"));
                continue;
            };
            if is_box {
                bf[o] += 1;
            } else {
                uf[o] += 1;
            }
            if let Some(f) = judge_release(p, &what, o, is_box, bits, processing, true) {
                problems.push(f);
            } else if !allowed.contains(&(o, is_box)) {
                problems.push(format!(
                    "{what}: the {} of op{o} was released, which nothing at this point accounts for",
                    if is_box { "state" } else { "buffer" }
                ));
            }
        }
        let bad = alloc::take_bad_frees();
        if bad > 0 {
            problems.push(format!("{what}: {bad} free(s) of memory that was not allocated (double free)"));
        }
    };
    let req_of = |addr: usize| simk::with(|s| s.inflight.iter().find(|q| (q.sqe.user_data & !1) as usize == addr).map(|q| q.req));
    let posted_of = |addr: usize| simk::with(|s| s.inflight.iter().find(|q| (q.sqe.user_data & !1) as usize == addr).map(|q| q.posted));
    let _ = alloc::take_bad_frees();
    drain("creating the futures", false, &[], &mut setup_problems, &mut setup_box_frees, &mut setup_buf_frees);
    for (i, (_, kind, st)) in p.ops.iter().enumerate() {
        if matches!(st, Ist::NotStarted | Ist::Queued) {
            continue;
        }
        let two = *kind == Kind::SendZc;
        assert!(two || matches!(st, Ist::Inflight | Ist::Done | Ist::Finished), "starting state {st:?} needs a two-step operation");
        let (pf, bf, uf) = (&mut setup_problems, &mut setup_box_frees, &mut setup_buf_frees);
        // Inflight: the submission is queued by the first poll and consumed by Ring::poll.
        assert_eq!(poll_fut(futs[i].as_mut().unwrap()), 0);
        let queued = simk::with(|s| s.pending_sqes());
        assert!(queued.last().is_some_and(|q| (q.user_data & !1) as usize == boxes[i]), "user_data is not the state's address");
        if op_bufs[i] != 0 {
            assert!(queued.last().is_some_and(|q| q.addr as usize == op_bufs[i]), "the submission does not name the watched buffer");
        }
        assert!(simk::with(|s| s.cq_ready()) == 0);
        setup_ring_poll(&mut ring);
        let req = req_of(boxes[i]).expect("operation in flight");
        drain(&format!("op{i} submitted"), true, &[], pf, bf, uf);
        if *st == Ist::Inflight {
            continue;
        }
        if !two {
            // Done / Finished of a single-completion operation.
            simk::with(|s| s.complete(req, kernel_result(*kind), 0));
            setup_ring_poll(&mut ring);
            drain(&format!("op{i}: completion processed"), true, &[], pf, bf, uf);
        } else {
            // The result of the zero-copy send (F_MORE: the notification follows).
            simk::with(|s| s.complete(req, ZC_LEN as i32, abi::CQE_F_MORE));
            if matches!(st, Ist::AbMid | Ist::AbDone) {
                // Abandoned before the result is processed: Running -> Dropped, a cancellation is queued.
                drop(futs[i].take());
                drain(&format!("op{i}: future dropped with the result posted"), false, &[], pf, bf, uf);
            }
            setup_ring_poll(&mut ring); // the completion ring is not empty: no enter; the result is processed
            drain(&format!("op{i}: result (F_MORE) processed"), true, &[], pf, bf, uf);
            if bf[i] > 0 {
                pf.push(format!("set-up: the state of op{i} was released when its result completion (IORING_CQE_F_MORE) was processed; the notification is outstanding"));
            }
            assert_eq!(posted_of(boxes[i]), Some(1), "the zero-copy send stays in flight after its result");
            if matches!(st, Ist::Done | Ist::Finished | Ist::AbDone) {
                simk::with(|s| s.complete(req, 0, abi::CQE_F_NOTIF));
                setup_ring_poll(&mut ring);
                let allowed: &[(usize, bool)] = if *st == Ist::AbDone { &[(i, false), (i, true)] } else { &[] };
                let before = bf[i];
                drain(&format!("op{i}: notification processed"), true, allowed, pf, bf, uf);
                if *st == Ist::AbDone && bf[i] != before + 1 {
                    pf.push(format!("set-up: the state of the abandoned op{i} was released {} times when its notification (the final completion) was processed", bf[i] - before));
                }
            }
            if matches!(st, Ist::AbMid | Ist::AbDone) {
                // The queued ASYNC_CANCEL is consumed now: EALREADY (only the notification is
                // outstanding) / ENOENT (finished).
                assert!(simk::with(|s| s.cq_ready()) == 0);
                setup_ring_poll(&mut ring);
                drain(&format!("op{i}: cancellation consumed"), true, &[], pf, bf, uf);
            }
        }
        if *st == Ist::Finished {
            let f = futs[i].as_mut().unwrap();
            let mut rounds = 0;
            while poll_fut(f) != 1 {
                rounds += 1;
                assert!(rounds < 3, "operation does not finish");
            }
            // The buffer goes back to the caller (read) or is dropped with the result (send).
            drain(&format!("op{i}: result taken"), false, &[(i, false)], pf, bf, uf);
        }
    }
    for (i, (_, _, st)) in p.ops.iter().enumerate() {
        if *st == Ist::Queued {
            assert_eq!(poll_fut(futs[i].as_mut().unwrap()), 0);
        }
    }
    drain("queueing", false, &[], &mut setup_problems, &mut setup_box_frees, &mut setup_buf_frees);
    let cursor = simk::with(|s| {
        assert!(s.cq_ready() == 0 && s.overflow.is_empty(), "set-up left completions behind");
        let queued = p.ops.iter().filter(|o| o.2 == Ist::Queued).count();
        assert_eq!(s.sq_pending() as usize, queued, "set-up left submissions behind");
        s.log.len()
    });
    World {
        ring: Some(ring),
        ring_fd,
        clones,
        fds,
        futs,
        boxes,
        op_bufs,
        setup_box_frees,
        setup_buf_frees,
        setup_problems,
        pools,
        bgid,
        pool_ring,
        pool_bufs,
        bufs,
        maps,
        cursor,
    }
}

fn fd_is_open(fd: i32) -> bool {
    unsafe { libc::fcntl(fd, libc::F_GETFD) != -1 }
}

struct Problems {
    /// (what, known class)
    list: Vec<(String, Option<&'static str>)>,
}

impl Problems {
    fn add(&mut self, what: String) {
        self.list.push((what, None));
    }
    fn known(&mut self, what: String, class: &'static str) {
        self.list.push((what, Some(class)));
    }
    fn verdict(self) -> (Option<String>, Option<String>) {
        if let Some((w, _)) = self.list.iter().find(|x| x.1.is_none()) {
            return (Some(w.clone()), None);
        }
        match self.list.into_iter().next() {
            Some((w, k)) => (Some(w), k.map(|s| s.to_string())),
            None => (None, None),
        }
    }
}

fn sim_case(p: &Plan, r: &mut Rng, silent: &Arc<Mutex<Option<String>>>) -> Case {
    // Strict: a free of a block that is not live (a second free) is counted.
    alloc::enable(true);
    alloc::unwatch_all();
    // Released operation states and buffers stay mapped and are never handed out again; what the
    // simulated kernel knows about a block is recorded at the moment it is released.
    alloc::quarantine(true);
    alloc::set_probe(Some(free_probe));
    let mut w = build_world(p, r);
    let mut obs: Vec<i128> = Vec::new();
    let mut pr = Problems { list: Vec::new() };
    let mut tags: Vec<String> = Vec::new();
    for f in std::mem::take(&mut w.setup_problems) {
        pr.add(f);
    }

    let mut ring_open = true; // as last observed
    let mut ring_dropped = false;
    let mut unmapped = [0usize; 3];
    // Releases during set-up count (the state of an abandoned, finished zero-copy send; the
    // buffer a finished operation handed back), but are not part of the observation.
    let mut box_frees = w.setup_box_frees.clone();
    let mut buf_frees = w.setup_buf_frees.clone();
    let mut inflight_after_ring = vec![false; p.ops.len()];
    let mut kcomplete_after_ring = false;
    let mut notif_after_ring = false;
    let mut two_step_freed_in_drain = false;
    let mut pool_frees = vec![[0usize; 2]; p.pools];
    let mut unregistered = vec![0usize; p.pools];
    let mut fd_closes = vec![0usize; p.fds];
    let mut sync_closes: Vec<usize> = Vec::new();
    let mut fd_after_ring = vec![false; p.fds];
    let mut op_dropped_running_after_ring = vec![false; p.ops.len()];
    let mut leftovers_at_ring_drop = false;
    let mut cq_head_at_unmap: Option<u32> = None;

    for ev in &p.events {
        let was_open = ring_open;
        let what = match ev {
            Event::Drop(o) => format!("dropping {}", json_obj(o)),
            Event::KComplete(o) => format!("kernel completion of op{o}"),
        };
        let _ = alloc::take_bad_frees();
        let res = catch_unwind(AssertUnwindSafe(|| match ev {
            Event::Drop(Obj::Ring) => drop(w.ring.take()),
            Event::Drop(Obj::Clone(c)) => drop(w.clones[*c].take()),
            Event::Drop(Obj::Fd(h)) => drop(w.fds[*h].take()),
            Event::Drop(Obj::Op(o)) => drop(w.futs[*o].take()),
            Event::Drop(Obj::Pool(q)) => drop(w.pools[*q].take()),
            Event::Drop(Obj::Buf(b)) => drop(w.bufs[*b].take()),
            Event::KComplete(o) => {
                // The next step of the request, if it is in flight: the result of a zero-copy
                // send whose result is due (F_MORE: it stays in flight), else the final completion
                // (the notification of a zero-copy send). Also when the Ring is gone: the
                // simulated kernel posts into its own mapping of the completion ring.
                let addr = w.boxes[*o];
                let kind = p.ops[*o].1;
                let after_ring = ring_dropped;
                let step = simk::with(|s| {
                    let q = s.inflight.iter().find(|q| (q.sqe.user_data & !1) as usize == addr)?;
                    let (req, posted) = (q.req, q.posted);
                    if kind == Kind::SendZc && posted == 0 {
                        s.complete(req, ZC_LEN as i32, abi::CQE_F_MORE);
                        Some(1)
                    } else if kind == Kind::SendZc {
                        s.complete(req, 0, abi::CQE_F_NOTIF);
                        Some(2)
                    } else {
                        s.complete(req, kernel_result(kind), 0);
                        Some(0)
                    }
                });
                if after_ring {
                    kcomplete_after_ring = true;
                    if step == Some(2) {
                        notif_after_ring = true;
                    }
                }
            }
        }));
        if res.is_err() {
            let msg = silent.lock().unwrap().take().unwrap_or_default();
            pr.add(format!("{what} panicked: {msg}"));
        }
        let bad = alloc::take_bad_frees(); // reported below, after the releases it belongs to
        ring_open = ring_open && fd_is_open(w.ring_fd);
        match ev {
            Event::Drop(Obj::Ring) => {
                ring_dropped = true;
                obs.extend([100, 0]);
            }
            Event::Drop(Obj::Clone(c)) => obs.extend([101, *c as i128]),
            Event::Drop(Obj::Fd(h)) => {
                fd_after_ring[*h] = ring_dropped;
                obs.extend([102, *h as i128]);
            }
            Event::Drop(Obj::Op(o)) => obs.extend([103, *o as i128]),
            Event::Drop(Obj::Pool(q)) => obs.extend([104, *q as i128]),
            Event::Drop(Obj::Buf(b)) => obs.extend([105, *b as i128]),
            Event::KComplete(o) => obs.extend([106, *o as i128]),
        }
        let _ = &mut op_dropped_running_after_ring;

        // What the kernel saw, in order. (The simulator logs an `enter` when it returns, after the
        // submissions it consumed: put it back in front of them.)
        let mut log: Vec<Ev> = simk::with(|s| s.log[w.cursor..].to_vec());
        w.cursor += log.len();
        let mut first_consumed: Option<usize> = None;
        for i in 0..log.len() {
            match &log[i] {
                Ev::Consumed { .. } | Ev::Posted { .. } => {
                    if first_consumed.is_none() {
                        first_consumed = Some(i);
                    }
                }
                Ev::Enter { .. } => {
                    if let Some(j) = first_consumed.take() {
                        let e = log.remove(i);
                        log.insert(j, e);
                    }
                }
                _ => first_consumed = None,
            }
        }
        for e in &log {
            match e {
                Ev::Close { .. } => pr.add(format!("{what}: the ring descriptor was closed before a later munmap / enter / register on it")),
                Ev::Corrupt { what: c } => pr.add(c.clone()),
                Ev::Enter { to_submit, flags, .. } => {
                    if !was_open {
                        pr.add(format!("{what}: io_uring_enter on the ring descriptor after it was closed"));
                    }
                    if unmapped[0] > 0 {
                        pr.add(format!("{what}: io_uring_enter (reads the submission ring) after the submission ring was unmapped"));
                    }
                    obs.extend([1, *to_submit as i128, (flags & abi::ENTER_GETEVENTS != 0) as i128]);
                }
                Ev::Consumed { sqe, .. } => {
                    if sqe.opcode == abi::OP_CLOSE && sqe.user_data == 3 {
                        // A regular descriptor is closed by number, a direct one by slot (file_index = slot + 1).
                        let (h, as_direct) = if sqe.file_index > 0 { ((sqe.file_index - 1) as usize, true) } else { ((sqe.fd - fake_fd(0)) as usize, false) };
                        if h < p.fds && p.direct[h] == as_direct {
                            fd_closes[h] += 1;
                            obs.extend([2, 0, h as i128]);
                            if as_direct {
                                simk::with(|s| {
                                    if let Some(t) = s.files.as_mut() {
                                        t[h] = -1;
                                    }
                                });
                            }
                        } else {
                            pr.add(format!("{what}: CLOSE of descriptor {} / fixed slot {} which is no AsyncFd of the case", sqe.fd, sqe.file_index as i64 - 1));
                        }
                    } else if sqe.opcode == abi::OP_ASYNC_CANCEL {
                        match w.boxes.iter().position(|a| *a == (sqe.addr & !1) as usize) {
                            Some(o) => obs.extend([2, 2, o as i128]),
                            None => pr.add(format!("{what}: cancellation of {:#x}, which is no operation of the case", sqe.addr)),
                        }
                    } else {
                        match w.boxes.iter().position(|a| *a == (sqe.user_data & !1) as usize) {
                            Some(o) => obs.extend([2, 1, o as i128]),
                            None => pr.add(format!("{what}: unexpected submission {sqe:?}")),
                        }
                    }
                }
                Ev::Register { opcode, detail, .. } => {
                    if !was_open {
                        pr.add(format!("{what}: io_uring_register on the ring descriptor after it was closed"));
                    }
                    if *opcode == abi::REGISTER_SYNC_CANCEL {
                        obs.extend([3, 0, 0]);
                    } else if *opcode == abi::UNREGISTER_PBUF_RING {
                        let id: Option<u16> = detail.strip_prefix("bgid=").and_then(|x| x.parse().ok());
                        match id.and_then(|id| w.bgid.iter().position(|g| *g == id)) {
                            Some(q) => {
                                unregistered[q] += 1;
                                let dead = simk::with(|s| s.pbuf_unregistered_after_free.contains(&w.bgid[q]));
                                if dead || pool_frees[q][0] + pool_frees[q][1] > 0 {
                                    pr.add(format!("{what}: pool{q} was unregistered after its ring memory was freed (the kernel still had it registered)"));
                                }
                                obs.extend([3, 1, q as i128]);
                            }
                            None => pr.add(format!("{what}: unregistration of an unknown buffer group ({detail})")),
                        }
                    } else if *opcode == abi::REGISTER_FILES_UPDATE || *opcode == abi::REGISTER_FILES_UPDATE2 {
                        // Synchronous close of a direct descriptor (submission queue full): "offset=<slot> fds=[-1]".
                        let slot: Option<usize> = detail.strip_prefix("offset=").and_then(|x| x.split(' ').next()).and_then(|x| x.parse().ok());
                        match slot {
                            Some(h) if detail.ends_with("fds=[-1]") && h < p.fds && p.direct[h] => sync_closes.push(h),
                            _ => pr.add(format!("{what}: io_uring_register(FILES_UPDATE, {detail}) does not clear the slot of a direct AsyncFd of the case")),
                        }
                    } else {
                        pr.add(format!("{what}: unexpected io_uring_register opcode {opcode}"));
                    }
                }
                Ev::Munmap { addr, len } => match w.maps.iter().position(|m| m.0 == *addr) {
                    Some(which) => {
                        unmapped[which] += 1;
                        if unmapped[which] > 1 {
                            pr.add(format!("{what}: mapping {which} unmapped twice"));
                        }
                        if *len != w.maps[which].1 {
                            pr.add(format!("{what}: munmap of mapping {which} with length {len}, it was mapped with length {}", w.maps[which].1));
                        }
                        if which == 2 {
                            cq_head_at_unmap = Some(simk::with(|s| s.cq_head()));
                        }
                        obs.extend([4, which as i128, *len as i128]);
                    }
                    None => pr.add(format!("{what}: munmap of {addr:#x} (+{len}), which is none of the ring's mappings")),
                },
                _ => {}
            }
        }
        // The pools' memory is the allocator's business; frees of watched blocks, in order. An
        // address can be handed out again after its first free, so only that one is counted; a
        // second free of the same block is what `take_bad_frees` reports. For the operation states
        // and their buffers (quarantined: never handed out again) the probe has recorded what the
        // simulated kernel knew at the moment of the release.
        let processing = matches!(ev, Event::Drop(Obj::Ring));
        let cq_mapped = !ring_dropped || processing; // the Ring was not dropped before this event started
        let mut bufs_now: Vec<usize> = Vec::new();
        for (a, bits) in alloc::take_freed_info() {
            if let Some(o) = w.boxes.iter().position(|x| *x == a) {
                box_frees[o] += 1;
                if let Some(f) = judge_release(p, &what, o, true, bits, processing, cq_mapped) {
                    pr.add(f);
                }
                if box_frees[o] == 1 {
                    obs.extend([5, 0, o as i128]);
                    if processing && p.two_step(o) {
                        two_step_freed_in_drain = true;
                    }
                } else {
                    pr.add(format!(
                        "{what}: the state of op{o} was released a second time (it was used after its release{})",
                        if processing { ": a completion for it was processed afterwards" } else { "" }
                    ));
                }
            } else if let Some(o) = w.op_bufs.iter().position(|x| *x != 0 && *x == a) {
                buf_frees[o] += 1;
                bufs_now.push(o);
                if let Some(f) = judge_release(p, &what, o, false, bits, processing, cq_mapped) {
                    pr.add(f);
                }
            } else if let Some(q) = w.pool_ring.iter().position(|x| *x == a) {
                pool_frees[q][0] += 1;
                if pool_frees[q][0] == 1 {
                    if simk::with(|s| s.pbufs.contains_key(&w.bgid[q])) {
                        pr.add(format!("{what}: the ring of pool{q} was freed while the kernel still has it registered"));
                    }
                    obs.extend([5, 1, q as i128]);
                }
            } else if let Some(q) = w.pool_bufs.iter().position(|x| *x == a) {
                pool_frees[q][1] += 1;
                if pool_frees[q][1] == 1 {
                    if simk::with(|s| s.pbufs.contains_key(&w.bgid[q])) {
                        pr.add(format!("{what}: the buffers of pool{q} were freed while the kernel still has them registered"));
                    }
                    obs.extend([5, 2, q as i128]);
                }
            }
        }
        if bad > 0 {
            pr.add(format!("{what}: {bad} free(s) of memory that was not allocated (double free)"));
        }
        // No future is polled during the teardown: a buffer goes with the state that owns it.
        for o in bufs_now {
            if box_frees[o] == 0 {
                pr.add(format!("{what}: the buffer owned by the state of op{o} was released, the state was not"));
            }
        }
        for h in sync_closes.drain(..) {
            fd_closes[h] += 1;
            obs.extend([6, h as i128]);
        }
        for fd in simk::take_closes() {
            let h = (fd - fake_fd(0)) as usize;
            if h < p.fds && !p.direct[h] {
                fd_closes[h] += 1;
                obs.extend([6, h as i128]);
            } else {
                pr.add(format!("{what}: close({fd}) of a descriptor that is no AsyncFd of the case"));
            }
        }
        let (inflight, ready, ovf, head) = simk::with(|s| (s.inflight.len(), s.cq_ready(), s.overflow.len(), s.cq_head()));
        obs.extend([7, ring_open as i128, inflight as i128, ready as i128, ovf as i128]);
        if let Some(h0) = cq_head_at_unmap {
            if h0 != head {
                pr.add(format!("{what}: completions were processed after the completion ring was unmapped"));
            }
        }
        if let Event::Drop(Obj::Ring) = ev {
            leftovers_at_ring_drop = ready > 0 || ovf > 0;
            // Still in flight now: only what a cancellation cannot finish (a request on a
            // descriptor the kernel does not cancel on; a zero-copy send that waits for its
            // notification) may be.
            let left: Vec<(u64, u32)> = simk::with(|s| s.inflight.iter().map(|q| (q.sqe.user_data, q.posted)).collect());
            let mut not_cancelled = 0;
            for (ud, posted) in left {
                match w.boxes.iter().position(|a| *a == (ud & !1) as usize) {
                    Some(o) => {
                        inflight_after_ring[o] = true;
                        if !(p.survives(o) || (p.two_step(o) && posted > 0)) {
                            not_cancelled += 1;
                        }
                    }
                    None => not_cancelled += 1,
                }
            }
            if not_cancelled > 0 {
                pr.add(format!("{not_cancelled} cancelable request(s) still in flight after the ring was dropped: not cancelled"));
            }
            let pending = simk::with(|s| s.sq_pending());
            if pending > 0 {
                pr.add(format!("{pending} queued submission(s) were not submitted by dropping the ring"));
            }
            if unmapped[2] != 1 {
                pr.add("dropping the ring did not unmap the completion ring".into());
            }
        }
    }

    // ---- end state --------------------------------------------------------------------------
    let names = ["submission ring", "submission entries", "completion ring"];
    for which in 0..3 {
        if unmapped[which] != 1 {
            pr.add(format!("the {} was unmapped {} times by the time everything was dropped", names[which], unmapped[which]));
        }
    }
    if ring_open {
        pr.add("the ring descriptor is still open after everything was dropped".into());
    }
    for q in 0..p.pools {
        if unregistered[q] != 1 || simk::with(|s| s.pbufs.contains_key(&w.bgid[q])) {
            pr.add(format!("pool{q} was unregistered {} times", unregistered[q]));
        }
        if pool_frees[q][0] == 0 || pool_frees[q][1] == 0 {
            pr.add(format!("pool{q}: ring freed {} times, buffers freed {} times", pool_frees[q][0], pool_frees[q][1]));
        }
    }
    let mut h13 = 0;
    for h in 0..p.fds {
        match fd_closes[h] {
            1 => {}
            0 if fd_after_ring[h] => {
                h13 += 1;
                pr.known(format!("fd{h} was dropped after the ring: its CLOSE was queued and never submitted, the descriptor is leaked"), H13);
            }
            n => pr.add(format!("descriptor of fd{h} closed {n} times")),
        }
    }
    let mut h14 = 0;
    let mut h28 = 0;
    for o in 0..p.ops.len() {
        if box_frees[o] > 0 && w.op_bufs[o] != 0 && buf_frees[o] == 0 {
            pr.add(format!("the state of op{o} was released, the buffer it owns never was"));
        }
        if box_frees[o] == 0 && buf_frees[o] > 0 && p.ops[o].2 != Ist::Finished {
            pr.add(format!("the buffer owned by the state of op{o} was released, the state never was"));
        }
        match box_frees[o] {
            0 if inflight_after_ring[o] => {
                h28 += 1;
                pr.known(
                    format!(
                        "the state (and buffer) of op{o} was never released: its request was still in flight after the Ring was dropped ({}); nobody processes its completion any more",
                        if p.survives(o) { "it survived the blanket cancellation" } else { "notification outstanding" }
                    ),
                    H28,
                );
            }
            0 if leftovers_at_ring_drop => {
                h14 += 1;
                pr.known(
                    format!("the state of op{o} was never freed: dropping the ring left completions unprocessed (completion queue of {} entries, one drain)", p.cqn),
                    H14,
                );
            }
            0 => pr.add(format!("the state of op{o} was never freed")),
            _ => {}
        }
    }
    simk::retire(w.ring_fd);
    alloc::unwatch_all();
    alloc::set_probe(None);
    alloc::quarantine(false);
    set_pairs(&[], &[]);

    tags.push(format!("sq:{}/cq:{}", p.sqn, p.cqn));
    tags.push(format!("objects:{}", 1 + p.clones + p.fds + p.ops.len() + p.pools + p.bufs.len()));
    let ring_pos = p.events.iter().filter(|e| matches!(e, Event::Drop(_))).position(|e| *e == Event::Drop(Obj::Ring)).unwrap();
    let n_drops = p.events.iter().filter(|e| matches!(e, Event::Drop(_))).count();
    tags.push(if ring_pos == 0 { "ring:first".into() } else if ring_pos + 1 == n_drops { "ring:last".into() } else { "ring:middle".into() });
    for (o, (on, _, st)) in p.ops.iter().enumerate() {
        tags.push(format!("op:{:?}", st));
        tags.push(if on.is_some() { "op:on-fd".into() } else { "op:owns-sq".into() });
        if p.two_step(o) {
            tags.push(format!("op2:{:?}", st));
            // Abandoned before its first completion: the future is dropped before the kernel took
            // any step of the request and before the Ring is dropped.
            if matches!(st, Ist::Inflight | Ist::Queued) {
                let first = p.events.iter().position(|e| matches!(e, Event::KComplete(x) if *x == o) || *e == Event::Drop(Obj::Ring) || *e == Event::Drop(Obj::Op(o)));
                if first.is_some_and(|i| p.events[i] == Event::Drop(Obj::Op(o))) {
                    tags.push("two-step:abandoned-before-first".into());
                }
            }
        }
        if p.survives(o) {
            tags.push(format!("surv:{:?}", st));
        }
        if p.refused(o) {
            tags.push(format!("refused-at-submission:{:?}", st));
            let ring_at = p.events.iter().position(|e| *e == Event::Drop(Obj::Ring));
            let op_at = p.events.iter().position(|e| *e == Event::Drop(Obj::Op(o)));
            if *st == Ist::Queued && p.ops.iter().enumerate().any(|(j, x)| j > o && x.2 == Ist::Queued && !p.refused(j)) && ring_at < op_at {
                tags.push("refused-in-front-of-a-queued-operation-at-ring-drop".into());
            }
        }
    }
    if kcomplete_after_ring {
        tags.push("kcomplete-after-ring".into());
    }
    if notif_after_ring {
        tags.push("two-step:notif-after-ring".into());
    }
    if two_step_freed_in_drain {
        tags.push("two-step:freed-in-drain".into());
    }
    if h28 > 0 {
        tags.push("h28:state-leaked".into());
    }
    if h13 > 0 {
        tags.push("h13:descriptor-leaked".into());
    }
    if h14 > 0 {
        tags.push("h14:state-leaked".into());
    }
    if leftovers_at_ring_drop {
        tags.push("drain-overflowed".into());
    }
    if p.events.iter().any(|e| matches!(e, Event::KComplete(_))) {
        tags.push("kernel-completion".into());
    }
    if !p.bufs.is_empty() {
        tags.push("readbufs".into());
    }
    tags.sort();
    tags.dedup();
    let nontrivial = n_drops >= 3;
    let (oracle, known) = pr.verdict();
    Case { coq: coq_plan(p, (w.maps[0].1, w.maps[1].1, w.maps[2].1)), obs, json: json_plan(p, "simulated"), oracle, known, tags, nontrivial }
}

// ---------------------------------------------------------------------------------------------
// Real kernel: counts only

fn fd_count() -> usize {
    std::fs::read_dir("/proc/self/fd").map(|d| d.count()).unwrap_or(0)
}

fn ring_mappings() -> usize {
    std::fs::read_to_string("/proc/self/maps").map(|t| t.lines().filter(|l| l.contains("io_uring")).count()).unwrap_or(0)
}

enum RealFut {
    Read(Pin<Box<a10::io::Read<'static, Vec<u8>>>>),
}

fn real_case(r: &mut Rng, heavy: bool) -> Case {
    a10::verif::uninstall();
    let sqn = if heavy { 2 } else { *r.pick(&[2u32, 4]) };
    let n_fds = 1 + r.below(3) as usize;
    let n_ops = if heavy { 5 + r.below(3) as usize } else { r.below(4) as usize };
    let n_pools = r.below(2) as usize;
    let clones = r.below(3) as usize;
    let mut plan = Plan { sqn, cqn: 2 * sqn, clones, fds: n_fds, direct: vec![false; n_fds], hard: vec![false; n_fds], rej: vec![false; n_fds], ops: Vec::new(), pools: n_pools, bufs: Vec::new(), events: Vec::new() };
    for _ in 0..n_ops {
        let st = if heavy { Ist::Inflight } else { *r.pick(&[Ist::NotStarted, Ist::Queued, Ist::Inflight, Ist::Inflight]) };
        plan.ops.push((Some(r.below(n_fds as u64) as usize), Kind::Read, st));
    }
    // Keep the queued ones within the queue.
    let mut queued = 0;
    for o in plan.ops.iter_mut() {
        if o.2 == Ist::Queued {
            queued += 1;
            if queued > sqn as usize {
                o.2 = Ist::Inflight;
            }
        }
    }
    for q in 0..n_pools {
        for _ in 0..r.below(3) {
            plan.bufs.push(q);
        }
    }
    let ring_bias = if r.chance(1, 2) { 1 } else { 2 };
    plan.events = gen_order(r, &plan, ring_bias).into_iter().filter(|e| matches!(e, Event::Drop(_))).collect();
    let json = json_plan(&plan, "real");

    // Warm up whatever the measurements themselves allocate, then measure.
    let _ = (fd_count(), ring_mappings());
    let mut problems: Vec<(String, Option<&'static str>)> = Vec::new();
    let ring = a10::Ring::config().with_submission_queue_size(sqn).build();
    let mut ring = match ring {
        Ok(r) => r,
        Err(e) => {
            return Case {
                coq: String::new(),
                obs: vec![],
                json: format!("{{\"kernel\":\"real\",\"note\":{}}}", out::jstr(&format!("io_uring unavailable: {e}"))),
                oracle: None,
                known: None,
                tags: vec!["real-kernel:unavailable".into()],
                nontrivial: false,
            };
        }
    };
    drop(ring);
    alloc::enable(false);
    let fds_before = fd_count();
    let maps_before = ring_mappings();
    let live_before = alloc::live();
    let mut leaked_fds_expected = 0usize;
    let mut tags_note: Option<&'static str> = None;
    {
        ring = a10::Ring::config().with_submission_queue_size(sqn).build().expect("second ring");
        let sq = ring.sq();
        let mut ring = Some(ring);
        let mut clones_v: Vec<Option<a10::SubmissionQueue>> = (0..clones).map(|_| Some(sq.clone())).collect();
        // Pipes: the read ends are the AsyncFds (reads on them stay in flight), the write ends are
        // kept by the harness.
        let mut writers: Vec<OwnedFd> = Vec::new();
        let mut fds: Vec<Option<Box<a10::AsyncFd>>> = Vec::new();
        for _ in 0..n_fds {
            let mut p2 = [0i32; 2];
            assert_eq!(unsafe { libc::pipe2(p2.as_mut_ptr(), libc::O_CLOEXEC) }, 0);
            writers.push(unsafe { OwnedFd::from_raw_fd(p2[1]) });
            fds.push(Some(Box::new(a10::AsyncFd::new(unsafe { OwnedFd::from_raw_fd(p2[0]) }, sq.clone()))));
        }
        let mut pools: Vec<Option<a10::io::ReadBufPool>> = Vec::new();
        for _ in 0..n_pools {
            pools.push(Some(a10::io::ReadBufPool::new(sq.clone(), 2, 8).expect("pool")));
        }
        let waker = Waker::noop();
        let mut ctx = Context::from_waker(waker);
        let mut bufs: Vec<Option<a10::io::ReadBuf>> = Vec::new();
        for q in &plan.bufs {
            // A real pool read from the first pipe.
            let n = unsafe { libc::write(std::os::fd::AsRawFd::as_raw_fd(&writers[0]), b"abc".as_ptr().cast(), 3) };
            assert_eq!(n, 3);
            let fd: &a10::AsyncFd = fds[0].as_ref().unwrap();
            let mut fut = Box::pin(fd.read(pools[*q].as_ref().unwrap().get()));
            let mut got = None;
            for _ in 0..200 {
                match fut.as_mut().poll(&mut ctx) {
                    Poll::Ready(res) => {
                        got = Some(res.expect("pool read"));
                        break;
                    }
                    Poll::Pending => ring.as_mut().unwrap().poll(Some(Duration::from_millis(50))).expect("poll"),
                }
            }
            bufs.push(Some(got.expect("pool read completes")));
        }
        let mut futs: Vec<Option<RealFut>> = Vec::new();
        for (on, _, _) in &plan.ops {
            let fd: &'static a10::AsyncFd = unsafe { &*(&**fds[on.unwrap()].as_ref().unwrap() as *const a10::AsyncFd) };
            futs.push(Some(RealFut::Read(Box::pin(fd.read(Vec::with_capacity(16))))));
        }
        for (i, (_, _, st)) in plan.ops.iter().enumerate() {
            if *st == Ist::Inflight {
                let Some(RealFut::Read(f)) = futs[i].as_mut() else { unreachable!() };
                assert!(f.as_mut().poll(&mut ctx).is_pending());
                ring.as_mut().unwrap().poll(Some(Duration::ZERO)).expect("poll");
            }
        }
        for (i, (_, _, st)) in plan.ops.iter().enumerate() {
            if *st == Ist::Queued {
                let Some(RealFut::Read(f)) = futs[i].as_mut() else { unreachable!() };
                assert!(f.as_mut().poll(&mut ctx).is_pending());
            }
        }
        drop(sq);
        let mut ring_dropped = false;
        let mut queued_after = 0u32;
        for ev in &plan.events {
            let res = catch_unwind(AssertUnwindSafe(|| match ev {
                Event::Drop(Obj::Ring) => drop(ring.take()),
                Event::Drop(Obj::Clone(c)) => drop(clones_v[*c].take()),
                Event::Drop(Obj::Fd(h)) => drop(fds[*h].take()),
                Event::Drop(Obj::Op(o)) => drop(futs[*o].take()),
                Event::Drop(Obj::Pool(q)) => drop(pools[*q].take()),
                Event::Drop(Obj::Buf(b)) => drop(bufs[*b].take()),
                Event::KComplete(_) => {}
            }));
            if res.is_err() {
                problems.push((format!("{ev:?} panicked"), None));
            }
            match ev {
                Event::Drop(Obj::Ring) => ring_dropped = true,
                Event::Drop(Obj::Fd(_)) if ring_dropped => {
                    // The first `sq entries` drops after the ring queue a CLOSE nobody submits.
                    if queued_after < sqn {
                        queued_after += 1;
                        leaked_fds_expected += 1;
                    }
                }
                _ => {}
            }
        }
        drop(writers);
    }
    let fds_after = fd_count();
    let maps_after = ring_mappings();
    let live_after = alloc::live();
    if maps_after != maps_before {
        problems.push((format!("{} io_uring mapping(s) left in /proc/self/maps", maps_after as i64 - maps_before as i64), None));
    }
    let extra_fds = fds_after as i64 - fds_before as i64;
    if extra_fds != 0 {
        // With more running operations than the drain handles, futures dropped after the ring are
        // still `Running`: their cancellation requests take queue slots too, and a later AsyncFd may
        // find the queue full and close synchronously.
        if extra_fds == leaked_fds_expected as i64 || (heavy && extra_fds > 0 && extra_fds <= leaked_fds_expected as i64) {
            problems.push((format!("{extra_fds} descriptor(s) left in /proc/self/fd: AsyncFds dropped after the ring"), Some(H13)));
        } else {
            problems.push((format!("{extra_fds} descriptor(s) left in /proc/self/fd ({leaked_fds_expected} AsyncFd(s) were dropped after the ring)"), None));
        }
    }
    // The real completion queue has 2 x sq entries: with no more running operations than that at
    // the ring's drop no operation state may be left.
    let running = plan.ops.iter().filter(|o| matches!(o.2, Ist::Queued | Ist::Inflight)).count();
    if live_after != live_before {
        let what = format!(
            "{} heap block(s) left allocated ({running} operations running when the ring was dropped, completion queue of {})",
            live_after as i64 - live_before as i64,
            plan.cqn
        );
        if running > plan.cqn as usize && live_after > live_before {
            problems.push((what, Some(H14)));
        } else {
            problems.push((what, None));
        }
    } else if running > plan.cqn as usize {
        tags_note = Some("real-kernel:overflow-but-no-leak");
    }
    // A leaked descriptor must not be left to the next case's count.
    let (oracle, known) = Problems { list: problems }.verdict();
    let mut tags = vec!["real-kernel".to_string()];
    if let Some(k) = &known {
        tags.push(format!("real-kernel:{k}"));
    }
    if heavy {
        tags.push("real-kernel:more-running-than-cq".into());
    }
    if let Some(n) = tags_note {
        tags.push(n.into());
    }
    Case { coq: String::new(), obs: vec![], json, oracle, known, tags, nontrivial: true }
}

pub fn run(args: &Args) -> i32 {
    simk::install();
    let silent: Arc<Mutex<Option<String>>> = Arc::new(Mutex::new(None));
    let s2 = silent.clone();
    std::panic::set_hook(Box::new(move |info| {
        *s2.lock().unwrap() = Some(info.to_string());
    }));
    let n_random = args.n.unwrap_or(if args.thorough { 20_000 } else { 1_200 });
    let n_fixed = if args.thorough { 120 } else { 0 };
    let n_fixed2 = if args.thorough { FIXED2_ORDERS * FIXED2_PLACEMENTS } else { 0 };
    let n_real = if args.thorough { 48 } else { 0 };
    let root = Rng::new(args.seed ^ 0xC12);
    let cases = out::run_forked(&args.out, n_random + n_fixed + n_fixed2 + n_real, 12, &|i| {
        let mut r = root.fork(i as u64);
        if i < n_random {
            let plan = gen_plan(&mut r);
            sim_case(&plan, &mut r, &silent)
        } else if i < n_random + n_fixed {
            match fixed_plan(i - n_random) {
                Some(plan) => {
                    let mut c = sim_case(&plan, &mut r, &silent);
                    c.tags.push("exhaustive-5".into());
                    c
                }
                None => Case {
                    coq: String::new(),
                    obs: vec![],
                    json: "{\"note\":\"order rejected by the borrow checker (future after its fd)\"}".into(),
                    oracle: None,
                    known: None,
                    tags: vec!["exhaustive-5:not-expressible".into()],
                    nontrivial: false,
                },
            }
        } else if i < n_random + n_fixed + n_fixed2 {
            let plan = fixed_plan2(i - n_random - n_fixed);
            let mut c = sim_case(&plan, &mut r, &silent);
            c.tags.push("exhaustive-zc-surv".into());
            c
        } else {
            real_case(&mut r, (i - n_random - n_fixed - n_fixed2) % 8 == 7)
        }
    });
    let _ = std::panic::take_hook();
    let spec = Spec { prop: "C12", imports: &["Model.Teardown"], run_fn: "run_tdcase", case_ty: "tdcase", shard: 400 };
    let extra = [
        ("random_cases", n_random.to_string()),
        ("exhaustive_orders", n_fixed.to_string()),
        ("exhaustive_zc_surv_cases", n_fixed2.to_string()),
        ("real_kernel_cases", n_real.to_string()),
        ("model_variant", out::jstr(if fixed_model() { "drop_ring_fixed" } else { "drop_ring (as in /repo)" })),
    ];
    out::write_all(&args.out, &spec, &cases, &extra);
    0
}

//! C17 — filesystem-watch event streams decoded exactly.
//!
//! A real `Watcher` (real `inotify_init1`, real `inotify_add_watch` on paths in a per-case
//! temporary directory, so the watch descriptors are the kernel's) on a ring of the simulated
//! kernel: the READs `Events` issues on the inotify descriptor reach the simulator, which
//! answers them from a script: batches of whole serialised `struct inotify_event` records
//! (written at the address of the READ, never more than its length), 0-byte reads and failures.
//! Everything is observed through the public API: `Events::poll_next`, `Events::path_for`,
//! `Event`'s `Debug` output (wd, mask, cookie), `Event::file_path` and the mask accessors.
//!
//! Validity clause (H10): `poll_next` returns `&'w Event`, so the loop below keeps earlier
//! events in a `Vec<&Event>` across later polls and across `drop(events)` in safe code, reads
//! them again and compares with what they showed when handed out.

use std::collections::HashMap;
use std::ffi::CString;
use std::fmt::Write as _;
use std::os::unix::ffi::OsStrExt;
use std::path::PathBuf;
use std::pin::Pin;
use std::sync::{Arc, Mutex};
use std::task::{Context, Poll};
use std::time::Duration;

use a10::fs::notify::{Event, Events, Interest, Recursive, Watcher};

use crate::out::{self, Case, Spec};
use crate::rng::Rng;
use crate::simk::{self, abi};
use crate::util::WakeLog;
use crate::Args;

// linux/inotify.h, limits.h (pinned here, independent of libc and of a10).
const IN_ACCESS: u32 = 0x1;
const IN_MODIFY: u32 = 0x2;
const IN_ATTRIB: u32 = 0x4;
const IN_CLOSE_WRITE: u32 = 0x8;
const IN_CLOSE_NOWRITE: u32 = 0x10;
const IN_OPEN: u32 = 0x20;
const IN_MOVED_FROM: u32 = 0x40;
const IN_MOVED_TO: u32 = 0x80;
const IN_CREATE: u32 = 0x100;
const IN_DELETE: u32 = 0x200;
const IN_DELETE_SELF: u32 = 0x400;
const IN_MOVE_SELF: u32 = 0x800;
const IN_UNMOUNT: u32 = 0x2000;
const IN_Q_OVERFLOW: u32 = 0x4000;
const IN_IGNORED: u32 = 0x8000;
const IN_ISDIR: u32 = 0x4000_0000;
const HDR: usize = 16;
const NAME_MAX: usize = 255;
/// Room for the largest single event: header + NAME_MAX + terminating NUL.
const BUF_SIZE: usize = HDR + NAME_MAX + 1;

#[derive(Clone, Debug)]
struct Rec {
    wd: i32,
    mask: u32,
    cookie: u32,
    name: Vec<u8>,
    pad: usize,
}

impl Rec {
    fn ser(&self) -> Vec<u8> {
        let mut v = Vec::with_capacity(HDR + self.name.len() + self.pad);
        v.extend_from_slice(&self.wd.to_le_bytes());
        v.extend_from_slice(&self.mask.to_le_bytes());
        v.extend_from_slice(&self.cookie.to_le_bytes());
        v.extend_from_slice(&((self.name.len() + self.pad) as u32).to_le_bytes());
        v.extend_from_slice(&self.name);
        v.extend(std::iter::repeat(0u8).take(self.pad));
        v
    }
    fn size(&self) -> usize {
        HDR + self.name.len() + self.pad
    }
    fn visible(&self) -> bool {
        self.mask & (IN_IGNORED | IN_Q_OVERFLOW) == 0
    }
}

#[derive(Clone, Debug)]
enum Rd {
    Batch(Vec<Rec>),
    Fail(i32),
}

/// What an event shows through the public API.
#[derive(Clone, Debug, PartialEq, Eq)]
struct Shown {
    wd: i64,
    mask: u32,
    cookie: u32,
    name: Vec<u8>,
}

#[derive(Clone, Debug, PartialEq, Eq)]
enum Got {
    Event(Shown, Vec<u8>),
    Err(i64),
    None,
    Pending,
}

fn zbytes(b: &[u8]) -> String {
    let mut s = String::from("[");
    for (i, x) in b.iter().enumerate() {
        if i > 0 {
            s.push(';');
        }
        let _ = write!(s, "{x}");
    }
    s.push(']');
    s
}

fn zint(x: i64) -> String {
    if x < 0 { format!("({x})") } else { x.to_string() }
}

fn jbytes(b: &[u8]) -> String {
    // Printable names as text, everything else as hex.
    if b.iter().all(|c| (0x20..0x7f).contains(c) && *c != b'"' && *c != b'\\') {
        format!("\"{}\"", String::from_utf8_lossy(b))
    } else {
        let mut s = String::from("\"hex:");
        for c in b {
            let _ = write!(s, "{c:02x}");
        }
        s.push('"');
        s
    }
}

/// `Event { wd: 1, mask: 256, cookie: 0, events: [..] }`
fn parse_debug(text: &str) -> Option<(i64, u32, u32)> {
    let field = |name: &str| -> Option<i64> {
        let at = text.find(name)? + name.len();
        let rest = &text[at..];
        let end = rest.find(|c: char| !(c.is_ascii_digit() || c == '-')).unwrap_or(rest.len());
        rest[..end].parse().ok()
    };
    Some((field("wd: ")?, field("mask: ")? as u32, field("cookie: ")? as u32))
}

#[allow(deprecated)]
fn show(e: &Event) -> Option<Shown> {
    let (wd, mask, cookie) = parse_debug(&format!("{e:?}"))?;
    Some(Shown { wd, mask, cookie, name: e.file_path().as_os_str().as_bytes().to_vec() })
}

/// The mask accessors against the bits of the scripted mask.
fn accessor_mismatch(e: &Event, mask: u32) -> Option<String> {
    let checks: [(&str, bool, u32); 16] = [
        ("is_dir", e.is_dir(), IN_ISDIR),
        ("accessed", e.accessed(), IN_ACCESS),
        ("modified", e.modified(), IN_MODIFY),
        ("metadata_changed", e.metadata_changed(), IN_ATTRIB),
        ("closed_write", e.closed_write(), IN_CLOSE_WRITE),
        ("closed_no_write", e.closed_no_write(), IN_CLOSE_NOWRITE),
        ("closed", e.closed(), IN_CLOSE_WRITE | IN_CLOSE_NOWRITE),
        ("opened", e.opened(), IN_OPEN),
        ("deleted", e.deleted(), IN_DELETE_SELF),
        ("moved", e.moved(), IN_MOVE_SELF),
        ("unmounted", e.unmounted(), IN_UNMOUNT),
        ("file_moved_from", e.file_moved_from(), IN_MOVED_FROM),
        ("file_moved_into", e.file_moved_into(), IN_MOVED_TO),
        ("file_moved", e.file_moved(), IN_MOVED_FROM | IN_MOVED_TO),
        ("file_created", e.file_created(), IN_CREATE),
        ("file_deleted", e.file_deleted(), IN_DELETE),
    ];
    for (name, got, bits) in checks {
        if got != (mask & bits != 0) {
            return Some(format!("Event::{name}() is {got} for mask {mask:#x}"));
        }
    }
    None
}

// ---------------------------------------------------------------------------------------------
// Generation

/// Watched paths relative to the case's directory; two of them are not valid UTF-8 (legal on Linux).
const WATCH_POOL: [&[u8]; 11] = [b"d0", b"d1/", b"d0/sub", b"f0", b"d0/", b"./d1", b"d1//", b"d0/sub/.", b"d\xe9", b"d\xe9/", b"f\xff\xfe"];

fn gen_name(r: &mut Rng) -> Vec<u8> {
    let len = match r.below(16) {
        0..=3 => 0,
        4..=6 => r.range(1, 15) as usize,
        7 => 16,
        8 => *r.pick(&[3usize, 4, 15, 17, 31, 32, 33]),
        9 => NAME_MAX,
        10 => *r.pick(&[254usize, 253, 252, 241, 240, 239]),
        11 | 12 => r.range(1, 40) as usize,
        _ => r.range(1, NAME_MAX as u64) as usize,
    };
    let style = r.below(4);
    (0..len)
        .map(|_| loop {
            let b = match style {
                0 => b'a' + r.below(26) as u8,
                1 => 0x21 + r.below(0x5e) as u8,
                2 => 1 + r.below(255) as u8,
                _ => *r.pick(&[b'.', b' ', 0x80, 0xff, 0x01, b'x', b'\\', b'\n']),
            };
            if b != 0 && b != b'/' {
                break b;
            }
        })
        .collect()
}

/// Padding: what the kernel emits (NUL terminator, rounded to 16), or any amount 0..15 (and a few
/// larger) that keeps records 4-byte aligned as the `inotify_event` header requires.
fn gen_pad(r: &mut Rng, n: usize) -> usize {
    if n == 0 {
        return 0; // no name => len = 0 (inotify(7))
    }
    let exact = (n + 1 + 15) / 16 * 16 - n;
    if r.chance(3, 5) {
        return exact;
    }
    let base = (4 - n % 4) % 4;
    let mut opts: Vec<usize> = (0..8).map(|k| base + 4 * k).filter(|p| n + p <= NAME_MAX + 1).collect();
    if opts.is_empty() {
        opts.push(exact);
    }
    *r.pick(&opts)
}

fn gen_rec(r: &mut Rng, wds: &[i32]) -> Rec {
    let known = |r: &mut Rng| -> i32 {
        if !wds.is_empty() && r.chance(5, 6) { *r.pick(wds) } else { *r.pick(&[0, 77, 1000, -5, i32::MAX, i32::MIN, 9]) }
    };
    let bits = |r: &mut Rng| -> u32 {
        match r.below(6) {
            0 => *r.pick(&[IN_CREATE, IN_DELETE, IN_MODIFY, IN_OPEN, IN_ACCESS, IN_ATTRIB, IN_MOVED_FROM, IN_MOVED_TO, IN_DELETE_SELF, IN_MOVE_SELF, IN_UNMOUNT, IN_CLOSE_WRITE, IN_CLOSE_NOWRITE]),
            1 => *r.pick(&[IN_CREATE | IN_ISDIR, IN_DELETE | IN_ISDIR, IN_OPEN | IN_ISDIR, IN_MOVED_TO | IN_ISDIR]),
            2 => u32::MAX,
            3 => 0,
            _ => r.next() as u32,
        }
    };
    match r.below(20) {
        0 | 1 => {
            // the watch was removed
            let extra = if r.chance(1, 2) { 0 } else { bits(r) };
            Rec { wd: known(r), mask: IN_IGNORED | extra, cookie: 0, name: vec![], pad: 0 }
        }
        2 => {
            let extra = if r.chance(2, 3) { 0 } else { bits(r) & !IN_IGNORED };
            Rec { wd: -1, mask: IN_Q_OVERFLOW | extra, cookie: 0, name: vec![], pad: 0 }
        }
        _ => {
            let name = gen_name(r);
            let pad = gen_pad(r, name.len());
            let cookie = if r.chance(1, 3) { r.next() as u32 } else { 0 };
            Rec { wd: known(r), mask: bits(r) & !(IN_IGNORED | IN_Q_OVERFLOW), cookie, name, pad }
        }
    }
}

fn gen_script(r: &mut Rng, wds: &[i32]) -> Vec<Rd> {
    let mut sc = Vec::new();
    let n = r.below(6);
    for _ in 0..n {
        match r.below(14) {
            0 => sc.push(Rd::Batch(vec![])),
            1 => sc.push(Rd::Fail(*r.pick(&[22, 9, 4, 4, 12, 5, 11, 125]))),
            _ => {
                let want = if r.chance(1, 4) { 20 } else { r.range(1, 5) as usize };
                let mut recs = Vec::new();
                let mut used = 0;
                for _ in 0..want {
                    let mut rec = gen_rec(r, wds);
                    if used + rec.size() > BUF_SIZE {
                        // Too big for what is left: try a small one, else the batch is full.
                        rec.name.truncate(r.below(4) as usize);
                        rec.pad = gen_pad(r, rec.name.len());
                        if used + rec.size() > BUF_SIZE {
                            break;
                        }
                    }
                    used += rec.size();
                    recs.push(rec);
                }
                sc.push(Rd::Batch(recs));
            }
        }
    }
    if r.chance(3, 5) {
        if r.chance(3, 4) { sc.push(Rd::Batch(vec![])) } else { sc.push(Rd::Fail(*r.pick(&[22, 9, 5]))) }
    }
    sc
}

// ---------------------------------------------------------------------------------------------
// One case

struct Kept<'e> {
    idx: usize,
    event: &'e Event,
    yielded_by: usize,
    due: usize,
    at_yield: Shown,
}

/// The open inotify descriptors of this process.
fn inotify_fds() -> Vec<i32> {
    let mut found = Vec::new();
    if let Ok(dir) = std::fs::read_dir("/proc/self/fd") {
        for ent in dir.flatten() {
            let Some(fd) = ent.file_name().to_str().and_then(|s| s.parse::<i32>().ok()) else { continue };
            if let Ok(link) = std::fs::read_link(ent.path()) {
                if link.as_os_str().as_bytes() == b"anon_inode:inotify" {
                    found.push(fd);
                }
            }
        }
    }
    found
}

fn one_case(r: &mut Rng, index: usize, silent_panic: &Arc<Mutex<Option<String>>>) -> Case {
    let mut oracle: Option<String> = None;
    let mut h10: Option<String> = None;
    let mut tags: Vec<String> = Vec::new();
    let mut obs: Vec<i128> = Vec::new();

    // --- the directory tree --------------------------------------------------------------------
    let tmp = format!("/tmp/a10h-c17-{}-{}", std::process::id(), index);
    let _ = std::fs::remove_dir_all(&tmp);
    std::fs::create_dir_all(format!("{tmp}/d0/sub")).unwrap();
    std::fs::create_dir_all(format!("{tmp}/d1")).unwrap();
    std::fs::write(format!("{tmp}/f0"), b"x").unwrap();
    {
        use std::os::unix::ffi::OsStringExt;
        let p = |rel: &[u8]| PathBuf::from(std::ffi::OsString::from_vec([tmp.as_bytes(), b"/", rel].concat()));
        std::fs::create_dir_all(p(b"d\xe9")).unwrap();
        std::fs::write(p(b"f\xff\xfe"), b"x").unwrap();
    }
    let prefix = format!("{tmp}/").into_bytes();

    // --- ring, watcher, watches ------------------------------------------------------------------
    simk::configure(simk::SetupConfig { cq_start: r.next() as u32, sq_start: r.next() as u32, ..Default::default() });
    let mut ring = a10::Ring::config().with_submission_queue_size(8).build().expect("ring on the simulated kernel");
    let ring_fd = simk::with(|s| s.fd);
    let before = inotify_fds();
    let mut watcher = Watcher::new(ring.sq()).expect("inotify_init1");
    let ifd = inotify_fds().into_iter().find(|fd| !before.contains(fd)).expect("the watcher's inotify descriptor");

    let n_watch = r.below(5) as usize;
    let mut watch_calls: Vec<(i32, Vec<u8>)> = Vec::new(); // (wd, relative path) in call order
    for _ in 0..n_watch {
        let rel: &[u8] = *r.pick(&WATCH_POOL);
        let full: Vec<u8> = [tmp.as_bytes(), b"/", rel].concat();
        let full_path = || {
            use std::os::unix::ffi::OsStringExt;
            PathBuf::from(std::ffi::OsString::from_vec(full.clone()))
        };
        let res = match r.below(3) {
            0 if rel[0] != b'f' => watcher.watch_directory(full_path(), Interest::ALL, Recursive::No),
            1 => watcher.watch_file(full_path(), Interest::ALL),
            _ => watcher.watch(full_path(), Interest::ALL, Recursive::No),
        };
        if std::str::from_utf8(rel).is_err() {
            tags.push("watched-path:not-utf8".into());
        }
        if let Err(e) = res {
            oracle.get_or_insert(format!("watching {:?} failed: {e}", String::from_utf8_lossy(rel)));
            continue;
        }
        // The descriptor the kernel gave this path (IN_MASK_ADD: nothing is replaced).
        let c = CString::new(full.clone()).unwrap();
        let wd = unsafe { libc::inotify_add_watch(ifd, c.as_ptr(), libc::IN_MASK_ADD | libc::IN_ACCESS) };
        assert!(wd > 0, "inotify_add_watch on {:?}", String::from_utf8_lossy(&full));
        watch_calls.push((wd, rel.to_vec()));
    }
    let mut table: HashMap<i32, Vec<u8>> = HashMap::new();
    for (wd, rel) in &watch_calls {
        table.insert(*wd, rel.clone());
    }
    let mut wds: Vec<i32> = table.keys().copied().collect();
    wds.sort_unstable();

    let script = gen_script(r, &wds);
    let extra = r.below(3) as usize;
    let n_records: usize = script.iter().map(|x| if let Rd::Batch(b) = x { b.len() } else { 0 }).sum();
    let keep: Vec<usize> = (0..n_records).map(|_| *r.pick(&[0usize, 0, 0, 1, 1, 2, 3, 100])).collect();
    let probe_after_drop = r.chance(2, 3);

    // --- expected stream (the property, stated on the script) ------------------------------------
    let mut expect: Vec<Got> = Vec::new();
    {
        let mut t = table.clone();
        let mut ended = false;
        for rd in &script {
            match rd {
                // a10's operation layer reissues a read that failed with EINTR or ECANCELED ...
                Rd::Fail(4) | Rd::Fail(125) => {}
                // ... and reports EINVAL as an error of kind Unsupported without an errno.
                Rd::Fail(e) => {
                    expect.push(Got::Err(if *e == 22 { -1 } else { *e as i64 }));
                    ended = true;
                }
                Rd::Batch(b) if b.is_empty() => {
                    expect.push(Got::None);
                    ended = true;
                }
                Rd::Batch(b) => {
                    for rec in b {
                        if rec.mask & IN_IGNORED != 0 {
                            t.remove(&rec.wd);
                        } else if rec.mask & IN_Q_OVERFLOW != 0 {
                        } else {
                            let path = match t.get(&rec.wd) {
                                None => rec.name.clone(),
                                Some(base) if rec.name.is_empty() => base.clone(),
                                Some(base) => {
                                    let mut p = base.clone();
                                    if p.last() != Some(&b'/') {
                                        p.push(b'/');
                                    }
                                    p.extend_from_slice(&rec.name);
                                    p
                                }
                            };
                            expect.push(Got::Event(Shown { wd: rec.wd as i64, mask: rec.mask, cookie: rec.cookie, name: rec.name.clone() }, path));
                        }
                    }
                }
            }
            if ended {
                break;
            }
        }
        if ended {
            for _ in 0..extra {
                expect.push(Got::None);
            }
        } else {
            expect.push(Got::Pending);
        }
    }

    // --- drive the iterator ------------------------------------------------------------------------
    let wakes = WakeLog::default();
    let waker = wakes.waker(0);
    let mut got: Vec<Got> = Vec::new();
    let mut next_read = 0usize;
    let mut buf_addr: Option<u64> = None;
    let mut reads_seen = 0usize;
    let mut done = false; // a poll returned None or an error: the iterator dropped its buffer
    let mut dangling: Vec<usize> = Vec::new();
    let mut changed = 0usize;
    let mut kept: Vec<Kept<'_>> = Vec::new();
    let mut events: Events<'_> = watcher.events();
    let mut ev_idx = 0usize;
    let mut extra_left = extra;
    let mut poll_no = 0usize;
    let mut after_drop: Vec<Kept<'_>> = Vec::new();
    loop {
        // One `next()`: poll until ready, the simulated kernel answering READs from the script.
        let mut lens: Vec<u32> = Vec::new();
        let mut guard = 0;
        let item: Got;
        let mut fresh: Option<&Event> = None;
        loop {
            guard += 1;
            if guard > 64 {
                oracle.get_or_insert("poll_next kept returning Pending although its READ was completed".into());
                item = Got::Pending;
                break;
            }
            let mut ctx = Context::from_waker(&waker);
            let res = std::panic::catch_unwind(std::panic::AssertUnwindSafe(|| Pin::new(&mut events).poll_next(&mut ctx)));
            let res = match res {
                Ok(x) => x,
                Err(_) => {
                    let msg = silent_panic.lock().unwrap().take().unwrap_or_default();
                    oracle.get_or_insert(format!("poll_next panicked: {msg}"));
                    item = Got::Pending;
                    break;
                }
            };
            match res {
                Poll::Ready(Some(Ok(e))) => {
                    match show(e) {
                        Some(s) => {
                            let path = events.path_for(e).as_os_str().as_bytes().to_vec();
                            let path = path.strip_prefix(&prefix[..]).map(|p| p.to_vec()).unwrap_or(path);
                            item = Got::Event(s, path);
                        }
                        None => {
                            oracle.get_or_insert(format!("cannot read wd/mask/cookie from {e:?}"));
                            item = Got::Pending;
                        }
                    }
                    fresh = Some(e);
                    break;
                }
                Poll::Ready(Some(Err(e))) => {
                    item = Got::Err(e.raw_os_error().unwrap_or(-1) as i64);
                    break;
                }
                Poll::Ready(None) => {
                    item = Got::None;
                    break;
                }
                Poll::Pending => {}
            }
            // Let the kernel see the READ.
            if let Err(e) = ring.poll(Some(Duration::ZERO)) {
                oracle.get_or_insert(format!("Ring::poll failed: {e}"));
            }
            let req = simk::with(|s| s.inflight.iter().find(|q| q.sqe.opcode == abi::OP_READ).map(|q| (q.req, q.sqe)));
            let Some((req, sqe)) = req else {
                oracle.get_or_insert("poll_next is pending but no READ is in flight".into());
                item = Got::Pending;
                break;
            };
            reads_seen += 1;
            lens.push(sqe.len);
            if sqe.fd != ifd {
                oracle.get_or_insert(format!("READ on descriptor {} instead of the inotify descriptor {ifd}", sqe.fd));
            }
            if (sqe.len as usize) < BUF_SIZE {
                oracle.get_or_insert(format!("READ buffer of {} bytes cannot hold the largest event ({BUF_SIZE} bytes): the kernel would fail the read with EINVAL", sqe.len));
            }
            if sqe.addr % 4 != 0 {
                oracle.get_or_insert("READ buffer is not aligned for struct inotify_event".into());
            }
            match buf_addr {
                None => buf_addr = Some(sqe.addr),
                Some(a) if a != sqe.addr => tags.push("buffer_moved".into()),
                _ => {}
            }
            let Some(rd) = script.get(next_read) else {
                item = Got::Pending; // nothing more will arrive
                break;
            };
            next_read += 1;
            let res: i32 = match rd {
                Rd::Fail(e) => -*e,
                Rd::Batch(recs) => {
                    // read(2) on inotify: as many whole events as fit, EINVAL if not even one.
                    let mut bytes: Vec<u8> = Vec::new();
                    let mut short = false;
                    for rec in recs {
                        if bytes.len() + rec.size() > sqe.len as usize {
                            short = true;
                            break;
                        }
                        bytes.extend_from_slice(&rec.ser());
                    }
                    if short && bytes.is_empty() {
                        -22
                    } else {
                        if short {
                            oracle.get_or_insert("a scripted batch did not fit the READ".into());
                        }
                        unsafe { std::ptr::copy_nonoverlapping(bytes.as_ptr(), sqe.addr as usize as *mut u8, bytes.len()) };
                        bytes.len() as i32
                    }
                }
            };
            simk::with(|s| s.complete(req, res, 0));
            if let Err(e) = ring.poll(Some(Duration::ZERO)) {
                oracle.get_or_insert(format!("Ring::poll failed: {e}"));
            }
        }

        // observation of this poll
        obs.push(lens.len() as i128);
        obs.extend(lens.iter().map(|l| *l as i128));
        match &item {
            Got::Event(s, path) => {
                obs.push(1);
                obs.push(s.wd as i128);
                obs.push(s.mask as i128);
                obs.push(s.cookie as i128);
                obs.push(s.name.len() as i128);
                obs.extend(s.name.iter().map(|b| *b as i128));
                obs.push(path.len() as i128);
                obs.extend(path.iter().map(|b| *b as i128));
            }
            Got::Err(e) => {
                obs.push(2);
                obs.push(*e as i128);
            }
            Got::None => obs.push(3),
            Got::Pending => obs.push(4),
        }
        if let (Some(e), Got::Event(s, _)) = (fresh, &item) {
            if let Some(what) = accessor_mismatch(e, s.mask) {
                oracle.get_or_insert(what);
            }
            let k = keep.get(ev_idx).copied().unwrap_or(0);
            if k > 0 {
                kept.push(Kept { idx: ev_idx, event: e, yielded_by: poll_no, due: poll_no + k, at_yield: s.clone() });
            }
            ev_idx += 1;
        }
        if matches!(item, Got::None | Got::Err(_)) {
            done = true;
        }
        let last = match &item {
            Got::Event(..) => {
                if got.len() > 2000 {
                    oracle.get_or_insert("more than 2000 events handed out".into());
                }
                got.len() > 2000
            }
            Got::Pending => true,
            _ => {
                if extra_left == 0 {
                    true
                } else {
                    extra_left -= 1;
                    false
                }
            }
        };
        got.push(item);

        // Earlier events, read again through the references kept in safe code.
        let mut still = Vec::new();
        for k in kept.drain(..) {
            if !(last || k.due <= poll_no) {
                still.push(k);
                continue;
            }
            if done {
                // The iterator has dropped its buffer: the reference dangles; not read here.
                obs.push(7);
                obs.push(k.idx as i128);
                dangling.push(k.idx);
                after_drop.push(k);
                continue;
            }
            match show(k.event) {
                Some(now) => {
                    obs.push(6);
                    obs.push(k.idx as i128);
                    obs.push(now.wd as i128);
                    obs.push(now.mask as i128);
                    obs.push(now.cookie as i128);
                    obs.push(now.name.len() as i128);
                    obs.extend(now.name.iter().map(|b| *b as i128));
                    if now != k.at_yield {
                        changed += 1;
                        h10.get_or_insert(format!(
                            "event #{} handed out by poll_next read wd={} mask={:#x} name={}; the same reference after {} more poll(s) reads wd={} mask={:#x} name={} (the read buffer it points into was reused)",
                            k.idx, k.at_yield.wd, k.at_yield.mask, jbytes(&k.at_yield.name), poll_no - k.yielded_by, now.wd, now.mask, jbytes(&now.name)
                        ));
                    }
                }
                None => {
                    oracle.get_or_insert("cannot read an earlier event again".into());
                }
            }
            if last {
                after_drop.push(k);
            }
        }
        kept = still;
        poll_no += 1;
        if last {
            break;
        }
    }
    let ended_pending = matches!(got.last(), Some(Got::Pending));

    // --- the iterator goes away; the references do not ---------------------------------------------
    drop(events);
    let mut uaf_confirmed = false;
    if probe_after_drop && !ended_pending && !after_drop.is_empty() {
        if let Some(addr) = buf_addr {
            // The block the events point into was freed with the iterator (or when it finished):
            // ask the allocator for blocks of the same size until it hands that address out again.
            let mut probes: Vec<Vec<u8>> = Vec::new();
            for _ in 0..64 {
                let v = vec![0xEEu8; BUF_SIZE];
                let hit = v.as_ptr() as u64 == addr;
                probes.push(v);
                if hit {
                    uaf_confirmed = true;
                    break;
                }
            }
            if uaf_confirmed {
                let k = &after_drop[0];
                #[allow(deprecated)]
                let name_now = k.event.file_path().as_os_str().as_bytes().to_vec();
                h10.get_or_insert(format!(
                    "event #{} (name {}) is still borrowed after its iterator was dropped; its buffer has been freed and the allocator handed the same block to an unrelated Vec filled with 0xee: the event's name now reads {}",
                    k.idx, jbytes(&k.at_yield.name), jbytes(&name_now)
                ));
            }
            drop(probes);
        }
    }
    if !dangling.is_empty() && h10.is_none() {
        h10 = Some(format!(
            "event #{} is still borrowed after poll_next returned the end of the stream, which dropped the buffer it points into",
            dangling[0]
        ));
    }
    drop(after_drop);
    drop(kept);

    // --- oracle: exactly the user-visible records, in order -----------------------------------------
    if oracle.is_none() && got != expect {
        let k = got.iter().zip(expect.iter()).take_while(|(a, b)| a == b).count();
        oracle = Some(format!(
            "poll #{k}: expected {}, got {} ({} items expected, {} handed out)",
            expect.get(k).map(|g| describe(g)).unwrap_or_else(|| "nothing more".into()),
            got.get(k).map(|g| describe(g)).unwrap_or_else(|| "nothing more".into()),
            expect.len(),
            got.len()
        ));
    }

    // --- teardown ----------------------------------------------------------------------------------
    let _ = ring.poll(Some(Duration::ZERO));
    let _ = ring.poll(Some(Duration::ZERO));
    drop(watcher);
    let _ = ring.poll(Some(Duration::ZERO));
    if std::fs::read_link(format!("/proc/self/fd/{ifd}")).map(|l| l.as_os_str().as_bytes() == b"anon_inode:inotify").unwrap_or(false) {
        unsafe { libc::close(ifd) }; // the simulated kernel records CLOSE requests, it does not run them
    }
    let _ = std::panic::catch_unwind(std::panic::AssertUnwindSafe(move || drop(ring)));
    simk::retire(ring_fd);
    let _ = std::fs::remove_dir_all(&tmp);

    // --- case rendering ------------------------------------------------------------------------------
    let mut coq = String::from("mk_case [");
    let mut json = String::from("{\"watches\":[");
    for (i, (wd, rel)) in watch_calls.iter().enumerate() {
        if i > 0 {
            coq.push_str("; ");
            json.push(',');
        }
        let _ = write!(coq, "({wd}, {})", zbytes(rel));
        let _ = write!(json, "{{\"wd\":{wd},\"path\":{}}}", jbytes(rel));
    }
    coq.push_str("] [");
    json.push_str("],\"reads\":[");
    for (i, rd) in script.iter().enumerate() {
        if i > 0 {
            coq.push_str("; ");
            json.push(',');
        }
        match rd {
            Rd::Fail(e) => {
                let _ = write!(coq, "Fail {e}");
                let _ = write!(json, "{{\"errno\":{e}}}");
            }
            Rd::Batch(recs) => {
                coq.push_str("Batch [");
                json.push('[');
                for (j, rec) in recs.iter().enumerate() {
                    if j > 0 {
                        coq.push_str("; ");
                        json.push(',');
                    }
                    let _ = write!(coq, "mk_rec {} {} {} {} {}", zint(rec.wd as i64), rec.mask, rec.cookie, zbytes(&rec.name), rec.pad);
                    let _ = write!(json, "{{\"wd\":{},\"mask\":{},\"cookie\":{},\"name\":{},\"pad\":{}}}", rec.wd, rec.mask, rec.cookie, jbytes(&rec.name), rec.pad);
                }
                coq.push(']');
                json.push(']');
            }
        }
    }
    let keep_z: Vec<String> = keep.iter().map(|k| k.to_string()).collect();
    let _ = write!(coq, "] {extra} [{}]", keep_z.join(";"));
    let _ = write!(json, "],\"polls_after_end\":{extra},\"keep\":[{}],\"probe_after_drop\":{probe_after_drop}}}", keep_z.join(","));

    let visible = script.iter().map(|x| if let Rd::Batch(b) = x { b.iter().filter(|r| r.visible()).count() } else { 0 }).sum::<usize>();
    tags.push(format!("watches:{}", watch_calls.len()));
    tags.push(format!("reads:{}", reads_seen.min(6)));
    tags.push(format!("records:{}", match n_records { 0 => "0", 1..=3 => "1-3", 4..=10 => "4-10", _ => "11+" }));
    tags.push(format!("end:{}", match got.last() { Some(Got::Pending) => "pending", Some(Got::None) => "eof", Some(Got::Err(_)) => "error", _ => "event" }));
    tags.push(format!("has_ignored:{}", script.iter().any(|x| matches!(x, Rd::Batch(b) if b.iter().any(|r| r.mask & IN_IGNORED != 0)))));
    tags.push(format!("has_overflow:{}", script.iter().any(|x| matches!(x, Rd::Batch(b) if b.iter().any(|r| r.mask & IN_IGNORED == 0 && r.mask & IN_Q_OVERFLOW != 0)))));
    tags.push(format!("name255:{}", script.iter().any(|x| matches!(x, Rd::Batch(b) if b.iter().any(|r| r.name.len() == NAME_MAX)))));
    tags.push(format!("non_kernel_pad:{}", script.iter().any(|x| matches!(x, Rd::Batch(b) if b.iter().any(|r| !r.name.is_empty() && r.pad != (r.name.len() + 16) / 16 * 16 - r.name.len())))));
    tags.push(format!("kept_changed:{}", changed.min(3)));
    tags.push(format!("kept_dangling:{}", dangling.len().min(3)));
    tags.push(format!("uaf_confirmed:{uaf_confirmed}"));

    let (oracle, known) = match (oracle, h10) {
        (Some(o), _) => (Some(o), None),
        (None, Some(h)) => (Some(h), Some("event-ref-outlives-buffer".to_string())),
        (None, None) => (None, None),
    };
    Case { coq, obs, json, oracle, known, tags, nontrivial: visible >= 1 || n_records >= 2 }
}

fn describe(g: &Got) -> String {
    match g {
        Got::Event(s, path) => format!("event wd={} mask={:#x} cookie={} name={} path={}", s.wd, s.mask, s.cookie, jbytes(&s.name), jbytes(path)),
        Got::Err(e) => format!("error {e}"),
        Got::None => "None".into(),
        Got::Pending => "Pending".into(),
    }
}

const WATCHDOG_SECS: u32 = 4;
const MAX_HANGS: u64 = 6;
static HANG_FILE: std::sync::OnceLock<CString> = std::sync::OnceLock::new();

extern "C" fn on_alarm(_: libc::c_int) {
    // Only async-signal-safe calls.
    unsafe {
        if let Some(p) = HANG_FILE.get() {
            let fd = libc::open(p.as_ptr(), libc::O_WRONLY | libc::O_CREAT | libc::O_APPEND, 0o644);
            if fd >= 0 {
                libc::write(fd, b"x".as_ptr().cast(), 1);
                libc::close(fd);
            }
        }
        libc::signal(libc::SIGALRM, libc::SIG_DFL);
        libc::raise(libc::SIGALRM);
    }
}

pub fn run(args: &Args) -> i32 {
    assert_eq!(std::mem::size_of::<libc::inotify_event>(), HDR);
    assert_eq!(libc::IN_IGNORED, IN_IGNORED);
    assert_eq!(libc::IN_Q_OVERFLOW, IN_Q_OVERFLOW);
    simk::install();
    let silent: Arc<Mutex<Option<String>>> = Arc::new(Mutex::new(None));
    let s2 = silent.clone();
    std::panic::set_hook(Box::new(move |info| {
        if std::env::var_os("A10H_DEBUG").is_some() {
            eprintln!("{info}");
        }
        *s2.lock().unwrap() = Some(info.to_string());
    }));
    let n = args.n.unwrap_or(if args.thorough { 30_000 } else { 1_500 });
    let root = Rng::new(args.seed);
    // Watchdog: a decoder that stops advancing must cost a few cases, not the run. SIGALRM notes the
    // hang in a file and ends the worker process (the case is reported as died with signal 14);
    // after MAX_HANGS of them the remaining cases are reported as not run.
    let hang_file = format!("{}/.c17_hangs", args.out);
    let _ = std::fs::remove_file(&hang_file);
    HANG_FILE.set(CString::new(hang_file.clone()).unwrap()).ok();
    unsafe { libc::signal(libc::SIGALRM, on_alarm as usize) };
    let cases = out::run_forked(&args.out, n, 12, &|i| {
        let hangs = std::fs::metadata(&hang_file).map(|m| m.len()).unwrap_or(0);
        if hangs >= MAX_HANGS {
            return Case {
                coq: String::new(),
                obs: vec![],
                json: format!("{{\"case_index\":{i},\"note\":\"regenerate with the same seed\"}}"),
                oracle: Some(format!("not run: {hangs} earlier cases did not come back from poll_next within {WATCHDOG_SECS} s")),
                known: None,
                tags: vec!["not_run_after_hangs".into()],
                nontrivial: false,
            };
        }
        let mut r = root.fork(i as u64);
        unsafe { libc::alarm(WATCHDOG_SECS) };
        let c = one_case(&mut r, i, &silent);
        unsafe { libc::alarm(0) };
        c
    });
    unsafe { libc::signal(libc::SIGALRM, libc::SIG_DFL) };
    let _ = std::fs::remove_file(&hang_file);
    let _ = std::panic::take_hook();
    let spec = Spec { prop: "C17", imports: &["Model.Inotify"], run_fn: "run_incase", case_ty: "incase", shard: 250 };
    out::write_all(&args.out, &spec, &cases, &[]);
    0
}

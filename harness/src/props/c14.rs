//! C14 — buffer trait laws. Drives the real `Buf`/`BufMut`/`BufSlice`/`BufMutSlice`
//! implementations and `LimitedBuf` on real allocations.

use std::borrow::Cow;
use std::fmt::Write as _;
use std::sync::Arc;

use a10::io::{Buf, BufMut, BufMutSlice, BufSlice, LimitedBuf, StaticBuf};
use a10::verif::{io_mut_slice_parts, io_slice_parts};

use crate::out::{self, Case, Spec};
use crate::rng::Rng;
use crate::Args;

#[derive(Clone, Copy, Debug)]
enum Op {
    Query,
    SetInit(usize),
}

/// What the model needs to know about one buffer.
#[derive(Clone, Copy, Debug)]
struct Shape {
    base: usize,
    len: usize,
    cap: usize,
}

// ---------------------------------------------------------------------------------------
// Dynamic views over the statically typed trait objects.

trait DynBuf {
    fn parts(&self) -> (usize, usize);
    /// `Buf::as_slice` as (pointer, length); `None` when the call panics.
    fn as_slice_pair(&self) -> Option<(usize, usize)>;
    fn len(&self) -> usize;
    fn is_empty(&self) -> bool;
}
impl<T: Buf> DynBuf for T {
    fn parts(&self) -> (usize, usize) {
        let (p, l) = unsafe { Buf::parts(self) };
        (p as usize, l as usize)
    }
    fn as_slice_pair(&self) -> Option<(usize, usize)> {
        std::panic::catch_unwind(std::panic::AssertUnwindSafe(|| {
            let s = Buf::as_slice(self);
            (s.as_ptr() as usize, s.len())
        }))
        .ok()
    }
    fn len(&self) -> usize {
        Buf::len(self)
    }
    fn is_empty(&self) -> bool {
        Buf::is_empty(self)
    }
}

trait DynSlice {
    fn iovecs(&self) -> Vec<(usize, usize)>;
    fn total_len(&self) -> usize;
    fn is_empty(&self) -> bool;
}
struct W<T, const N: usize>(T);
impl<T: BufSlice<N>, const N: usize> DynSlice for W<T, N> {
    fn iovecs(&self) -> Vec<(usize, usize)> {
        unsafe { self.0.as_iovecs() }
            .iter()
            .map(|s| {
                let (p, l) = io_slice_parts(s);
                (p as usize, l)
            })
            .collect()
    }
    fn total_len(&self) -> usize {
        self.0.total_len()
    }
    fn is_empty(&self) -> bool {
        self.0.is_empty()
    }
}

trait IntoLens {
    fn into_lens(self) -> Vec<usize>;
}
impl IntoLens for Vec<u8> {
    fn into_lens(self) -> Vec<usize> {
        vec![self.len()]
    }
}
impl<const N: usize> IntoLens for [Vec<u8>; N] {
    fn into_lens(self) -> Vec<usize> {
        self.iter().map(Vec::len).collect()
    }
}
impl<T: IntoLens> IntoLens for LimitedBuf<T> {
    fn into_lens(self) -> Vec<usize> {
        self.into_inner().into_lens()
    }
}
macro_rules! tuple_lens {
    ($( $idx:tt ),+) => {
        impl IntoLens for ( $( tuple_lens!(@ty $idx) ),+ ) {
            fn into_lens(self) -> Vec<usize> { vec![ $( self.$idx.len() ),+ ] }
        }
    };
    (@ty $idx:tt) => { Vec<u8> };
}
tuple_lens!(0, 1);
tuple_lens!(0, 1, 2);
tuple_lens!(0, 1, 2, 3);
tuple_lens!(0, 1, 2, 3, 4);
tuple_lens!(0, 1, 2, 3, 4, 5);
tuple_lens!(0, 1, 2, 3, 4, 5, 6);
tuple_lens!(0, 1, 2, 3, 4, 5, 6, 7);

trait DynMut {
    fn parts_mut(&mut self) -> (usize, usize);
    fn set_init(&mut self, n: usize);
    fn spare(&self) -> usize;
    fn has_spare(&self) -> bool;
    fn into_lens(self: Box<Self>) -> Vec<usize>;
}
impl<T: BufMut + IntoLens> DynMut for T {
    fn parts_mut(&mut self) -> (usize, usize) {
        let (p, l) = unsafe { BufMut::parts_mut(self) };
        (p as usize, l as usize)
    }
    fn set_init(&mut self, n: usize) {
        unsafe { BufMut::set_init(self, n) }
    }
    fn spare(&self) -> usize {
        self.spare_capacity() as usize
    }
    fn has_spare(&self) -> bool {
        self.has_spare_capacity()
    }
    fn into_lens(self: Box<Self>) -> Vec<usize> {
        IntoLens::into_lens(*self)
    }
}

trait DynMutSlice {
    fn iovecs_mut(&mut self) -> Vec<(usize, usize)>;
    fn set_init(&mut self, n: usize);
    fn total_spare(&self) -> usize;
    fn has_spare(&self) -> bool;
    fn into_lens(self: Box<Self>) -> Vec<usize>;
}
impl<T: BufMutSlice<N> + IntoLens, const N: usize> DynMutSlice for W<T, N> {
    fn iovecs_mut(&mut self) -> Vec<(usize, usize)> {
        unsafe { self.0.as_iovecs_mut() }
            .iter()
            .map(|s| {
                let (p, l) = io_mut_slice_parts(s);
                (p as usize, l)
            })
            .collect()
    }
    fn set_init(&mut self, n: usize) {
        unsafe { BufMutSlice::set_init(&mut self.0, n) }
    }
    fn total_spare(&self) -> usize {
        self.0.total_spare_capacity() as usize
    }
    fn has_spare(&self) -> bool {
        BufMutSlice::has_spare_capacity(&self.0)
    }
    fn into_lens(self: Box<Self>) -> Vec<usize> {
        IntoLens::into_lens(self.0)
    }
}

// ---------------------------------------------------------------------------------------
// Construction.

fn pattern(i: usize) -> u8 {
    b'a' + (i % 23) as u8
}

fn make_vec(len: usize, cap: usize) -> Vec<u8> {
    let mut v = Vec::with_capacity(cap.max(len));
    v.extend((0..len).map(pattern));
    v
}

const BUF_KINDS: usize = 12;
const BUF_KIND_NAMES: [&str; BUF_KINDS] = [
    "Vec<u8>", "Box<[u8]>", "String", "Box<str>", "&'static [u8]", "&'static str",
    "Cow<[u8]>::Owned", "Cow<[u8]>::Borrowed", "Cow<str>", "Arc<[u8]>", "Arc<str>", "StaticBuf",
];

fn bytes(len: usize) -> Vec<u8> {
    (0..len).map(pattern).collect()
}

/// Builds a single `Buf` of kind `k`, optionally limited, and returns it with its shape.
fn make_buf(k: usize, len: usize, cap: usize, limit: Option<usize>) -> (Box<dyn DynBuf>, Shape) {
    fn fin<T: Buf>(b: T, base: usize, len: usize, cap: usize, limit: Option<usize>) -> (Box<dyn DynBuf>, Shape) {
        let shape = Shape { base, len, cap };
        match limit {
            None => (Box::new(b), shape),
            Some(l) => (Box::new(b.limit(l)), shape),
        }
    }
    let s = String::from_utf8(bytes(len)).unwrap();
    match k {
        0 => {
            let v = make_vec(len, cap);
            let (b, c) = (v.as_ptr() as usize, v.capacity());
            fin(v, b, len, c, limit)
        }
        1 => {
            let v: Box<[u8]> = bytes(len).into_boxed_slice();
            let b = v.as_ptr() as usize;
            fin(v, b, len, len, limit)
        }
        2 => {
            let b = s.as_ptr() as usize;
            let c = s.capacity();
            fin(s, b, len, c, limit)
        }
        3 => {
            let v: Box<str> = s.into_boxed_str();
            let b = v.as_ptr() as usize;
            fin(v, b, len, len, limit)
        }
        4 => {
            let v: &'static [u8] = Box::leak(bytes(len).into_boxed_slice());
            fin(v, v.as_ptr() as usize, len, len, limit)
        }
        5 => {
            let v: &'static str = Box::leak(s.into_boxed_str());
            fin(v, v.as_ptr() as usize, len, len, limit)
        }
        6 => {
            let v: Cow<'static, [u8]> = Cow::Owned(bytes(len));
            let b = v.as_ptr() as usize;
            fin(v, b, len, len, limit)
        }
        7 => {
            let r: &'static [u8] = Box::leak(bytes(len).into_boxed_slice());
            let v: Cow<'static, [u8]> = Cow::Borrowed(r);
            fin(v, r.as_ptr() as usize, len, len, limit)
        }
        8 => {
            let v: Cow<'static, str> = Cow::Owned(s);
            let b = v.as_ptr() as usize;
            fin(v, b, len, len, limit)
        }
        9 => {
            let v: Arc<[u8]> = Arc::from(bytes(len));
            let b = v.as_ptr() as usize;
            fin(v, b, len, len, limit)
        }
        10 => {
            let v: Arc<str> = Arc::from(s);
            let b = v.as_ptr() as usize;
            fin(v, b, len, len, limit)
        }
        _ => {
            let r: &'static [u8] = Box::leak(bytes(len).into_boxed_slice());
            fin(StaticBuf::from(r), r.as_ptr() as usize, len, len, limit)
        }
    }
}

fn shapes_of(vs: &[Vec<u8>]) -> Vec<Shape> {
    vs.iter()
        .map(|v| Shape { base: v.as_ptr() as usize, len: v.len(), cap: v.capacity() })
        .collect()
}

fn make_mslice(vs: Vec<Vec<u8>>, tuple: bool, limit: Option<usize>) -> Box<dyn DynMutSlice> {
    fn fin<T: BufMutSlice<N> + IntoLens, const N: usize>(t: T, limit: Option<usize>) -> Box<dyn DynMutSlice> {
        match limit {
            None => Box::new(W::<T, N>(t)),
            Some(l) => Box::new(W::<LimitedBuf<T>, N>(BufMutSlice::limit(t, l))),
        }
    }
    macro_rules! arr {
        ($n:literal) => {{
            let a: [Vec<u8>; $n] = vs.try_into().unwrap();
            fin::<_, $n>(a, limit)
        }};
    }
    macro_rules! tup {
        ($n:literal, $( $i:tt ),+) => {{
            let mut it = vs.into_iter();
            let t = ( $( { let _ = $i; it.next().unwrap() } ),+ );
            fin::<_, $n>(t, limit)
        }};
    }
    match (vs.len(), tuple) {
        (1, _) => arr!(1),
        (2, false) => arr!(2),
        (3, false) => arr!(3),
        (4, false) => arr!(4),
        (5, false) => arr!(5),
        (6, false) => arr!(6),
        (7, false) => arr!(7),
        (8, false) => arr!(8),
        (2, true) => tup!(2, 0, 1),
        (3, true) => tup!(3, 0, 1, 2),
        (4, true) => tup!(4, 0, 1, 2, 3),
        (5, true) => tup!(5, 0, 1, 2, 3, 4),
        (6, true) => tup!(6, 0, 1, 2, 3, 4, 5),
        (7, true) => tup!(7, 0, 1, 2, 3, 4, 5, 6),
        (8, true) => tup!(8, 0, 1, 2, 3, 4, 5, 6, 7),
        _ => unreachable!(),
    }
}

/// Read-only slices: arrays of `Vec<u8>`, or tuples with a fixed rotation of element types.
fn make_slice(lens: &[(usize, usize)], tuple: bool, limit: Option<usize>) -> (Box<dyn DynSlice>, Vec<Shape>) {
    fn fin<T: BufSlice<N>, const N: usize>(t: T, limit: Option<usize>) -> Box<dyn DynSlice> {
        match limit {
            None => Box::new(W::<T, N>(t)),
            Some(l) => Box::new(W::<LimitedBuf<T>, N>(BufSlice::limit(t, l))),
        }
    }
    let n = lens.len();
    if !tuple || n == 1 {
        let vs: Vec<Vec<u8>> = lens.iter().map(|&(l, c)| make_vec(l, c)).collect();
        let shapes = shapes_of(&vs);
        macro_rules! arr {
            ($n:literal) => {{
                let a: [Vec<u8>; $n] = vs.try_into().unwrap();
                fin::<_, $n>(a, limit)
            }};
        }
        let b = match n {
            1 => arr!(1),
            2 => arr!(2),
            3 => arr!(3),
            4 => arr!(4),
            5 => arr!(5),
            6 => arr!(6),
            7 => arr!(7),
            _ => arr!(8),
        };
        return (b, shapes);
    }
    // Mixed tuple: (Vec<u8>, Box<[u8]>, String, &'static [u8], Arc<[u8]>, Cow<[u8]>, StaticBuf, Box<str>).
    let mut shapes = Vec::new();
    let e0 = make_vec(lens[0].0, lens[0].1);
    shapes.push(Shape { base: e0.as_ptr() as usize, len: e0.len(), cap: e0.capacity() });
    let e1: Box<[u8]> = bytes(lens[1].0).into_boxed_slice();
    shapes.push(Shape { base: e1.as_ptr() as usize, len: lens[1].0, cap: lens[1].0 });
    macro_rules! next {
        ($i:expr, $e:expr) => {{
            let e = $e;
            let (p, l) = unsafe { Buf::parts(&e) };
            let _ = l;
            shapes.push(Shape { base: p as usize, len: lens[$i].0, cap: lens[$i].0 });
            e
        }};
    }
    if n == 2 {
        return (fin::<_, 2>((e0, e1), limit), shapes);
    }
    let e2 = next!(2, String::from_utf8(bytes(lens[2].0)).unwrap());
    if n == 3 {
        return (fin::<_, 3>((e0, e1, e2), limit), shapes);
    }
    let e3 = next!(3, { let r: &'static [u8] = Box::leak(bytes(lens[3].0).into_boxed_slice()); r });
    if n == 4 {
        return (fin::<_, 4>((e0, e1, e2, e3), limit), shapes);
    }
    let e4 = next!(4, { let a: Arc<[u8]> = Arc::from(bytes(lens[4].0)); a });
    if n == 5 {
        return (fin::<_, 5>((e0, e1, e2, e3, e4), limit), shapes);
    }
    let e5 = next!(5, { let c: Cow<'static, [u8]> = Cow::Owned(bytes(lens[5].0)); c });
    if n == 6 {
        return (fin::<_, 6>((e0, e1, e2, e3, e4, e5), limit), shapes);
    }
    let e6 = next!(6, { let r: &'static [u8] = Box::leak(bytes(lens[6].0).into_boxed_slice()); StaticBuf::from(r) });
    if n == 7 {
        return (fin::<_, 7>((e0, e1, e2, e3, e4, e5, e6), limit), shapes);
    }
    let e7 = next!(7, String::from_utf8(bytes(lens[7].0)).unwrap().into_boxed_str());
    (fin::<_, 8>((e0, e1, e2, e3, e4, e5, e6, e7), limit), shapes)
}

// ---------------------------------------------------------------------------------------
// Running one case, observing, and checking the laws directly (oracle).

struct Obs {
    obs: Vec<i128>,
    oracle: Option<String>,
}

impl Obs {
    fn fail(&mut self, what: String) {
        if self.oracle.is_none() {
            self.oracle = Some(what);
        }
    }
    fn pair(&mut self, shape: &Shape, (p, l): (usize, usize)) {
        self.obs.push(p as i128 - shape.base as i128);
        self.obs.push(l as i128);
        if !(p >= shape.base && p + l <= shape.base + shape.cap) {
            self.fail(format!(
                "exposed pair (base+{}, {l}) leaves the {}-byte allocation",
                p as i128 - shape.base as i128,
                shape.cap
            ));
        }
    }
}

const LIMIT_POOL: [u64; 14] = [
    0, 1, 2, 3, 7, 64, 4095, 0xFFFF_FFFE, 0xFFFF_FFFF, 0x1_0000_0000, 0x1_0000_0001, 0x1_0000_0003,
    0x8000_0000_0000_0000, u64::MAX,
];

fn gen_limit(r: &mut Rng, total: usize) -> Option<usize> {
    match r.below(10) {
        0..=2 => None,
        3..=5 => Some(r.below(total as u64 + 3) as usize),
        6 => Some((1u64 << 32).wrapping_add(r.below(total as u64 + 2)) as usize),
        7 => Some(((r.range(1, 0xFFFF_FFFF)) << 32 | r.below(total as u64 + 2)) as usize),
        _ => Some(*r.pick(&LIMIT_POOL) as usize),
    }
}

fn gen_len_cap(r: &mut Rng) -> (usize, usize) {
    let cap = match r.below(8) {
        0 => 0,
        1 => 1,
        2..=5 => r.range(1, 24),
        6 => r.range(25, 300),
        _ => r.range(1, 9),
    } as usize;
    let len = match r.below(5) {
        0 => 0,
        1 => cap,
        _ => r.below(cap as u64 + 1) as usize,
    };
    (len, cap)
}

/// Addresses are canonicalised: observations are relative to the base, so the model gets a
/// synthetic base per buffer (keeps cases reproducible under ASLR).
fn coq_shape(i: usize, s: &Shape) -> String {
    format!("{{| base := {}%N; len := {}%N; cap := {}%N |}}", (i + 1) << 20, s.len, s.cap)
}

fn coq_case(family: &str, shapes: &[Shape], limit: Option<usize>, ops: &[Op]) -> String {
    let mut s = String::new();
    let _ = write!(s, "{{| c_family := {family}; c_bufs := [");
    for (i, sh) in shapes.iter().enumerate() {
        if i > 0 {
            s.push_str("; ");
        }
        s.push_str(&coq_shape(i, sh));
    }
    s.push_str("]; c_limit := ");
    match limit {
        None => s.push_str("None"),
        Some(l) => {
            let _ = write!(s, "Some {l}%N");
        }
    }
    s.push_str("; c_ops := [");
    for (i, op) in ops.iter().enumerate() {
        if i > 0 {
            s.push_str("; ");
        }
        match op {
            Op::Query => s.push_str("Query"),
            Op::SetInit(n) => {
                let _ = write!(s, "SetInit {n}%N");
            }
        }
    }
    s.push_str("] |}");
    s
}

fn json_case(family: &str, ty: &str, shapes: &[Shape], limit: Option<usize>, ops: &[Op]) -> String {
    let mut s = format!("{{\"family\":\"{family}\",\"type\":{},\"bufs\":[", out::jstr(ty));
    for (i, sh) in shapes.iter().enumerate() {
        if i > 0 {
            s.push(',');
        }
        let _ = write!(s, "{{\"len\":{},\"cap\":{}}}", sh.len, sh.cap);
    }
    s.push_str("],\"limit\":");
    match limit {
        None => s.push_str("null"),
        Some(l) => {
            let _ = write!(s, "\"{l}\"");
        }
    }
    s.push_str(",\"ops\":[");
    for (i, op) in ops.iter().enumerate() {
        if i > 0 {
            s.push(',');
        }
        match op {
            Op::Query => s.push_str("\"query\""),
            Op::SetInit(n) => {
                let _ = write!(s, "\"set_init({n})\"");
            }
        }
    }
    s.push_str("]}");
    s
}

fn limit_tag(limit: Option<usize>) -> String {
    match limit {
        None => "limit:none".into(),
        Some(l) if (l as u64) < (1 << 32) => "limit:<2^32".into(),
        Some(_) => "limit:>=2^32".into(),
    }
}

/// Generate and run one case. The sequence of operations is decided while running (how many
/// bytes can be initialised depends on what is exposed), and recorded.
/// What a single-buffer read operation hands to the kernel for `buf`: (address, length) of the
/// READ submission `AsyncFd::read(buf)` queues on a simulated ring. The operations take the pair
/// through the hidden accessor `BufMut::parts`, not through `parts_mut`: the two must agree.
fn pair_of_a_read<B: BufMut>(buf: B) -> Option<(usize, usize)> {
    use crate::simk;
    simk::configure(simk::SetupConfig::default());
    let ring = a10::Ring::config().with_submission_queue_size(2).build().ok()?;
    let ring_fd = simk::with(|s| s.fd);
    simk::add_fake_fd(1_234_567);
    let fd = std::mem::ManuallyDrop::new(unsafe { a10::AsyncFd::from_raw_fd(1_234_567, ring.sq()) });
    let pair = {
        let mut fut = Box::pin(fd.read(buf));
        let waker = std::task::Waker::noop();
        let mut ctx = std::task::Context::from_waker(waker);
        let _ = std::future::Future::poll(fut.as_mut(), &mut ctx);
        simk::with(|s| s.pending_sqes().last().map(|q| (q.addr as usize, q.len as usize)))
    };
    drop(ring);
    simk::retire(ring_fd);
    pair
}

fn one_case(r: &mut Rng) -> Case {
    let family = r.below(4);
    let mut o = Obs { obs: Vec::new(), oracle: None };
    let mut ops = Vec::new();
    let mut tags = Vec::new();
    let nops = r.range(1, 5);
    match family {
        0 => {
            // Buf
            let k = r.below(BUF_KINDS as u64) as usize;
            let (len, cap) = gen_len_cap(r);
            let limit = gen_limit(r, len);
            let (b, shape) = make_buf(k, len, cap, limit);
            let exp = limit.map_or(len, |l| l.min(len));
            for _ in 0..nops.min(2) {
                ops.push(Op::Query);
                let p = b.parts();
                o.pair(&shape, p);
                o.obs.push(b.len() as i128);
                o.obs.push(b.is_empty() as i128);
                match b.as_slice_pair() {
                    Some(sp) => {
                        o.pair(&shape, sp);
                        if sp != p {
                            o.fail(format!("as_slice() shows (base+{}, {}) but parts() (base+{}, {})", sp.0 as i128 - shape.base as i128, sp.1, p.0 as i128 - shape.base as i128, p.1));
                        }
                    }
                    None => {
                        o.obs.push(-1);
                        o.obs.push(-1);
                        o.fail(format!("as_slice() panics although len() reports {} visible bytes", b.len()));
                    }
                }
                if p.1 != exp || b.len() != exp || b.is_empty() != (exp == 0) {
                    o.fail(format!(
                        "Buf reports parts.len={} len()={} is_empty()={} but {} bytes are visible",
                        p.1,
                        b.len(),
                        b.is_empty(),
                        exp
                    ));
                }
            }
            o.obs.push(shape.len as i128);
            tags.push(format!("family:Buf/{}", BUF_KIND_NAMES[k]));
            tags.push(limit_tag(limit));
            finish("FBuf", BUF_KIND_NAMES[k], &[shape], limit, ops, o, tags)
        }
        1 => {
            // BufMut: Vec<u8>, optionally limited
            let (len, cap) = gen_len_cap(r);
            let v = make_vec(len, cap);
            let shape = shapes_of(std::slice::from_ref(&v))[0];
            let limit = gen_limit(r, shape.cap - shape.len);
            let mut b: Box<dyn DynMut> = match limit {
                None => Box::new(v),
                Some(l) => Box::new(BufMut::limit(v, l)),
            };
            let mut cur_len = shape.len;
            let mut lim = limit;
            let mut expect: Vec<u8> = (0..shape.len).map(pattern).collect();
            for i in 0..nops {
                let exp = lim.map_or(shape.cap - cur_len, |l| l.min(shape.cap - cur_len));
                if i % 2 == 0 || exp == 0 {
                    ops.push(Op::Query);
                    let p = b.parts_mut();
                    o.pair(&shape, p);
                    o.obs.push(b.spare() as i128);
                    o.obs.push(b.has_spare() as i128);
                    if p.1 != exp || b.spare() != exp || b.has_spare() != (exp != 0) || p.0 != shape.base + cur_len {
                        o.fail(format!(
                            "BufMut reports parts_mut=(base+{},{}) spare_capacity()={} has_spare_capacity()={} but {} bytes at base+{} are writable",
                            p.0 as i128 - shape.base as i128, p.1, b.spare(), b.has_spare(), exp, cur_len
                        ));
                    }
                } else {
                    let n = match r.below(4) {
                        0 => exp,
                        1 => 0,
                        _ => r.below(exp as u64 + 1) as usize,
                    };
                    let p = b.parts_mut();
                    if p.1 >= n && p.0 >= shape.base && p.0 + n <= shape.base + shape.cap {
                        for j in 0..n {
                            let byte = pattern(1000 + expect.len());
                            unsafe { (p.0 as *mut u8).add(j).write(byte) };
                            expect.push(byte);
                        }
                        ops.push(Op::SetInit(n));
                        b.set_init(n);
                        cur_len += n;
                        lim = lim.map(|l| l.saturating_sub(n));
                    }
                }
            }
            // Always end with a query so the effect of the last set_init is visible.
            ops.push(Op::Query);
            let p = b.parts_mut();
            o.pair(&shape, p);
            o.obs.push(b.spare() as i128);
            o.obs.push(b.has_spare() as i128);
            let lens = b.into_lens();
            o.obs.push(lens[0] as i128);
            if lens[0] != expect.len() {
                o.fail(format!("after set_init the vector has {} bytes, {} were initialised", lens[0], expect.len()));
            }
            // The same buffer as an operation sees it (one case in four).
            if r.chance(1, 4) {
                let v2 = make_vec(len, cap);
                let base2 = v2.as_ptr() as usize;
                let exp = limit.map_or(cap - len, |l| l.min(cap - len));
                let got = match limit {
                    None => pair_of_a_read(v2),
                    Some(l) => pair_of_a_read(BufMut::limit(v2, l)),
                };
                if let Some((addr, n)) = got {
                    if n != exp || addr != base2 + len {
                        o.fail(format!(
                            "a read into this buffer asks the kernel for {n} bytes at base+{}, the buffer exposes {exp} writable bytes at base+{len} (limit {limit:?})",
                            addr as i128 - base2 as i128
                        ));
                    }
                    tags.push("pair-of-a-read-operation:checked".into());
                }
            }
            tags.push("family:BufMut/Vec<u8>".into());
            tags.push(limit_tag(limit));
            finish("FBufMut", "Vec<u8>", &[shape], limit, ops, o, tags)
        }
        2 => {
            // BufSlice
            let n = r.range(1, 8) as usize;
            let tuple = r.chance(1, 2);
            let lens: Vec<(usize, usize)> = (0..n).map(|_| gen_len_cap(r)).collect();
            let total: usize = lens.iter().map(|x| x.0).sum();
            let limit = gen_limit(r, total);
            let (b, shapes) = make_slice(&lens, tuple, limit);
            let exp = limit.map_or(total, |l| l.min(total));
            ops.push(Op::Query);
            let iov = b.iovecs();
            let mut sum = 0;
            for (sh, p) in shapes.iter().zip(iov.iter()) {
                o.pair(sh, *p);
                sum += p.1;
            }
            o.obs.push(b.total_len() as i128);
            o.obs.push(b.is_empty() as i128);
            if iov.len() != n || sum != exp || b.total_len() != exp || b.is_empty() != (exp == 0) {
                o.fail(format!(
                    "BufSlice exposes {sum} bytes, total_len()={} is_empty()={} but {exp} bytes are visible",
                    b.total_len(),
                    b.is_empty()
                ));
            }
            // Front to back: iovec i is shortened only if all later ones are empty.
            let mut left = exp;
            for (sh, p) in shapes.iter().zip(iov.iter()) {
                let want = sh.len.min(left);
                if p.1 != want || p.0 != sh.base {
                    o.fail(format!("BufSlice iovec is (base+{},{}) but should be (base+0,{want})", p.0 as i128 - sh.base as i128, p.1));
                }
                left -= want;
            }
            for sh in &shapes {
                o.obs.push(sh.len as i128);
            }
            let ty = if tuple && n > 1 { format!("mixed tuple/{n}") } else { format!("[Vec<u8>; {n}]") };
            tags.push(format!("family:BufSlice/{}", if tuple && n > 1 { "tuple" } else { "array" }));
            tags.push(format!("arity:{n}"));
            tags.push(limit_tag(limit));
            finish("FSlice", &ty, &shapes, limit, ops, o, tags)
        }
        _ => {
            // BufMutSlice
            let n = r.range(1, 8) as usize;
            let tuple = r.chance(1, 2) && n > 1;
            let vs: Vec<Vec<u8>> = (0..n).map(|_| { let (l, c) = gen_len_cap(r); make_vec(l, c) }).collect();
            let shapes = shapes_of(&vs);
            let total_spare: usize = shapes.iter().map(|s| s.cap - s.len).sum();
            let limit = gen_limit(r, total_spare);
            let mut b = make_mslice(vs, tuple, limit);
            let mut cur: Vec<usize> = shapes.iter().map(|s| s.len).collect();
            let mut lim = limit;
            let mut appended: Vec<Vec<u8>> = vec![Vec::new(); n];
            let mut counter = 0usize;
            let mut query = |b: &mut Box<dyn DynMutSlice>, o: &mut Obs, cur: &[usize], lim: Option<usize>| -> Vec<(usize, usize)> {
                let spare: usize = shapes.iter().zip(cur).map(|(s, c)| s.cap - c).sum();
                let exp = lim.map_or(spare, |l| l.min(spare));
                let iov = b.iovecs_mut();
                let mut sum = 0;
                for (sh, p) in shapes.iter().zip(iov.iter()) {
                    o.pair(sh, *p);
                    sum += p.1;
                }
                o.obs.push(b.total_spare() as i128);
                o.obs.push(b.has_spare() as i128);
                if iov.len() != n || sum != exp || b.total_spare() != exp || b.has_spare() != (exp != 0) {
                    o.fail(format!(
                        "BufMutSlice exposes {sum} bytes, total_spare_capacity()={} has_spare_capacity()={} but {exp} bytes are writable",
                        b.total_spare(),
                        b.has_spare()
                    ));
                }
                let mut left = exp;
                for ((sh, c), p) in shapes.iter().zip(cur).zip(iov.iter()) {
                    let want = (sh.cap - c).min(left);
                    if p.1 != want || p.0 != sh.base + c {
                        o.fail(format!("BufMutSlice iovec is (base+{},{}) but should be (base+{c},{want})", p.0 as i128 - sh.base as i128, p.1));
                    }
                    left -= want;
                }
                iov
            };
            for i in 0..nops {
                if i % 2 == 0 {
                    ops.push(Op::Query);
                    query(&mut b, &mut o, &cur, lim);
                } else {
                    let iov = b.iovecs_mut();
                    let ok = iov.iter().zip(shapes.iter()).all(|(p, s)| p.0 >= s.base && p.0 + p.1 <= s.base + s.cap);
                    let exp: usize = iov.iter().map(|p| p.1).sum();
                    if !ok || exp == 0 && r.chance(1, 2) {
                        continue;
                    }
                    let nbytes = match r.below(5) {
                        0 => exp,
                        1 => iov[0].1.min(exp), // exactly fills the first buffer: the `len < left` edge
                        2 => iov.iter().take(2).map(|p| p.1).sum::<usize>().min(exp),
                        _ => r.below(exp as u64 + 1) as usize,
                    };
                    // The "kernel" writes front to back through the iovecs.
                    let mut left = nbytes;
                    for (j, p) in iov.iter().enumerate() {
                        let k = left.min(p.1);
                        for q in 0..k {
                            let byte = pattern(2000 + counter);
                            counter += 1;
                            unsafe { (p.0 as *mut u8).add(q).write(byte) };
                            appended[j].push(byte);
                        }
                        cur[j] += k;
                        left -= k;
                    }
                    ops.push(Op::SetInit(nbytes));
                    let res = std::panic::catch_unwind(std::panic::AssertUnwindSafe(|| b.set_init(nbytes)));
                    if res.is_err() {
                        o.obs.push(-1);
                        o.fail(format!("set_init({nbytes}) panicked although {exp} bytes were exposed"));
                        let ty = if tuple { format!("Vec tuple/{n}") } else { format!("[Vec<u8>; {n}]") };
                        tags.push("panic".into());
                        return finish("FMutSlice", &ty, &shapes, limit, ops, o, tags);
                    }
                    lim = lim.map(|l| l.saturating_sub(nbytes));
                }
            }
            ops.push(Op::Query);
            query(&mut b, &mut o, &cur, lim);
            let lens = b.into_lens();
            for (j, l) in lens.iter().enumerate() {
                o.obs.push(*l as i128);
                if *l != cur[j] {
                    o.fail(format!("buffer {j} has {l} bytes after set_init, the kernel wrote up to {}", cur[j]));
                }
            }
            let ty = if tuple { format!("Vec tuple/{n}") } else { format!("[Vec<u8>; {n}]") };
            tags.push(format!("family:BufMutSlice/{}", if tuple { "tuple" } else { "array" }));
            tags.push(format!("arity:{n}"));
            tags.push(limit_tag(limit));
            finish("FMutSlice", &ty, &shapes, limit, ops, o, tags)
        }
    }
}

fn finish(family: &str, ty: &str, shapes: &[Shape], limit: Option<usize>, ops: Vec<Op>, o: Obs, mut tags: Vec<String>) -> Case {
    let sets = ops.iter().filter(|op| matches!(op, Op::SetInit(_))).count();
    tags.push(format!("set_init_ops:{}", sets.min(3)));
    let nontrivial = shapes.iter().any(|s| s.cap > 0) && (limit.is_some() || shapes.len() > 1 || sets > 0);
    Case {
        coq: coq_case(family, shapes, limit, &ops),
        obs: o.obs,
        json: json_case(family, ty, shapes, limit, &ops),
        oracle: o.oracle,
        known: None,
        tags,
        nontrivial,
    }
}

pub fn run(args: &Args) -> i32 {
    crate::simk::install();
    let n = args.n.unwrap_or(if args.thorough { 60_000 } else { 4_000 });
    let root = Rng::new(args.seed);
    let mut cases = Vec::with_capacity(n);
    // Regression corpus first: the H6 witnesses.
    for (len, limit) in [(10usize, (1u64 << 32) + 3), (10, 1u64 << 32), (5, u64::MAX)] {
        let (b, shape) = make_buf(0, len, len, Some(limit as usize));
        let mut o = Obs { obs: Vec::new(), oracle: None };
        let p = b.parts();
        o.pair(&shape, p);
        o.obs.push(b.len() as i128);
        o.obs.push(b.is_empty() as i128);
        match b.as_slice_pair() {
            Some(sp) => o.pair(&shape, sp),
            None => {
                o.obs.extend([-1, -1]);
                o.fail(format!("limit {limit}: as_slice() panics"));
            }
        }
        o.obs.push(shape.len as i128);
        if p.1 != len || b.len() != len {
            o.fail(format!("limit {limit}: parts.len={} len()={} but {len} bytes are visible", p.1, b.len()));
        }
        cases.push(finish("FBuf", "Vec<u8>", &[shape], Some(limit as usize), vec![Op::Query], o, vec!["corpus:H6".into()]));
    }
    // In forked workers: a case that takes the process down (stack overflow, abort) costs that case
    // only and is reported with its input.
    cases.extend(out::run_forked(&args.out, n, 12, &|i| {
        let mut r = root.fork(i as u64);
        one_case(&mut r)
    }));
    let spec = Spec {
        prop: "C14",
        imports: &["Model.BufTraits"],
        run_fn: "run_bcase",
        case_ty: "bcase",
        shard: 1000,
    };
    out::write_all(&args.out, &spec, &cases, &[]);
    0
}

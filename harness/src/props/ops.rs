//! History driver for the operation life cycle (C01, C02, C03, C06, C09).
//!
//! Real a10 futures on a simulated ring: single-shot reads into heap buffers, zero-copy sends
//! (two completions), multishot accepts. A generated history interleaves polls (with fresh or
//! repeated wakers), drops of the futures, `Ring::poll` calls and kernel completions (success,
//! short, error, EINTR/ECANCELED, more/notif, cancellation winning or losing). The same
//! history is run on Model/OpState.v; per-property oracles look at the implementation alone.

use std::collections::BTreeMap;
use std::fmt::Write as _;
use std::future::Future;
use std::mem::ManuallyDrop;
use std::pin::Pin;
use std::sync::{Arc, Mutex};
use std::task::Poll;
use std::time::Duration;

use crate::out::{self, Case, Spec};
use crate::rng::Rng;
use crate::simk::{self, abi, Ev};
use crate::util::{poll_once, WakeLog};
use crate::{alloc, Args};

#[derive(Clone, Copy, Debug, PartialEq, Eq)]
pub enum OpKind {
    Read,
    SendZc,
    MultiAccept,
    /// `Signals::receive_signals()`: a stream of single-shot reads of a signalfd on one
    /// hand-managed operation state (src/process.rs); the model sees a single-shot operation
    /// (the stream is not polled again after its first item); "drop" is `into_inner()`.
    Signals,
}

#[derive(Clone, Copy, Debug, PartialEq)]
pub struct Cq {
    pub res: i32,
    pub more: bool,
    pub notif: bool,
}

#[derive(Clone, Debug)]
pub enum Event {
    Poll(usize, u64),
    DropOp(usize),
    RingPoll,
    KPost(usize, Cq),
}

enum Fut {
    Read(Pin<Box<dyn Future<Output = std::io::Result<Vec<u8>>>>>),
    Send(Pin<Box<dyn Future<Output = std::io::Result<usize>>>>),
    Accept(Pin<Box<a10::net::MultishotAccept<'static>>>),
    Signals(Box<a10::process::ReceiveSignals>),
}

struct OpSt {
    kind: OpKind,
    cancelable: bool,
    fut: Option<Fut>,
    fd: Box<ManuallyDrop<a10::AsyncFd>>,
    /// The descriptor number the operation's submissions carry.
    kfd: i32,
    /// What `ReceiveSignals::into_inner` gave back (kept to the end: dropping it closes the signalfd).
    signals: Option<a10::process::Signals>,
    /// user_data learnt when the kernel first consumes the submission.
    ud: Option<u64>,
    /// SQE of each attempt as consumed by the kernel.
    attempts: Vec<abi::Sqe>,
    /// Completions posted for the current attempt / all attempts.
    posted: Vec<Cq>,
    /// Everything the kernel ever posted for the operation (all attempts), in order.
    posted_all: Vec<Cq>,
    /// What the future handed out: (code, value) with code 11 ok, 12 err, 13 end.
    outputs: Vec<(i128, i128)>,
    finished: bool,
    dropped: bool,
    last_poll: Option<(u64, bool)>, // (waker, returned pending)
    woken_since_poll: bool,
    /// A completion that makes it ready has been processed by a Ring::poll since the last poll.
    ready_processed: bool,
    /// Posted but not yet seen by a completed Ring::poll.
    pending_ready: bool,
    accepted: Vec<ManuallyDrop<a10::AsyncFd>>,
    bufs_kept: Vec<Vec<u8>>,
}

const CAPS: [u32; 4] = [1, 2, 4, 8];
static DATA: &[u8] = b"zero copy payload...............";

/// Descriptor numbers open in this process.
fn open_fds() -> Vec<i32> {
    (0..1024).filter(|n| unsafe { libc::fcntl(*n, libc::F_GETFD) } != -1).collect()
}

fn fake_fd(i: usize) -> i32 {
    1_000_000 + i as i32
}

fn coq_cq(c: &Cq) -> String {
    let r = if c.res < 0 { format!("({})", c.res) } else { c.res.to_string() };
    format!("{{| res := {r}; more := {}; notif := {} |}}", c.more, c.notif)
}

fn coq_event(e: &Event) -> String {
    match e {
        Event::Poll(i, w) => format!("Poll {i}%nat {w}%N"),
        Event::DropOp(i) => format!("DropOp {i}%nat"),
        Event::RingPoll => "RingPoll".into(),
        Event::KPost(i, c) => format!("KPost {i}%nat {}", coq_cq(c)),
    }
}

fn json_event(e: &Event) -> String {
    match e {
        Event::Poll(i, w) => format!("\"poll(op{i},waker{w})\""),
        Event::DropOp(i) => format!("\"drop(op{i})\""),
        Event::RingPoll => "\"ring_poll\"".into(),
        Event::KPost(i, c) => format!("\"kernel_posts(op{i},res={},more={},notif={})\"", c.res, c.more, c.notif),
    }
}

pub struct Focus {
    pub prop: &'static str,
    /// Weights: poll, drop, ring_poll, kpost.
    pub weights: [u64; 4],
    pub restart_bias: u64,
    pub replace_waker_bias: u64,
}

/// A buffer whose `parts` panics and which counts its drops: the operation reading it never gets
/// as far as a filled submission.
struct CountedFaulty(Arc<std::sync::atomic::AtomicUsize>);
unsafe impl a10::io::Buf for CountedFaulty {
    unsafe fn parts(&self) -> (*const u8, u32) {
        panic!("faulty buffer")
    }
}
impl Drop for CountedFaulty {
    fn drop(&mut self) {
        self.0.fetch_add(1, std::sync::atomic::Ordering::SeqCst);
    }
}

struct World {
    ghost_fds: Vec<Box<ManuallyDrop<a10::AsyncFd>>>,
    ring: Option<a10::Ring>,
    ring_fd: i32,
    ops: Vec<OpSt>,
    wakes: WakeLog,
    obs: Vec<i128>,
    oracle: Option<String>,
    by_fd: BTreeMap<i32, usize>,
    box_addr: BTreeMap<usize, usize>, // box address -> op
    silent: Arc<Mutex<Option<String>>>,
    cap: u32,
    frees_seen: BTreeMap<usize, usize>, // op -> number of frees of its box
}

impl World {
    fn fail(&mut self, what: String) {
        if self.oracle.is_none() {
            self.oracle = Some(what);
        }
    }

    /// An operation that never starts: its first poll panics while the submission is being filled
    /// (the buffer's `parts` panics), then the future is dropped. It is no operation of the model:
    /// it must leave no trace — nothing queued (no submission, no cancellation), its buffer dropped
    /// with the future. Only done when the queue has room (otherwise the poll parks instead).
    fn do_ghost(&mut self, id: usize) -> bool {
        if simk::with(|s| s.sq_pending()) as u64 >= self.cap as u64 {
            return false;
        }
        let sq = self.ring.as_ref().unwrap().sq();
        let n = fake_fd(900 + id);
        simk::add_fake_fd(n);
        let fd = Box::new(ManuallyDrop::new(unsafe { a10::AsyncFd::from_raw_fd(n, sq) }));
        let fd_ref: &'static a10::AsyncFd = unsafe { &*(&**fd as *const a10::AsyncFd) };
        self.ghost_fds.push(fd);
        let drops = Arc::new(std::sync::atomic::AtomicUsize::new(0));
        let before = simk::with(|s| s.pending_sqes().len());
        let mut fut = Box::pin(fd_ref.write(CountedFaulty(drops.clone())));
        let wk = self.wakes.waker(999_000 + id as u64);
        let polled = std::panic::catch_unwind(std::panic::AssertUnwindSafe(|| poll_once(fut.as_mut(), &wk).is_ready()));
        let _ = self.silent.lock().unwrap().take();
        if polled.is_ok() {
            self.fail("the first poll of a write whose buffer panics in parts() returned normally".into());
        }
        let dropped = std::panic::catch_unwind(std::panic::AssertUnwindSafe(move || drop(fut)));
        if dropped.is_err() {
            let msg = self.silent.lock().unwrap().take().unwrap_or_default();
            self.fail(format!("dropping a future whose first poll panicked panicked: {msg}"));
        }
        let after = simk::with(|s| s.pending_sqes().len());
        if after != before {
            self.fail(format!("an operation that never started (its buffer panicked while the submission was filled) left {} submission(s) in the queue when it was polled and dropped", after as i64 - before as i64));
        }
        let d = drops.load(std::sync::atomic::Ordering::SeqCst);
        if d != 1 {
            self.fail(format!("the buffer of an operation that never started was dropped {d} times by dropping its future (expected once, at once: nothing is in flight)"));
        }
        true
    }

    fn op_of_sqe(&self, sqe: &abi::Sqe) -> Option<usize> {
        self.by_fd.get(&sqe.fd).copied()
    }

    /// Record frees of operation states reported by the allocator: `[40; op]` each.
    fn drain_frees(&mut self) {
        for addr in alloc::take_freed() {
            // Only the first free of the address is the operation's state: afterwards the allocator
            // may hand the address to anybody (a double free is reported by the allocator itself).
            if let Some(op) = self.box_addr.remove(&addr) {
                *self.frees_seen.entry(op).or_default() += 1;
                self.obs.push(40);
                self.obs.push(op as i128);
            }
        }
    }

    /// Read the simulator's log after an a10 call: consumed submissions (`[20; op]` / `[21; op]`).
    fn drain_kernel_log(&mut self) {
        let log = simk::with(|s| s.take_log());
        for e in log {
            match e {
                Ev::Consumed { sqe, req } => {
                    if sqe.opcode == abi::OP_ASYNC_CANCEL {
                        let target = self.ops.iter().position(|o| o.ud == Some(sqe.addr));
                        self.obs.push(21);
                        self.obs.push(target.map_or(-1, |t| t as i128));
                        match target {
                            None => self.fail(format!("a cancellation request names user_data {:#x}, which is no operation's", sqe.addr)),
                            Some(t) => {
                                if !self.ops[t].dropped {
                                    self.fail(format!("operation {t} was cancelled although its future was not dropped"));
                                }
                                if sqe.user_data != 2 || sqe.flags & abi::SQE_CQE_SKIP_SUCCESS == 0 {
                                    self.fail("cancellation request without the bookkeeping user_data / CQE_SKIP_SUCCESS".into());
                                }
                                // An operation is named by the address of its state: that is only
                                // sound while the kernel runs the cancellation inline, in
                                // submission order. With IOSQE_ASYNC (or a link/drain flag) it runs
                                // after later submissions and can hit a new operation that was
                                // given the address of a finished one. Every other field is 0.
                                let want = abi::Sqe { opcode: abi::OP_ASYNC_CANCEL, flags: abi::SQE_CQE_SKIP_SUCCESS, ioprio: 0, fd: 0, off: 0, addr: sqe.addr, len: 0, op_flags: 0, user_data: 2, buf_index: 0, personality: 0, file_index: 0, addr3: 0, pad2: 0 };
                                if sqe != want {
                                    self.fail(format!("the cancellation request for operation {t} is {sqe:?}; a request the kernel runs inline and that names exactly that operation is {want:?}"));
                                }
                            }
                        }
                    } else if let Some(op) = self.op_of_sqe(&sqe) {
                        self.obs.push(20);
                        self.obs.push(op as i128);
                        let o = &mut self.ops[op];
                        match o.ud {
                            None => {
                                o.ud = Some(sqe.user_data);
                                let addr = (sqe.user_data & !1) as usize;
                                alloc::watch(addr);
                                self.box_addr.insert(addr, op);
                            }
                            Some(ud) if ud != sqe.user_data => {
                                let msg = format!("operation {op} was re-issued with a different user_data");
                                self.fail(msg);
                            }
                            _ => {}
                        }
                        let o = &mut self.ops[op];
                        if let Some(first) = o.attempts.first() {
                            if *first != sqe {
                                let msg = format!("operation {op} was re-issued with different arguments: first {:?}, now {:?}", first, sqe);
                                self.fail(msg);
                            }
                        }
                        let o = &mut self.ops[op];
                        o.attempts.push(sqe);
                        o.posted.clear();
                        let _ = req;
                    } else {
                        self.fail(format!("unexpected submission {:?}", sqe));
                    }
                }
                Ev::Corrupt { what } => self.fail(what),
                _ => {}
            }
        }
    }

    fn do_poll(&mut self, i: usize, w: u64) {
        let waker = self.wakes.waker(w);
        let silent = self.silent.clone();
        let o = &mut self.ops[i];
        let Some(fut) = o.fut.as_mut() else { return };
        let r = std::panic::catch_unwind(std::panic::AssertUnwindSafe(|| match fut {
            Fut::Read(f) => match poll_once(f.as_mut(), &waker) {
                Poll::Pending => (10, 0, None, None),
                Poll::Ready(Ok(buf)) => (11, buf.len() as i128, Some(buf), None),
                Poll::Ready(Err(e)) => (12, -(e.raw_os_error().unwrap_or(99_999) as i128), None, None),
            },
            Fut::Send(f) => match poll_once(f.as_mut(), &waker) {
                Poll::Pending => (10, 0, None, None),
                Poll::Ready(Ok(n)) => (11, n as i128, None, None),
                Poll::Ready(Err(e)) => (12, -(e.raw_os_error().unwrap_or(99_999) as i128), None, None),
            },
            Fut::Accept(f) => {
                let mut ctx = std::task::Context::from_waker(&waker);
                match f.as_mut().poll_next(&mut ctx) {
                    Poll::Pending => (10, 0, None, None),
                    Poll::Ready(None) => (13, 0, None, None),
                    Poll::Ready(Some(Ok(fd))) => {
                        let raw = fd.as_fd().map(|b| std::os::fd::AsRawFd::as_raw_fd(&b)).unwrap_or(-1);
                        (11, raw as i128, None, Some(fd))
                    }
                    Poll::Ready(Some(Err(e))) => (12, -(e.raw_os_error().unwrap_or(99_999) as i128), None, None),
                }
            }
            Fut::Signals(f) => {
                let mut ctx = std::task::Context::from_waker(&waker);
                match Pin::new(&mut **f).poll_next(&mut ctx) {
                    Poll::Pending => (10, 0, None, None),
                    Poll::Ready(None) => (13, 0, None, None),
                    // The size of the record the kernel wrote is all that is compared.
                    Poll::Ready(Some(Ok(_info))) => (11, 128, None, None),
                    Poll::Ready(Some(Err(e))) => (12, -(e.raw_os_error().unwrap_or(99_999) as i128), None, None),
                }
            }
        }));
        let (code, val, buf, afd) = match r {
            Ok(x) => x,
            Err(_) => {
                let msg = silent.lock().unwrap().take().unwrap_or_default();
                self.obs.push(14);
                self.ops[i].fut = None; // state unknown after a panic: leak it
                self.ops[i].finished = true;
                self.fail(format!("polling operation {i} panicked: {msg}"));
                return;
            }
        };
        // Learn the address of the operation's state as soon as its submission is queued.
        for sqe in simk::with(|s| s.pending_sqes()) {
            if sqe.opcode != abi::OP_ASYNC_CANCEL {
                if let Some(op) = self.op_of_sqe(&sqe) {
                    let addr = (sqe.user_data & !1) as usize;
                    if !self.box_addr.contains_key(&addr) {
                        alloc::watch(addr);
                        self.box_addr.insert(addr, op);
                    }
                }
            }
        }
        let o = &mut self.ops[i];
        self.obs.push(code);
        if code != 10 && code != 13 {
            self.obs.push(val);
        }
        o.last_poll = Some((w, code == 10));
        o.woken_since_poll = false;
        o.ready_processed = false;
        if code == 10 {
            // C03, the consequence the property names: "an executor that re-polls only when woken
            // always makes progress". A future that returns Pending must have left something behind
            // that will wake it: its submission queued or its request in flight (a completion will
            // come), a completion already posted and not yet processed, or — the queue being full —
            // its waker on the blocked list (woken by a later Ring::poll).
            let kfd = o.kfd;
            let ud = o.ud;
            let pending_ready = o.pending_ready;
            let (queued, inflight, full) = simk::with(|s| {
                let pend = s.pending_sqes();
                (
                    pend.iter().any(|q| q.opcode != abi::OP_ASYNC_CANCEL && q.fd == kfd),
                    ud.is_some_and(|ud| s.find_req_by_user_data(ud).is_some()),
                    pend.len() as u32 >= s.sq_entries,
                )
            });
            if !(queued || inflight || pending_ready || full) {
                self.fail(format!("operation {i} returned Pending with waker {w}, but nothing is left that could wake it: no submission queued, no request in flight, no completion waiting, and the submission queue has room (so it is not parked)"));
            }
        }
        let o = &mut self.ops[i];
        if let Some(b) = buf {
            // The kernel wrote `res` bytes of the pattern; the caller must see exactly those.
            if b.iter().enumerate().any(|(k, x)| *x != (k as u8) ^ 0x5A) {
                let msg = format!("operation {i}: the returned buffer does not hold the bytes the kernel wrote");
                o.bufs_kept.push(b);
                self.fail(msg);
            } else {
                o.bufs_kept.push(b);
            }
        }
        let o = &mut self.ops[i];
        if let Some(fd) = afd {
            o.accepted.push(ManuallyDrop::new(fd));
        }
        if code != 10 {
            o.outputs.push((code, val));
            match (o.kind, code) {
                (OpKind::MultiAccept, 13) => o.finished = true,
                (OpKind::MultiAccept, _) => {}
                _ => o.finished = true,
            }
        }
    }

    fn do_drop(&mut self, i: usize) {
        let o = &mut self.ops[i];
        o.dropped = true;
        // C06 oracle: an operation the kernel still works on (request in flight, or its submission
        // still queued) must be cancelled by exactly one request naming it, when the queue has room.
        let my_fd = o.kfd;
        let (queued, inflight, room) = simk::with(|s| {
            let pend = s.pending_sqes();
            (
                pend.iter().any(|q| q.opcode != abi::OP_ASYNC_CANCEL && q.fd == my_fd),
                o.ud.is_some_and(|ud| s.find_req_by_user_data(ud).is_some()),
                (pend.len() as u32) < s.sq_entries,
            )
        });
        let cancels_before = simk::with(|s| s.pending_sqes().iter().filter(|q| q.opcode == abi::OP_ASYNC_CANCEL).count());
        let fut = o.fut.take();
        let r = std::panic::catch_unwind(std::panic::AssertUnwindSafe(move || match fut {
            // The other way of disposing of the stream: take the `Signals` back out.
            Some(Fut::Signals(f)) => Some(f.into_inner()),
            other => {
                drop(other);
                None
            }
        }));
        match r {
            Ok(s) => self.ops[i].signals = s,
            Err(_) => {
                let msg = self.silent.lock().unwrap().take().unwrap_or_default();
                self.obs.push(14);
                self.fail(format!("dropping operation {i} panicked: {msg}"));
            }
        }
        let cancels: Vec<abi::Sqe> = simk::with(|s| s.pending_sqes().into_iter().filter(|q| q.opcode == abi::OP_ASYNC_CANCEL).collect());
        let new_cancels = cancels.len() - cancels_before.min(cancels.len());
        if (queued || inflight) && room {
            let mine = self.ops[i].ud.or_else(|| {
                // not consumed yet: the user_data is in the queued submission
                simk::with(|s| s.pending_sqes().iter().find(|q| q.opcode != abi::OP_ASYNC_CANCEL && q.fd == my_fd).map(|q| q.user_data))
            });
            let named = cancels.iter().rev().take(new_cancels).filter(|q| Some(q.addr) == mine).count();
            if new_cancels != 1 || named != 1 {
                self.fail(format!("operation {i} was dropped while the kernel still works on it and the queue had room, but {new_cancels} cancellation request(s) were queued, {named} naming it"));
            }
        } else if !queued && !inflight && new_cancels != 0 && self.ops[i].posted.iter().all(|c| c.more) && self.ops[i].attempts.is_empty() {
            self.fail(format!("operation {i} was never started but dropping it queued a cancellation request"));
        }
        self.drain_frees();
    }

    fn do_ring_poll(&mut self) {
        let ring = self.ring.as_mut().unwrap();
        let r = std::panic::catch_unwind(std::panic::AssertUnwindSafe(|| ring.poll(Some(Duration::ZERO))));
        match r {
            Err(_) => {
                let msg = self.silent.lock().unwrap().take().unwrap_or_default();
                self.obs.push(14);
                self.fail(format!("Ring::poll panicked: {msg}"));
            }
            Ok(Err(e)) => self.fail(format!("Ring::poll failed: {e}")),
            Ok(Ok(())) => {}
        }
        self.drain_kernel_log();
        for w in self.wakes.take() {
            self.obs.push(30);
            self.obs.push(w as i128);
            for o in self.ops.iter_mut() {
                if let Some((lw, _)) = o.last_poll {
                    if lw == w {
                        o.woken_since_poll = true;
                    }
                }
            }
        }
        self.drain_frees();
        // Everything posted before this call has now been processed (the ring is big enough).
        let drained = simk::with(|s| s.cq_ready() == 0 && s.overflow.is_empty());
        if drained {
            for i in 0..self.ops.len() {
                if self.ops[i].pending_ready {
                    self.ops[i].pending_ready = false;
                    self.ops[i].ready_processed = true;
                    // C03: a pending, live future must have been woken by now, through the waker of
                    // its most recent poll.
                    let o = &self.ops[i];
                    if let (Some((w, true)), false, true) = (o.last_poll, o.dropped, o.fut.is_some()) {
                        if !o.woken_since_poll && o.ud.is_some() {
                            let msg = format!("operation {i} returned Pending with waker {w}; Ring::poll processed the completion that makes it ready but did not wake that waker");
                            self.fail(msg);
                        }
                    }
                }
            }
        }
    }

    /// Kernel posts completion `c` for operation `i` (must be in flight).
    fn do_kpost(&mut self, i: usize, c: Cq) {
        let Some(ud) = self.ops[i].ud else { return };
        let Some(req) = simk::with(|s| s.find_req_by_user_data(ud)) else { return };
        let sqe = *self.ops[i].attempts.last().unwrap();
        // C01: everything the request names must still be allocated, and so must the state the
        // completion will be dispatched to.
        let state = (ud & !1) as usize;
        if !alloc::is_live(state, 8) {
            self.fail(format!("operation {i} is in flight but its state at {:#x} has been freed", state));
            simk::with(|s| s.inflight.retain(|r| r.req != req));
            return;
        }
        if matches!(sqe.opcode, abi::OP_READ | abi::OP_SEND_ZC | abi::OP_SEND) && sqe.len > 0 {
            if !alloc::is_live(sqe.addr as usize, sqe.len as usize) && self.ops[i].kind == OpKind::Read {
                self.fail(format!("operation {i} is in flight but its buffer ({} bytes at {:#x}) is no longer allocated", sqe.len, sqe.addr));
                simk::with(|s| s.inflight.retain(|r| r.req != req));
                return;
            }
            if sqe.opcode == abi::OP_READ && c.res > 0 {
                for k in 0..(c.res as usize).min(sqe.len as usize) {
                    unsafe { (sqe.addr as *mut u8).add(k).write((k as u8) ^ 0x5A) };
                }
            }
        }
        let mut flags = 0;
        if c.more {
            flags |= abi::CQE_F_MORE;
        }
        if c.notif {
            flags |= abi::CQE_F_NOTIF;
        }
        simk::with(|s| s.complete(req, c.res, flags));
        let o = &mut self.ops[i];
        o.posted.push(c);
        o.posted_all.push(c);
        let readies = match o.kind {
            OpKind::MultiAccept => true,
            _ => !c.more,
        };
        if readies {
            o.pending_ready = true;
        }
        let _ = simk::with(|s| s.take_log());
    }
}

fn gen_cqe(r: &mut Rng, o: &OpSt, restart_bias: u64) -> Cq {
    let restart = r.below(100) < restart_bias;
    match o.kind {
        OpKind::Read => {
            if restart {
                Cq { res: *r.pick(&[-4, -125]), more: false, notif: false }
            } else if r.chance(1, 6) {
                Cq { res: *r.pick(&[-5, -9, -11]), more: false, notif: false }
            } else {
                Cq { res: r.below(17) as i32, more: false, notif: false }
            }
        }
        OpKind::Signals => {
            if restart {
                Cq { res: *r.pick(&[-4, -125]), more: false, notif: false }
            } else if r.chance(1, 6) {
                Cq { res: *r.pick(&[-5, -9, -11]), more: false, notif: false }
            } else {
                Cq { res: 128, more: false, notif: false } // sizeof(struct signalfd_siginfo)
            }
        }
        OpKind::SendZc => {
            let first_done = o.posted.iter().any(|c| c.more);
            if first_done {
                Cq { res: 0, more: false, notif: true }
            } else if restart {
                Cq { res: *r.pick(&[-4, -125]), more: false, notif: false }
            } else if r.chance(1, 5) {
                // A failed zero-copy send: Linux posts the error with F_MORE and the notification
                // afterwards (observed on 6.18), older kernels post the error alone.
                Cq { res: *r.pick(&[-32, -11]), more: r.chance(2, 3), notif: false }
            } else {
                Cq { res: 1 + r.below(32) as i32, more: true, notif: false }
            }
        }
        OpKind::MultiAccept => {
            if restart {
                Cq { res: *r.pick(&[-4, -125]), more: false, notif: false }
            } else if r.chance(1, 5) {
                Cq { res: *r.pick(&[-105, -24, -11]), more: false, notif: false }
            } else if r.chance(1, 8) {
                Cq { res: 2_000_000 + r.below(1000) as i32, more: false, notif: false }
            } else {
                Cq { res: 2_000_000 + r.below(1000) as i32, more: true, notif: false }
            }
        }
    }
}

pub fn one_case(r: &mut Rng, focus: &Focus, silent: &Arc<Mutex<Option<String>>>) -> Case {
    alloc::enable(false);
    alloc::unwatch_all();
    let _ = alloc::take_bad_frees();
    let cap = *r.pick(&CAPS);
    let n_ops = r.range(1, 4) as usize;
    let n_events = r.range(4, 26) as usize;
    // Ring counters: half of the histories start within a few entries of the 32-bit wrap.
    let near = |r: &mut Rng| if r.chance(1, 2) { u32::MAX - r.below(6) as u32 } else { r.next() as u32 };
    let (sq_start, cq_start) = (near(r), near(r));
    simk::configure(simk::SetupConfig { sq_start, cq_start, ..Default::default() });
    let ring = a10::Ring::config()
        .with_submission_queue_size(cap)
        .with_completion_queue_size(256)
        .build()
        .expect("ring on the simulated kernel");
    let ring_fd = simk::with(|s| s.fd);
    let sq = ring.sq();
    let mut w = World {
        ghost_fds: Vec::new(),
        ring: Some(ring),
        ring_fd,
        ops: Vec::new(),
        wakes: WakeLog::default(),
        obs: Vec::new(),
        oracle: None,
        by_fd: BTreeMap::new(),
        box_addr: BTreeMap::new(),
        silent: silent.clone(),
        cap,
        frees_seen: BTreeMap::new(),
    };
    let mut kinds = Vec::new();
    for i in 0..n_ops {
        let kind = *r.pick(&[OpKind::Read, OpKind::Read, OpKind::SendZc, OpKind::MultiAccept, OpKind::Read, OpKind::Signals]);
        let cancelable = r.chance(2, 3);
        simk::add_fake_fd(fake_fd(i));
        let fd = Box::new(ManuallyDrop::new(unsafe { a10::AsyncFd::from_raw_fd(fake_fd(i), sq.clone()) }));
        let fd_ref: &'static a10::AsyncFd = unsafe { &*(&**fd as *const a10::AsyncFd) };
        let mut kfd = fake_fd(i);
        let fut = match kind {
            OpKind::Read => Fut::Read(Box::pin(fd_ref.read(Vec::with_capacity(16)))),
            OpKind::SendZc => Fut::Send(Box::pin(fd_ref.send(DATA).zc())),
            OpKind::MultiAccept => Fut::Accept(Box::pin(fd_ref.multishot_accept())),
            OpKind::Signals => {
                // A real signalfd (the simulated kernel never reads it); its number is what the
                // READ submissions carry.
                let before: Vec<i32> = open_fds();
                let s = a10::process::Signals::from_signals(sq.clone(), [a10::process::Signal::USER2]).expect("signalfd");
                kfd = open_fds().into_iter().find(|n| !before.contains(n)).expect("the signalfd");
                Fut::Signals(Box::new(s.receive_signals()))
            }
        };
        w.by_fd.insert(kfd, i);
        simk::with(|s| s.cancel_policy.push((kfd, cancelable)));
        w.ops.push(OpSt {
            kind,
            cancelable,
            fut: Some(fut),
            fd,
            kfd,
            signals: None,
            ud: None,
            attempts: Vec::new(),
            posted: Vec::new(),
            posted_all: Vec::new(),
            outputs: Vec::new(),
            finished: false,
            dropped: false,
            last_poll: None,
            woken_since_poll: false,
            ready_processed: false,
            pending_ready: false,
            accepted: Vec::new(),
            bufs_kept: Vec::new(),
        });
        kinds.push((kind, cancelable));
    }
    drop(sq);
    let _ = simk::with(|s| s.take_log());

    let mut events: Vec<Event> = Vec::new();
    let mut next_waker = 100u64;
    // Before which events an operation that never starts (panicking buffer) is polled and dropped.
    let ghost_at: Vec<usize> = if r.chance(1, 3) { (0..r.range(1, 2)).map(|_| r.below(n_events as u64) as usize).collect() } else { Vec::new() };
    let mut ghosts_done: Vec<usize> = Vec::new();
    // C02: a fifth of the histories whose first operation is a multishot one begin with a slow
    // consumer: two results queued, one taken, a third arriving before the second is taken.
    let mut scripted: std::collections::VecDeque<Event> = std::collections::VecDeque::new();
    if focus.prop == "C02" && kinds[0].0 == OpKind::MultiAccept && r.chance(1, 2) {
        let c = |k: i32| Cq { res: 2_100_000 + k, more: true, notif: false };
        scripted.extend([
            Event::Poll(0, 100), Event::RingPoll, Event::KPost(0, c(1)), Event::KPost(0, c(2)), Event::RingPoll,
            Event::Poll(0, 100), Event::KPost(0, c(3)), Event::RingPoll, Event::Poll(0, 100), Event::Poll(0, 100), Event::Poll(0, 100),
        ]);
    }
    for ev_index in 0..n_events + scripted.len() {
        if w.oracle.is_some() {
            break;
        }
        for (g, at) in ghost_at.iter().enumerate() {
            if *at == ev_index && w.do_ghost(g) {
                ghosts_done.push(ev_index);
            }
        }
        if w.oracle.is_some() {
            break;
        }
        // Candidates.
        let pollable: Vec<usize> = (0..n_ops).filter(|&i| w.ops[i].fut.is_some() && !w.ops[i].finished).collect();
        let droppable: Vec<usize> = (0..n_ops).filter(|&i| w.ops[i].fut.is_some()).collect();
        let inflight: Vec<usize> = (0..n_ops)
            .filter(|&i| w.ops[i].ud.is_some_and(|ud| simk::with(|s| s.find_req_by_user_data(ud).is_some())))
            .collect();
        let mut choice = r.below(focus.weights.iter().sum());
        let mut kind = 0;
        for (k, wgt) in focus.weights.iter().enumerate() {
            if choice < *wgt {
                kind = k;
                break;
            }
            choice -= wgt;
        }
        let ev = match kind {
            _ if !scripted.is_empty() => scripted.pop_front().unwrap(),
            0 if !pollable.is_empty() => {
                let i = *r.pick(&pollable);
                let wk = match w.ops[i].last_poll {
                    Some((old, _)) if r.below(100) >= focus.replace_waker_bias => old,
                    _ => {
                        next_waker += 1;
                        next_waker
                    }
                };
                Event::Poll(i, wk)
            }
            1 if !droppable.is_empty() => Event::DropOp(*r.pick(&droppable)),
            3 if !inflight.is_empty() => {
                let i = *r.pick(&inflight);
                Event::KPost(i, gen_cqe(r, &w.ops[i], focus.restart_bias))
            }
            _ => Event::RingPoll,
        };
        w.obs.push(1);
        match &ev {
            Event::Poll(i, wk) => w.do_poll(*i, *wk),
            Event::DropOp(i) => w.do_drop(*i),
            Event::RingPoll => w.do_ring_poll(),
            Event::KPost(i, c) => w.do_kpost(*i, *c),
        }
        events.push(ev);
    }
    // C02: drain every multishot stream that is still held (ring poll, then polls until it has
    // nothing more to give): whatever the kernel posted for it must have come out by then.
    let mut drained: Vec<usize> = Vec::new();
    if focus.prop == "C02" && w.oracle.is_none() {
        for i in 0..n_ops {
            if w.ops[i].kind != OpKind::MultiAccept || w.ops[i].fut.is_none() || w.ops[i].finished {
                continue;
            }
            let mut tail = vec![Event::RingPoll];
            let wk = w.ops[i].last_poll.map_or(next_waker + 1 + i as u64, |p| p.0);
            for _ in 0..w.ops[i].posted_all.len() + 2 {
                tail.push(Event::Poll(i, wk));
            }
            let mut pending_seen = false;
            for ev in tail {
                if w.oracle.is_some() || w.ops[i].finished || pending_seen {
                    break;
                }
                w.obs.push(1);
                match &ev {
                    Event::Poll(i, wk) => {
                        w.do_poll(*i, *wk);
                        pending_seen = w.ops[*i].last_poll.is_some_and(|p| p.1);
                    }
                    _ => w.do_ring_poll(),
                }
                events.push(ev);
            }
            drained.push(i);
        }
    }

    // ---- oracles over the whole history -------------------------------------------------------
    let mut tags = vec![format!("cap:{cap}"), format!("ops:{n_ops}")];
    for i in 0..n_ops {
        let o = &w.ops[i];
        // C02 / C09: what the future handed out against what the kernel posted for it.
        let msg = check_outputs(i, o).or_else(|| {
            // A drained multishot stream has handed out every successful result the kernel posted.
            if !drained.contains(&i) {
                return None;
            }
            let got: Vec<i128> = o.outputs.iter().filter(|x| x.0 == 11).map(|x| x.1).collect();
            let lost: Vec<i128> = o.posted_all.iter().filter(|c| c.res >= 0 && !c.notif).map(|c| c.res as i128).filter(|v| !got.contains(v)).collect();
            (!lost.is_empty()).then(|| format!("multishot operation {i} was polled until it had nothing more to give, but the results {lost:?} the kernel posted for it were never handed out (handed out: {got:?})"))
        });
        if let Some(m) = msg {
            w.fail(m);
        }
        if w.ops[i].attempts.len() > 1 {
            tags.push("restarted".into());
        }
        if w.ops[i].dropped && !w.ops[i].attempts.is_empty() {
            tags.push("dropped-after-start".into());
        }
        tags.push(format!("kind:{:?}", w.ops[i].kind));
    }
    let n_events_run = events.len();

    // ---- teardown: drop futures, then the ring; every started state must be freed exactly once
    for i in 0..n_ops {
        if w.ops[i].fut.is_some() {
            let fut = w.ops[i].fut.take();
            w.ops[i].dropped = true;
            let _ = std::panic::catch_unwind(std::panic::AssertUnwindSafe(move || drop(fut)));
        }
    }
    let ring = w.ring.take().unwrap();
    let _ = std::panic::catch_unwind(std::panic::AssertUnwindSafe(move || drop(ring)));
    for addr in alloc::take_freed() {
        if let Some(op) = w.box_addr.remove(&addr) {
            *w.frees_seen.entry(op).or_default() += 1;
        }
    }
    let double = alloc::take_bad_frees();
    if double > 0 && w.oracle.is_none() {
        w.oracle = Some(format!("{double} operation state(s) were freed twice"));
    }
    for i in 0..n_ops {
        if w.ops[i].ud.is_some() {
            let n = w.frees_seen.get(&i).copied().unwrap_or(0);
            if n != 1 && w.oracle.is_none() {
                w.oracle = Some(format!("the state of operation {i} was freed {n} times by the time the ring was dropped (expected exactly once)"));
            }
        }
    }
    let log = simk::with(|s| s.take_log());
    for e in log {
        if let Ev::Corrupt { what } = e {
            w.fail(what);
        }
    }
    for o in w.ops.iter_mut() {
        for a in o.accepted.drain(..) {
            drop(ManuallyDrop::into_inner(a));
        }
    }
    for mut o in w.ops.drain(..) {
        drop(ManuallyDrop::into_inner(*o.fd));
        if o.kind == OpKind::Signals {
            // Whatever still owns the signalfd queues a CLOSE nobody submits (the ring is gone):
            // close the real descriptor here.
            drop(o.fut.take());
            drop(o.signals.take());
            unsafe { libc::close(o.kfd) };
        }
    }
    for fd in w.ghost_fds.drain(..) {
        drop(ManuallyDrop::into_inner(*fd));
    }
    simk::retire(w.ring_fd);
    alloc::unwatch_all();

    let mut coq = format!("{{| oc_cap := {cap}%N; oc_ops := [");
    let mut json = format!("{{\"sq_entries\":{cap},\"ops\":[");
    for (i, (k, c)) in kinds.iter().enumerate() {
        if i > 0 {
            coq.push_str("; ");
            json.push(',');
        }
        let _ = write!(coq, "({}, {})", if *k == OpKind::MultiAccept { "Multi" } else { "Single" }, c);
        let _ = write!(json, "{{\"kind\":\"{:?}\",\"cancel_wins\":{c}}}", k);
    }
    coq.push_str("]; oc_events := [");
    json.push_str("],\"events\":[");
    for (i, e) in events.iter().enumerate() {
        if i > 0 {
            coq.push_str("; ");
            json.push(',');
        }
        coq.push_str(&coq_event(e));
        json.push_str(&json_event(e));
    }
    coq.push_str("] |}");
    let _ = write!(json, "],\"never_started_operation_polled_and_dropped_before_events\":{:?}}}", ghosts_done);
    if !ghosts_done.is_empty() {
        tags.push("never-started-op(panicking fill)".into());
    }
    tags.sort();
    tags.dedup();
    let nontrivial = n_events_run >= 4 && events.iter().any(|e| matches!(e, Event::KPost(..)));
    Case { coq, obs: w.obs, json, oracle: w.oracle, known: None, tags, nontrivial }
}

/// C02/C09 oracle: outputs of one operation against the completions posted for it.
fn check_outputs(i: usize, o: &OpSt) -> Option<String> {
    let restart = |v: i128| v == -4 || v == -125;
    match o.kind {
        OpKind::Read | OpKind::SendZc | OpKind::Signals => {
            if o.outputs.len() > 1 {
                return Some(format!("operation {i} resolved {} times", o.outputs.len()));
            }
            if let Some(&(code, v)) = o.outputs.first() {
                if code == 12 && restart(v) {
                    return Some(format!("operation {i} surfaced the interruption {v} to the caller"));
                }
                // The value is the first (non-notification) result of the last attempt, and the
                // operation resolved only after its final completion.
                let first = o.posted.iter().find(|c| !c.notif);
                let fin = o.posted.iter().any(|c| !c.more);
                match first {
                    None => return Some(format!("operation {i} resolved with {v} although the kernel posted nothing for its last attempt")),
                    Some(c) => {
                        if !fin {
                            return Some(format!("operation {i} resolved before its final completion"));
                        }
                        if c.res as i128 != v && !(c.res < 0 && v == -(95)) {
                            return Some(format!("operation {i} resolved with {v} but the kernel's result was {}", c.res));
                        }
                    }
                }
            }
            None
        }
        OpKind::MultiAccept => {
            let ends = o.outputs.iter().filter(|x| x.0 == 13).count();
            if ends > 1 {
                return Some(format!("multishot operation {i} ended {ends} times"));
            }
            // C09: a stream whose request was interrupted is restarted, it does not end: the final
            // completion (no F_MORE) behind an end of stream is never EINTR / ECANCELED.
            if ends == 1 && !o.dropped {
                if let Some(last) = o.posted_all.iter().rev().find(|c| !c.more) {
                    if restart(last.res as i128) {
                        return Some(format!("multishot operation {i}: the stream ended although its last final completion was the interruption {} (it has to be restarted transparently)", last.res));
                    }
                }
            }
            if o.outputs.iter().any(|x| x.0 == 12 && restart(x.1)) && !o.dropped {
                // A restart at the end of the stream must not surface either.
                return Some(format!("multishot operation {i} surfaced an interruption to the caller"));
            }
            // Identity and order: the successful results handed out are results the kernel posted
            // for this operation, each at most once, in the order it posted them (the descriptor
            // numbers are unique per history).
            let posted_ok: Vec<i128> = o.posted_all.iter().filter(|c| c.res >= 0 && !c.notif).map(|c| c.res as i128).collect();
            let mut at = 0usize;
            for (code, v) in o.outputs.iter() {
                if *code != 11 {
                    continue;
                }
                match posted_ok[at..].iter().position(|p| p == v) {
                    Some(k) => at += k + 1,
                    None => {
                        return Some(if posted_ok.contains(v) {
                            format!("multishot operation {i} handed out result {v} out of order (or twice): the kernel posted {posted_ok:?}, the stream yielded {:?}", o.outputs.iter().filter(|x| x.0 == 11).map(|x| x.1).collect::<Vec<_>>())
                        } else {
                            format!("multishot operation {i} handed out {v}, which the kernel never posted for it ({posted_ok:?})")
                        });
                    }
                }
            }
            None
        }
    }
}

pub fn run_with(args: &Args, focus: Focus) -> i32 {
    simk::install();
    let silent: Arc<Mutex<Option<String>>> = Arc::new(Mutex::new(None));
    let s2 = silent.clone();
    std::panic::set_hook(Box::new(move |info| {
        *s2.lock().unwrap() = Some(info.to_string());
    }));
    let n = args.n.unwrap_or(if args.thorough { 40_000 } else { 1_500 });
    let root = Rng::new(args.seed ^ focus.prop.bytes().fold(0u64, |a, b| a.wrapping_mul(131) + b as u64));
    let mut cases = out::run_forked(&args.out, n, 12, &|i| {
        let mut r = root.fork(i as u64);
        one_case(&mut r, &focus, &silent)
    });
    if matches!(focus.prop, "C03" | "C06" | "C01") {
        // Second part: futures and ring on different threads (C06, C01: the futures are also
        // dropped while the other thread polls the ring).
        let n2 = if args.thorough { 20_000 } else { 1_500 };
        let with_drops = focus.prop != "C03";
        let more = out::run_forked(&args.out, n2, 12, &|i| {
            let mut r = root.fork(1_000_000 + i as u64);
            sched_case(&mut r, &silent, with_drops)
        });
        cases.extend(more);
    }
    let _ = std::panic::take_hook();
    let spec = Spec { prop: focus.prop, imports: &["Model.OpState"], run_fn: "run_opcase", case_ty: "opcase", shard: 400 };
    out::write_all(&args.out, &spec, &cases, &[]);
    0
}

pub fn run(args: &Args) -> i32 {
    let focus = match args.prop.as_str() {
        "C01" => Focus { prop: "C01", weights: [4, 3, 3, 4], restart_bias: 15, replace_waker_bias: 30 },
        "C02" => Focus { prop: "C02", weights: [5, 1, 3, 5], restart_bias: 5, replace_waker_bias: 30 },
        "C03" => Focus { prop: "C03", weights: [6, 1, 4, 4], restart_bias: 10, replace_waker_bias: 60 },
        "C06" => Focus { prop: "C06", weights: [3, 4, 3, 3], restart_bias: 10, replace_waker_bias: 20 },
        _ => Focus { prop: "C09", weights: [5, 1, 3, 5], restart_bias: 50, replace_waker_bias: 30 },
    };
    run_with(args, focus)
}

// ---------------------------------------------------------------------------------------------
// C03, two threads: the futures are polled on one thread while the ring is polled on another,
// interleaved by the baton scheduler at every hook-B point. No model replay in THIS driver (the OpState model's
// steps are whole API calls); the oracle is the property itself: after the race and a few more
// `Ring::poll` calls every future that is still pending must have been woken since its last poll.

pub fn sched_case(r: &mut Rng, silent: &Arc<Mutex<Option<String>>>, with_drops: bool) -> Case {
    use crate::sched;
    alloc::enable(false);
    alloc::unwatch_all();
    let _ = alloc::take_bad_frees();
    let drop_seed = r.next();
    let cap = *r.pick(&[1u32, 1, 2]);
    let n_futs = r.range(2, 4) as usize;
    let ring_polls = r.range(1, 4) as usize;
    let rounds = r.range(1, 3) as usize;
    let preempt = *r.pick(&[10u64, 25, 40, 60]);
    let prefix: Vec<usize> = (0..300).map(|_| if r.below(100) < preempt { 1 } else { 0 }).collect();
    simk::configure(simk::SetupConfig { sq_start: r.next() as u32, cq_start: r.next() as u32, auto_complete: Some((7, 0)), ..Default::default() });
    let ring = a10::Ring::config().with_submission_queue_size(cap).with_completion_queue_size(64).build().expect("ring on the simulated kernel");
    let ring_fd = simk::with(|s| s.fd);
    let sq = ring.sq();
    let wakes = WakeLog::default();
    let mut fds: Vec<Box<ManuallyDrop<a10::AsyncFd>>> = Vec::new();
    type BoxFut = Pin<Box<dyn Future<Output = std::io::Result<usize>> + Send>>;
    let mut futs: Vec<BoxFut> = Vec::new();
    for i in 0..n_futs {
        simk::add_fake_fd(fake_fd(i));
        let fd = Box::new(ManuallyDrop::new(unsafe { a10::AsyncFd::from_raw_fd(fake_fd(i), sq.clone()) }));
        let fd_ref: &'static a10::AsyncFd = unsafe { &*(&**fd as *const a10::AsyncFd) };
        fds.push(fd);
        futs.push(Box::pin(fd_ref.write(DATA)));
    }
    // Shared bookkeeping: per future (finished, polled at least once); wake flags come from the log.
    struct Shared {
        futs: Vec<Option<Pin<Box<dyn Future<Output = std::io::Result<usize>> + Send>>>>,
        pending_since_wake: Vec<bool>, // last poll returned Pending and no wake seen since
        polled: Vec<bool>,
        boxes: Vec<Option<usize>>,     // address of the operation's state once its submission was queued
        dropped_by_thread: Vec<bool>,
    }
    let shared = Arc::new(Mutex::new(Shared { futs: futs.into_iter().map(Some).collect(), pending_since_wake: vec![false; n_futs], polled: vec![false; n_futs], boxes: vec![None; n_futs], dropped_by_thread: vec![false; n_futs] }));
    let ring_cell = Arc::new(Mutex::new(Some(ring)));
    let mut threads: Vec<Box<dyn FnOnce() + Send>> = Vec::new();
    {
        let ring_cell = ring_cell.clone();
        threads.push(Box::new(move || {
            let mut ring = ring_cell.lock().unwrap().take().unwrap();
            for _ in 0..ring_polls {
                let _ = ring.poll(Some(Duration::ZERO));
            }
            *ring_cell.lock().unwrap() = Some(ring);
        }));
    }
    {
        let shared = shared.clone();
        let wakes = wakes.clone();
        threads.push(Box::new(move || {
            for round in 0..=rounds {
                // Account for wake-ups seen so far.
                let woken = wakes.take();
                for i in 0..n_futs {
                    let need = {
                        let mut sh = shared.lock().unwrap();
                        if woken.contains(&(i as u64)) {
                            sh.pending_since_wake[i] = false;
                        }
                        sh.futs[i].is_some() && (!sh.polled[i] || !sh.pending_since_wake[i])
                    };
                    if !need {
                        continue;
                    }
                    // Take the future out while polling: the poll runs a10 code with scheduling
                    // points, the bookkeeping lock must not be held across it.
                    let mut f = shared.lock().unwrap().futs[i].take().unwrap();
                    let w = wakes.waker(i as u64);
                    let res = poll_once(f.as_mut(), &w);
                    // The submission (if queued by this poll) is still pending: learn the state's address.
                    let queued: Vec<abi::Sqe> = simk::with(|s| s.pending_sqes());
                    let mut sh = shared.lock().unwrap();
                    for q in queued {
                        if q.opcode != abi::OP_ASYNC_CANCEL && q.fd == fake_fd(i) && sh.boxes[i].is_none() {
                            let addr = (q.user_data & !1) as usize;
                            alloc::watch(addr);
                            sh.boxes[i] = Some(addr);
                        }
                    }
                    sh.polled[i] = true;
                    match res {
                        Poll::Pending => {
                            sh.pending_since_wake[i] = true;
                            sh.futs[i] = Some(f);
                        }
                        Poll::Ready(_) => {
                            sh.pending_since_wake[i] = false;
                            drop(f);
                        }
                    }
                }
                if round < rounds {
                    sched::yield_point(100);
                }
            }
            if with_drops {
                // Drop some of the futures that are still pending, racing with the ring thread.
                let mut dr = Rng::new(drop_seed);
                for i in 0..n_futs {
                    if dr.chance(1, 2) {
                        let f = shared.lock().unwrap().futs[i].take();
                        if let Some(f) = f {
                            shared.lock().unwrap().dropped_by_thread[i] = true;
                            drop(f);
                        }
                    }
                }
            }
        }));
    }
    let _ = simk::with(|s| s.take_log());
    let out = sched::run(threads, &prefix);
    let mut oracle: Option<String> = None;
    if let Some(p) = &out.panicked {
        let msg = silent.lock().unwrap().take().unwrap_or_default();
        oracle = Some(format!("a thread panicked: {p} {msg}"));
    }
    // More Ring::poll calls, nothing else happening: every pending future must get its wake-up.
    let mut ring = ring_cell.lock().unwrap().take();
    if let Some(ring) = ring.as_mut() {
        for _ in 0..(n_futs + 2) {
            let _ = std::panic::catch_unwind(std::panic::AssertUnwindSafe(|| ring.poll(Some(Duration::ZERO))));
        }
    }
    let woken = wakes.take();
    {
        let mut sh = shared.lock().unwrap();
        for i in 0..n_futs {
            if woken.contains(&(i as u64)) {
                sh.pending_since_wake[i] = false;
            }
            if sh.futs[i].is_some() && sh.polled[i] && sh.pending_since_wake[i] && oracle.is_none() {
                let parked = simk::with(|s| s.sq_pending()) == 0;
                oracle = Some(format!(
                    "future {i} returned Pending and was never woken although Ring::poll was called {} more times afterwards ({}); an executor that re-polls only when woken is stuck",
                    n_futs + 2,
                    if parked { "the submission queue is empty: it was waiting for a slot" } else { "its completion was processed" }
                ));
            }
        }
    }
    for e in simk::with(|s| s.take_log()) {
        if let Ev::Corrupt { what } = e {
            oracle.get_or_insert(what);
        }
    }
    // Teardown.
    let rest: Vec<_> = shared.lock().unwrap().futs.drain(..).collect();
    let _ = std::panic::catch_unwind(std::panic::AssertUnwindSafe(move || drop(rest)));
    drop(sq);
    let _ = std::panic::catch_unwind(std::panic::AssertUnwindSafe(move || drop(ring)));
    // C06/C01: every started operation's state is freed exactly once by now.
    {
        let freed = alloc::take_freed();
        let sh = shared.lock().unwrap();
        for i in 0..n_futs {
            if let Some(addr) = sh.boxes[i] {
                // only the first free of the address is the state's (the address may be reused)
                let n = freed.iter().filter(|a| **a == addr).count();
                if n == 0 && oracle.is_none() {
                    oracle = Some(format!(
                        "the state of operation {i} ({}) was never freed although its future and the ring were dropped: leaked",
                        if sh.dropped_by_thread[i] { "future dropped while the other thread polled the ring" } else { "future dropped at the end" }
                    ));
                }
            }
        }
        let double = alloc::take_bad_frees();
        if double > 0 && oracle.is_none() {
            oracle = Some(format!("{double} operation state(s) were freed twice"));
        }
    }
    alloc::unwatch_all();
    for fd in fds {
        drop(ManuallyDrop::into_inner(*fd));
    }
    simk::retire(ring_fd);
    let mut js = String::new();
    for (k, (t, p)) in out.exec.iter().enumerate() {
        if k > 0 {
            js.push(',');
        }
        let _ = write!(js, "\"T{t}@{p}\"");
    }
    let preemptions = out.trace.iter().filter(|t| t.2).count();
    let json = format!("{{\"two_threads\":true,\"sq_entries\":{cap},\"futures\":{n_futs},\"ring_polls\":{ring_polls},\"rounds\":{rounds},\"schedule\":[{js}]}}");
    Case {
        coq: String::new(),
        obs: vec![],
        json,
        oracle,
        known: None,
        tags: vec![format!("two-thread:cap{cap}"), format!("two-thread:preemptions:{}", preemptions.min(6))],
        nontrivial: preemptions > 0,
    }
}

//! C08 — ReadBufPool buffers are conserved and exclusively owned.
//!
//! Real `ReadBufPool`s (1, 2, 4, 8 buffers of 1..64 bytes) on the simulated kernel and real pool
//! operations: `read(pool.get())`, `recv(pool.get())`, `multishot_read(pool)`, `multishot_recv(pool)`.
//! The harness plays the kernel: it takes the entry at the head of the registered buffer ring
//! (`pbuf_pick`), stores a per-completion byte pattern through the entry's address and completes
//! the request with `IORING_CQE_F_BUFFER | bid << 16` (`-ENOBUFS` when nothing is offered).
//! A generated history interleaves starts, kernel picks, `Ring::poll`, polls of the futures
//! (which yield `ReadBuf`s), edits, `release()`s and drops of `ReadBuf`s in any order, drops of
//! futures while in flight (cancellation winning or losing), a block in which two threads release
//! `ReadBuf`s of the same pool under the baton scheduler while a kernel thread picks, and (in a few
//! cases per run) more than 70 000 pick/deliver/release rounds on a pool of two so that the 16-bit
//! ring tail wraps. The same history runs on Model/BufPool.v.
//!
//! The oracle looks only at the simulator's view of the ring and at the `ReadBuf`s: no id offered
//! twice, every offered entry well formed, no offered buffer overlapping a live `ReadBuf`, the
//! kernel never handed a buffer that is still held, the bytes of every live `ReadBuf` still the
//! pattern written for it, and at the end (everything delivered, every `ReadBuf` dropped, nothing
//! in flight) every buffer offered again.

use std::collections::{BTreeSet, VecDeque};
use std::fmt::Write as _;
use std::future::Future;
use std::mem::ManuallyDrop;
use std::pin::Pin;
use std::sync::{Arc, Mutex};
use std::task::Poll;
use std::time::Duration;

use a10::io::{ReadBuf, ReadBufPool};

use crate::out::{self, Case, Spec};
use crate::rng::Rng;
use crate::simk::{self, abi, Ev};
use crate::util::{poll_once, WakeLog};
use crate::{sched, Args};

const ENOBUFS: i32 = 105;
const KPOINT: u32 = 100;
const RECV_MULTISHOT: u16 = 1 << 1;
const NOPS: usize = 4;
const KNOWN_H11: &str = "pool-buffer-picked-for-abandoned-op";

#[derive(Clone, Copy, Debug, PartialEq, Eq)]
enum Kind {
    Read,
    Recv,
    MultiRead,
    MultiRecv,
}

impl Kind {
    fn multi(self) -> bool {
        matches!(self, Kind::MultiRead | Kind::MultiRecv)
    }
    fn name(self) -> &'static str {
        match self {
            Kind::Read => "read",
            Kind::Recv => "recv",
            Kind::MultiRead => "multishot_read",
            Kind::MultiRecv => "multishot_recv",
        }
    }
}

#[derive(Clone, Debug)]
enum Bev {
    Start(usize, Kind, bool),
    KPick(usize, u32),
    KEof(usize),
    RingPoll,
    Deliver(usize, usize),
    DropOp(usize),
    Edit(usize, usize),
    Release(usize),
    DropBuf(usize),
    PoolDrop,
    Spawn(Vec<Vec<(bool, usize)>>),
    T(usize),
    Join,
}

#[derive(Clone, Debug)]
enum Event {
    E(Bev),
    Rep(u64, Vec<Bev>),
}

fn coq_bev(e: &Bev) -> String {
    match e {
        Bev::Start(o, k, c) => format!("Start {o}%nat {} {c}", if k.multi() { "Multi" } else { "Single" }),
        Bev::KPick(o, len) => format!("KPick {o}%nat {len}%N"),
        Bev::KEof(o) => format!("KEof {o}%nat"),
        Bev::RingPoll => "RingPoll".into(),
        Bev::Deliver(o, b) => format!("Deliver {o}%nat {b}%nat"),
        Bev::DropOp(o) => format!("DropOp {o}%nat"),
        Bev::Edit(b, n) => format!("Edit {b}%nat {n}%N"),
        Bev::Release(b) => format!("Release {b}%nat"),
        Bev::DropBuf(b) => format!("DropBuf {b}%nat"),
        Bev::PoolDrop => "PoolDrop".into(),
        Bev::Spawn(progs) => {
            let ps: Vec<String> = progs
                .iter()
                .map(|p| format!("[{}]", p.iter().map(|(d, b)| format!("({d}, {b}%nat)")).collect::<Vec<_>>().join("; ")))
                .collect();
            format!("Spawn [{}]", ps.join("; "))
        }
        Bev::T(i) => format!("T {i}%nat"),
        Bev::Join => "Join".into(),
    }
}

fn json_bev(e: &Bev) -> String {
    match e {
        Bev::Start(o, k, c) => format!("\"start(op{o},{},cancel_wins={c})\"", k.name()),
        Bev::KPick(o, len) => format!("\"kernel_picks(op{o},bytes<={len})\""),
        Bev::KEof(o) => format!("\"kernel_ends(op{o},res=0,no buffer)\""),
        Bev::RingPoll => "\"ring_poll\"".into(),
        Bev::Deliver(o, b) => format!("\"poll(op{o})->readbuf{b}\""),
        Bev::DropOp(o) => format!("\"drop_future(op{o})\""),
        Bev::Edit(b, n) => format!("\"resize(readbuf{b},{n})\""),
        Bev::Release(b) => format!("\"release(readbuf{b})\""),
        Bev::DropBuf(b) => format!("\"drop(readbuf{b})\""),
        Bev::PoolDrop => "\"drop(pool handle)\"".into(),
        Bev::Spawn(progs) => {
            let ps: Vec<String> = progs
                .iter()
                .map(|p| format!("[{}]", p.iter().map(|(d, b)| format!("\"{}(readbuf{b})\"", if *d { "drop" } else { "release" })).collect::<Vec<_>>().join(",")))
                .collect();
            format!("{{\"threads\":[{}]}}", ps.join(","))
        }
        Bev::T(i) => format!("\"T{i}\""),
        Bev::Join => "\"join\"".into(),
    }
}

type SingleFut = Pin<Box<dyn Future<Output = std::io::Result<ReadBuf>>>>;

enum Fut {
    Single(SingleFut),
    MRead(Pin<Box<a10::io::MultishotRead<'static>>>),
    MRecv(Pin<Box<a10::net::MultishotRecv<'static>>>),
}

/// What the kernel posted for a request.
#[derive(Clone, Debug)]
enum Posted {
    Buf { bid: u16, addr: usize, n: u32, comp: u64 },
    NoBufs,
    Eof,
}

struct OpSlot {
    fd: Box<ManuallyDrop<a10::AsyncFd>>,
    fut: Option<Fut>,
    kind: Kind,
    used: bool,
    /// The future was dropped before it finished.
    dropped: bool,
    posted: VecDeque<Posted>,
}

struct Held {
    rb: ReadBuf,
    /// Bytes the buffer must hold (owning ReadBufs).
    expect: Vec<u8>,
    /// Address and id the kernel used for it.
    addr: Option<usize>,
    bid: Option<u16>,
    comp: u64,
}

#[derive(Clone, Copy)]
struct Geom {
    ring_fd: i32,
    bgid: u16,
    base: usize,
    n: usize,
    size: usize,
}

fn fake_fd(o: usize) -> i32 {
    1_000_000 + o as i32
}

fn pat(comp: u64, k: usize) -> u8 {
    (comp.wrapping_mul(37).wrapping_add((k as u64).wrapping_mul(11)).wrapping_add(0x5A) & 0xFF) as u8
}

fn digest(mut h: i128, o: &[i128]) -> i128 {
    for x in o {
        h = ((h << 5) + h + *x + 7) & 0x3FFF_FFFF;
    }
    h
}

struct PickOut {
    obs: Vec<i128>,
    item: Option<Posted>,
    fault: Option<String>,
}

/// The kernel's side of a pool read: select the buffer at the ring head for the request on `fd`,
/// store `min(len, entry.len)` pattern bytes, complete. Usable from the kernel thread.
fn kernel_pick(g: &Geom, fd: i32, len: u32, comp: u64, busy: &Mutex<BTreeSet<u16>>, abandoned: bool) -> PickOut {
    simk::with_fd(g.ring_fd, |s| {
        let Some((req, sqe)) = s.inflight.iter().find(|r| r.sqe.fd == fd).map(|r| (r.req, r.sqe)) else {
            return PickOut { obs: vec![-9], item: None, fault: None };
        };
        let mut fault = None;
        if sqe.flags & abi::SQE_BUFFER_SELECT == 0 || sqe.buf_index != g.bgid {
            fault = Some(format!("pool request without IOSQE_BUFFER_SELECT / with buffer group {} (pool is group {})", sqe.buf_index, g.bgid));
        }
        let multi = sqe.opcode == abi::OP_READ_MULTISHOT || (sqe.opcode == abi::OP_RECV && sqe.ioprio & RECV_MULTISHOT != 0);
        // What the kernel reads when it selects: its own head and the published tail.
        if let Some(ring) = s.pbufs.get(&g.bgid) {
            let tail = unsafe { (*((ring.addr as usize + 14) as *const std::sync::atomic::AtomicU16)).load(std::sync::atomic::Ordering::SeqCst) };
            let ahead = tail.wrapping_sub(ring.head);
            if ahead as usize > g.n {
                fault = Some(format!(
                    "when selecting a buffer the kernel reads tail {tail} with its head at {}: {ahead} entries published in a ring of {}",
                    ring.head, g.n
                ));
            }
        }
        match s.pbuf_pick(g.bgid) {
            None => {
                s.complete(req, -ENOBUFS, 0);
                PickOut { obs: vec![-(ENOBUFS as i128)], item: Some(Posted::NoBufs), fault }
            }
            Some((bid, addr, elen)) => {
                let n = len.min(elen);
                let addr = addr as usize;
                let well_formed = (bid as usize) < g.n && addr == g.base + bid as usize * g.size && elen as usize == g.size;
                if !well_formed {
                    fault.get_or_insert(format!(
                        "the kernel found the entry (bid {bid}, offset {}, len {elen}) at the ring head: not a buffer of the pool ({} buffers of {} bytes)",
                        addr as i128 - g.base as i128,
                        g.n,
                        g.size
                    ));
                } else {
                    let mut b = busy.lock().unwrap();
                    if b.contains(&bid) {
                        fault.get_or_insert(format!("the kernel was handed buffer {bid} although it is still held (owned by a live ReadBuf or picked for a completion not yet delivered)"));
                    }
                    if !abandoned {
                        b.insert(bid);
                    }
                    drop(b);
                    for k in 0..n as usize {
                        unsafe { (addr as *mut u8).add(k).write_volatile(pat(comp, k)) };
                    }
                }
                let mut flags = abi::CQE_F_BUFFER | ((bid as u32) << abi::CQE_BUFFER_SHIFT);
                if multi {
                    flags |= abi::CQE_F_MORE;
                }
                s.complete(req, n as i32, flags);
                PickOut {
                    obs: vec![bid as i128, addr as i128 - g.base as i128, n as i128],
                    item: Some(Posted::Buf { bid, addr, n, comp }),
                    fault,
                }
            }
        }
    })
    .unwrap_or(PickOut { obs: vec![-9], item: None, fault: Some("the ring is gone".into()) })
}

struct World {
    ring: Option<a10::Ring>,
    g: Geom,
    pool: Option<ReadBufPool>,
    ops: Vec<OpSlot>,
    bufs: Vec<Option<Held>>,
    wakes: WakeLog,
    oracle: Option<String>,
    known: Option<String>,
    silent: Arc<Mutex<Option<String>>>,
    ncomp: u64,
    /// Ids the kernel may not be handed: in transit or owned by a ReadBuf whose release has not begun.
    busy: Arc<Mutex<BTreeSet<u16>>>,
    /// Ids picked for a request whose future was dropped before the completion became a ReadBuf.
    abandoned_ids: Vec<u16>,
    delivered: usize,
    released: usize,
    tail_wrapped: bool,
}

impl World {
    fn fail(&mut self, what: String) {
        if self.oracle.is_none() {
            self.oracle = Some(what);
            self.known = None;
        }
    }

    fn registered(&self) -> bool {
        let g = self.g;
        simk::with_fd(g.ring_fd, |s| s.pbufs.contains_key(&g.bgid)).unwrap_or(false)
    }

    fn in_flight(&self, o: usize) -> bool {
        simk::with_fd(self.g.ring_fd, |s| s.inflight.iter().any(|r| r.sqe.fd == fake_fd(o))).unwrap_or(false)
    }

    /// `Ring::poll` until nothing is left to submit or to process.
    fn settle(&mut self) {
        for _ in 0..8 {
            let ring = self.ring.as_mut().unwrap();
            let r = std::panic::catch_unwind(std::panic::AssertUnwindSafe(|| ring.poll(Some(Duration::ZERO))));
            match r {
                Err(_) => {
                    let msg = self.silent.lock().unwrap().take().unwrap_or_default();
                    self.fail(format!("Ring::poll panicked: {msg}"));
                    return;
                }
                Ok(Err(e)) => {
                    self.fail(format!("Ring::poll failed: {e}"));
                    return;
                }
                Ok(Ok(())) => {}
            }
            let quiet = simk::with_fd(self.g.ring_fd, |s| s.sq_pending() == 0 && s.cq_ready() == 0 && s.overflow.is_empty()).unwrap_or(true);
            if quiet {
                break;
            }
        }
        for e in simk::with_fd(self.g.ring_fd, |s| s.take_log()).unwrap_or_default() {
            if let Ev::Corrupt { what } = e {
                self.fail(what);
            }
        }
    }

    fn owning(rb: &ReadBuf) -> Option<usize> {
        let p = rb.as_slice().as_ptr() as usize;
        if p > 4096 { Some(p) } else { None }
    }

    /// What the model calls the snapshot: the kernel's view of the ring and the live ReadBufs.
    fn snapshot(&self) -> Vec<i128> {
        if !self.registered() {
            return vec![-3];
        }
        let g = self.g;
        let avail = simk::with_fd(g.ring_fd, |s| s.pbuf_available(g.bgid)).unwrap_or_default();
        let mut o: Vec<i128> = vec![-1];
        let mut ids: Vec<i128> = avail.iter().take(g.n + 1).map(|e| e.0 as i128).collect();
        ids.sort_unstable();
        o.extend(ids);
        o.push(-2);
        for e in avail.iter().take(g.n + 1) {
            o.push(e.0 as i128);
            o.push(e.1 as i128 - g.base as i128);
            o.push(e.2 as i128);
        }
        o.push(-4);
        for (i, h) in self.bufs.iter().enumerate() {
            if let Some(h) = h {
                o.push(i as i128);
                match World::owning(&h.rb) {
                    Some(p) => {
                        o.push(p as i128 - g.base as i128);
                        o.push(h.rb.len() as i128);
                    }
                    None => {
                        o.push(-1);
                        o.push(0);
                    }
                }
            }
        }
        o
    }

    /// The oracle, after every event outside the threaded block.
    fn check_all(&mut self) {
        let g = self.g;
        if !self.registered() {
            if self.bufs.iter().any(|h| h.is_some()) {
                self.fail("the pool was unregistered and freed while a ReadBuf of it is alive".into());
            }
            // The kernel keeps selecting (and writing into) buffers of the group for as long as a
            // request naming the group is in flight: the last handle (held by the operation, also
            // after its future or stream was dropped) must outlive the request's final completion.
            let flying: Vec<i32> = simk::with_fd(g.ring_fd, |s| {
                s.inflight.iter().filter(|q| q.sqe.flags & abi::SQE_BUFFER_SELECT != 0 && q.sqe.buf_index == g.bgid).map(|q| q.sqe.fd).collect()
            })
            .unwrap_or_default();
            if let Some(fd) = flying.first() {
                self.fail(format!(
                    "the pool was unregistered and its memory freed while the kernel still has operation {} in flight with buffer selection from it (no final completion yet): the kernel can still write into the freed buffers",
                    fd - fake_fd(0)
                ));
            }
            return;
        }
        let avail = simk::with_fd(g.ring_fd, |s| s.pbuf_available(g.bgid)).unwrap_or_default();
        if avail.len() > g.n {
            self.fail(format!("{} entries are offered in a ring of {}", avail.len(), g.n));
            return;
        }
        let mut seen = BTreeSet::new();
        for (bid, addr, len) in &avail {
            if !seen.insert(*bid) {
                let msg = format!("buffer {bid} is offered to the kernel twice: {:?}", avail.iter().map(|e| e.0).collect::<Vec<_>>());
                self.fail(msg);
                return;
            }
            let ok = (*bid as usize) < g.n && *addr as usize == g.base + *bid as usize * g.size && *len as usize == g.size;
            if !ok {
                let msg = format!(
                    "offered entry (bid {bid}, offset {}, len {len}) is not a buffer of the pool ({} x {} bytes)",
                    *addr as i128 - g.base as i128,
                    g.n,
                    g.size
                );
                self.fail(msg);
                return;
            }
        }
        let mut starts: Vec<(usize, usize)> = Vec::new();
        for i in 0..self.bufs.len() {
            let Some(h) = &self.bufs[i] else { continue };
            let Some(p) = World::owning(&h.rb) else {
                if h.addr.is_some() {
                    self.fail(format!("ReadBuf {i} lost its buffer without being released"));
                    return;
                }
                continue;
            };
            if h.addr.is_none() {
                let msg = format!("ReadBuf {i} still points into the pool (offset {}) after it was released", p as i128 - g.base as i128);
                self.fail(msg);
                return;
            }
            if Some(p) != h.addr {
                let msg = format!(
                    "ReadBuf {i} points at offset {} but the kernel stored its data at offset {:?}",
                    p as i128 - g.base as i128,
                    h.addr.map(|a| a as i128 - g.base as i128)
                );
                self.fail(msg);
                return;
            }
            for (bid, addr, len) in &avail {
                let a = *addr as usize;
                if a < p + g.size && p < a + *len as usize {
                    self.fail(format!("buffer {bid} is offered to the kernel while live ReadBuf {i} owns it (offset {})", p - g.base));
                    return;
                }
            }
            if let Some((j, _)) = starts.iter().find(|(_, q)| *q == p) {
                self.fail(format!("ReadBufs {j} and {i} own the same buffer (offset {})", p - g.base));
                return;
            }
            starts.push((i, p));
            let got = h.rb.as_slice();
            if got != &h.expect[..] {
                let msg = format!(
                    "the bytes held by ReadBuf {i} (buffer {:?}) changed: expected {:?}, found {:?}",
                    h.bid,
                    &h.expect[..h.expect.len().min(8)],
                    &got[..got.len().min(8)]
                );
                self.fail(msg);
                return;
            }
        }
    }

    fn begin_release(&mut self, b: usize) {
        if let Some(h) = &self.bufs[b] {
            if let Some(bid) = h.bid {
                if World::owning(&h.rb).is_some() {
                    self.busy.lock().unwrap().remove(&bid);
                    self.released += 1;
                }
            }
        }
    }

    /// Runs one event against the implementation; returns the event's own observation.
    fn exec(&mut self, e: &Bev) -> Vec<i128> {
        match e {
            Bev::Start(o, kind, cancel) => {
                let o = *o;
                let Some(pool) = self.pool.as_ref() else { return vec![0] };
                let fd_ref: &'static a10::AsyncFd = unsafe { &*(&**self.ops[o].fd as *const a10::AsyncFd) };
                let fut = match kind {
                    Kind::Read => Fut::Single(Box::pin(fd_ref.read(pool.get()))),
                    Kind::Recv => Fut::Single(Box::pin(fd_ref.recv(pool.get()))),
                    Kind::MultiRead => Fut::MRead(Box::pin(fd_ref.multishot_read(pool.clone()))),
                    Kind::MultiRecv => Fut::MRecv(Box::pin(fd_ref.multishot_recv(pool.clone()))),
                };
                simk::with_fd(self.g.ring_fd, |s| {
                    s.cancel_policy.retain(|p| p.0 != fake_fd(o));
                    s.cancel_policy.push((fake_fd(o), *cancel));
                });
                let slot = &mut self.ops[o];
                slot.fut = Some(fut);
                slot.kind = *kind;
                slot.used = true;
                slot.dropped = false;
                slot.posted.clear();
                // First poll queues the submission; the ring poll hands it to the kernel.
                let waker = self.wakes.waker(o as u64);
                let pending = match slot.fut.as_mut().unwrap() {
                    Fut::Single(f) => poll_once(f.as_mut(), &waker).is_pending(),
                    Fut::MRead(f) => {
                        let mut ctx = std::task::Context::from_waker(&waker);
                        f.as_mut().poll_next(&mut ctx).is_pending()
                    }
                    Fut::MRecv(f) => {
                        let mut ctx = std::task::Context::from_waker(&waker);
                        f.as_mut().poll_next(&mut ctx).is_pending()
                    }
                };
                if !pending {
                    self.fail(format!("operation {o} resolved before the kernel saw it"));
                }
                self.settle();
                if !self.in_flight(o) {
                    self.fail(format!("operation {o} was polled and the ring was polled but the kernel has no request for it"));
                }
                vec![1]
            }
            Bev::KPick(o, len) => {
                let comp = self.ncomp;
                self.ncomp += 1;
                let abandoned = self.ops[*o].dropped;
                let out = kernel_pick(&self.g, fake_fd(*o), *len, comp, &self.busy, abandoned);
                self.integrate_pick(*o, out)
            }
            Bev::KEof(o) => {
                let g = self.g;
                let done = simk::with_fd(g.ring_fd, |s| {
                    let req = s.inflight.iter().find(|r| r.sqe.fd == fake_fd(*o)).map(|r| r.req);
                    req.map(|req| s.complete(req, 0, 0))
                })
                .flatten();
                match done {
                    Some(_) => {
                        if !self.ops[*o].dropped {
                            self.ops[*o].posted.push_back(Posted::Eof);
                        }
                        vec![0]
                    }
                    None => vec![-9],
                }
            }
            Bev::RingPoll => {
                self.settle();
                vec![]
            }
            Bev::Deliver(o, b) => self.do_deliver(*o, *b),
            Bev::DropOp(o) => {
                let slot = &mut self.ops[*o];
                let Some(fut) = slot.fut.take() else { return vec![0] };
                slot.dropped = true;
                let lost: Vec<u16> = slot.posted.drain(..).filter_map(|p| if let Posted::Buf { bid, .. } = p { Some(bid) } else { None }).collect();
                for bid in lost {
                    self.busy.lock().unwrap().remove(&bid);
                    self.abandoned_ids.push(bid);
                }
                let r = std::panic::catch_unwind(std::panic::AssertUnwindSafe(move || drop(fut)));
                if r.is_err() {
                    let msg = self.silent.lock().unwrap().take().unwrap_or_default();
                    self.fail(format!("dropping operation {o} panicked: {msg}"));
                }
                vec![1]
            }
            Bev::Edit(b, nl) => {
                let Some(h) = self.bufs[*b].as_mut() else { return vec![-9] };
                match World::owning(&h.rb) {
                    None => {
                        h.rb.truncate(*nl);
                        vec![-1, 0]
                    }
                    Some(p) => {
                        let len = h.rb.len();
                        if *nl <= len {
                            // Shrink either at the end (truncate) or at the front (remove(..k)): both
                            // only change the length; the buffer must keep its place in its slot.
                            if (*nl + len + *b) % 2 == 0 {
                                h.rb.truncate(*nl);
                                h.expect.truncate(*nl);
                            } else {
                                h.rb.remove(..(len - *nl));
                                h.expect.drain(..(len - *nl));
                            }
                        } else {
                            let extra: Vec<u8> = (len..*nl).map(|k| pat(h.comp ^ 0xABCD, k)).collect();
                            if h.rb.extend_from_slice(&extra).is_err() {
                                let msg = format!("extend_from_slice within the capacity of ReadBuf {b} was refused");
                                self.fail(msg);
                                return vec![-8];
                            }
                            h.expect.extend_from_slice(&extra);
                        }
                        let h = self.bufs[*b].as_ref().unwrap();
                        let q = World::owning(&h.rb).unwrap_or(0);
                        let _ = p;
                        vec![q as i128 - self.g.base as i128, h.rb.len() as i128]
                    }
                }
            }
            Bev::Release(b) => {
                if self.bufs[*b].is_none() {
                    return vec![-9];
                }
                self.begin_release(*b);
                let h = self.bufs[*b].as_mut().unwrap();
                let was = World::owning(&h.rb).is_some();
                h.rb.release();
                h.expect.clear();
                h.addr = None;
                h.bid = None;
                vec![was as i128]
            }
            Bev::DropBuf(b) => {
                if self.bufs[*b].is_none() {
                    return vec![-9];
                }
                self.begin_release(*b);
                let h = self.bufs[*b].take().unwrap();
                let was = World::owning(&h.rb).is_some();
                drop(h);
                vec![was as i128]
            }
            Bev::PoolDrop => {
                self.pool = None;
                vec![]
            }
            Bev::Spawn(_) | Bev::T(_) | Bev::Join => unreachable!("threaded events are produced by par_block"),
        }
    }

    fn integrate_pick(&mut self, o: usize, out: PickOut) -> Vec<i128> {
        if let Some(f) = out.fault {
            self.fail(f);
        }
        if let Some(item) = out.item {
            if self.ops[o].dropped {
                if let Posted::Buf { bid, .. } = item {
                    self.abandoned_ids.push(bid);
                }
            } else {
                self.ops[o].posted.push_back(item);
            }
        }
        out.obs
    }

    fn do_deliver(&mut self, o: usize, b: usize) -> Vec<i128> {
        self.settle();
        let waker = self.wakes.waker(o as u64);
        let g = self.g;
        let silent = self.silent.clone();
        let Some(fut) = self.ops[o].fut.as_mut() else { return vec![18] };
        // (code, ReadBuf | errno)
        let r = std::panic::catch_unwind(std::panic::AssertUnwindSafe(|| match fut {
            Fut::Single(f) => match poll_once(f.as_mut(), &waker) {
                Poll::Pending => (10, None, 0),
                Poll::Ready(Ok(rb)) => (11, Some(rb), 0),
                Poll::Ready(Err(e)) => (12, None, e.raw_os_error().unwrap_or(99_999)),
            },
            Fut::MRead(f) => {
                let mut ctx = std::task::Context::from_waker(&waker);
                match f.as_mut().poll_next(&mut ctx) {
                    Poll::Pending => (10, None, 0),
                    Poll::Ready(None) => (13, None, 0),
                    Poll::Ready(Some(Ok(rb))) => (11, Some(rb), 0),
                    Poll::Ready(Some(Err(e))) => (12, None, e.raw_os_error().unwrap_or(99_999)),
                }
            }
            Fut::MRecv(f) => {
                let mut ctx = std::task::Context::from_waker(&waker);
                match f.as_mut().poll_next(&mut ctx) {
                    Poll::Pending => (10, None, 0),
                    Poll::Ready(None) => (13, None, 0),
                    Poll::Ready(Some(Ok(rb))) => (11, Some(rb), 0),
                    Poll::Ready(Some(Err(e))) => (12, None, e.raw_os_error().unwrap_or(99_999)),
                }
            }
        }));
        let (code, rb, errno) = match r {
            Ok(x) => x,
            Err(_) => {
                let msg = silent.lock().unwrap().take().unwrap_or_default();
                // State unknown after a panic: leak the future.
                std::mem::forget(self.ops[o].fut.take());
                self.fail(format!("polling operation {o} panicked: {msg}"));
                return vec![14];
            }
        };
        let multi = self.ops[o].kind.multi();
        if code == 13 || (!multi && code != 10) {
            // Finished: the future/stream is dropped.
            let fut = self.ops[o].fut.take();
            drop(fut);
        }
        match code {
            10 => vec![10],
            13 => vec![13],
            12 => {
                match self.ops[o].posted.pop_front() {
                    Some(Posted::NoBufs) if errno == ENOBUFS => {}
                    other => self.fail(format!("operation {o} failed with errno {errno} but the kernel posted {other:?}")),
                }
                vec![12, -(errno as i128)]
            }
            _ => {
                let rb = rb.unwrap();
                let item = self.ops[o].posted.pop_front();
                let own = World::owning(&rb);
                let mut held = Held { rb, expect: Vec::new(), addr: None, bid: None, comp: 0 };
                match (item, own) {
                    (Some(Posted::Buf { bid, addr, n, comp }), Some(p)) => {
                        held.expect = (0..n as usize).map(|k| pat(comp, k)).collect();
                        held.addr = Some(addr);
                        held.bid = Some(bid);
                        held.comp = comp;
                        if p != addr {
                            self.fail(format!(
                                "the kernel stored the data of this completion in buffer {bid} (offset {}) but the ReadBuf points at offset {}",
                                addr - g.base,
                                p as i128 - g.base as i128
                            ));
                        } else if held.rb.len() != n as usize {
                            self.fail(format!("the kernel stored {n} bytes but the ReadBuf holds {}", held.rb.len()));
                        } else if held.rb.as_slice() != &held.expect[..] {
                            self.fail(format!("the ReadBuf for buffer {bid} does not hold the bytes the kernel stored for this completion"));
                        }
                        self.delivered += 1;
                    }
                    (Some(Posted::Eof), None) => {}
                    (item, own) => {
                        self.fail(format!(
                            "operation {o} yielded a ReadBuf (owning: {}) but the kernel posted {item:?}",
                            own.is_some()
                        ));
                    }
                }
                let o_ = match World::owning(&held.rb) {
                    Some(p) => vec![11, p as i128 - g.base as i128, held.rb.len() as i128],
                    None => vec![11, -1, 0],
                };
                if self.bufs[b].is_some() {
                    self.fail(format!("harness error: ReadBuf place {b} is taken"));
                }
                self.bufs[b] = Some(held);
                o_
            }
        }
    }

    fn free_op(&self) -> Option<usize> {
        (0..NOPS).find(|&o| self.ops[o].fut.is_none() && !self.ops[o].dropped)
    }

    fn free_buf(&self) -> Option<usize> {
        (0..self.bufs.len()).find(|&b| self.bufs[b].is_none())
    }
}

struct Recorder {
    events: Vec<Event>,
    obs: Vec<i128>,
}

impl Recorder {
    /// One sequential event: run, observe, check.
    fn step(&mut self, w: &mut World, e: Bev) {
        if !w.registered() {
            // The shared pool is gone (last reference dropped): nothing is left to act on.
            return;
        }
        let o = w.exec(&e);
        self.obs.extend(o);
        self.obs.extend(w.snapshot());
        w.check_all();
        self.events.push(Event::E(e));
    }

    fn rep(&mut self, w: &mut World, k: u64, body: Vec<Bev>) {
        let mut h: i128 = 0;
        for _ in 0..k {
            for e in &body {
                let o = w.exec(e);
                h = digest(h, &o);
                w.check_all();
                if w.oracle.is_some() {
                    break;
                }
            }
            h = digest(h, &w.snapshot());
            if w.oracle.is_some() {
                break;
            }
        }
        self.obs.push(-50);
        self.obs.push(h);
        self.obs.extend(w.snapshot());
        self.events.push(Event::Rep(k, body));
    }
}

/// Two threads release/drop ReadBufs of the pool while a kernel thread picks.
fn par_block(w: &mut World, rec: &mut Recorder, r: &mut Rng) -> bool {
    let owning: Vec<usize> = (0..w.bufs.len()).filter(|&b| w.bufs[b].as_ref().is_some_and(|h| World::owning(&h.rb).is_some())).collect();
    if owning.len() < 2 || w.pool.is_none() {
        return false;
    }
    // Deal the owning ReadBufs to the two threads (at least one each).
    let mut order = owning.clone();
    for i in (1..order.len()).rev() {
        let j = r.below(i as u64 + 1) as usize;
        order.swap(i, j);
    }
    let take = (2 + r.below(order.len() as u64 - 1) as usize).min(order.len()).min(6);
    let order = &order[..take];
    let cut = 1 + r.below(take as u64 - 1) as usize;
    let progs: Vec<Vec<(bool, usize)>> = vec![
        order[..cut].iter().map(|b| (r.chance(2, 3), *b)).collect(),
        order[cut..].iter().map(|b| (r.chance(2, 3), *b)).collect(),
    ];
    // Kernel script: picks for a request that is in flight.
    let mut script: Vec<(usize, u32)> = Vec::new();
    let flying: Vec<usize> = (0..NOPS).filter(|&o| w.ops[o].used && w.in_flight(o)).collect();
    if !flying.is_empty() {
        let o = *r.pick(&flying);
        let k = if w.ops[o].kind.multi() { r.range(1, 3) } else { 1 };
        for _ in 0..k {
            script.push((o, r.range(0, w.g.size.min(64) as u64 + 2) as u32));
        }
    }
    let preempt = *r.pick(&[10u64, 25, 40, 60]);
    let prefix: Vec<usize> = (0..120).map(|_| if r.below(100) < preempt { 1 + r.below(2) as usize } else { 0 }).collect();
    par_run(w, rec, progs, script, &prefix);
    true
}

/// Runs the threaded block: one thread per program releasing/dropping its ReadBufs, plus the
/// kernel thread executing `script`, under the schedule `prefix`; records the executed interleaving.
fn par_run(w: &mut World, rec: &mut Recorder, progs: Vec<Vec<(bool, usize)>>, script: Vec<(usize, u32)>, prefix: &[usize]) {
    let take: usize = progs.iter().map(|p| p.len()).sum();
    let kt = progs.len();
    let back: Arc<Mutex<Vec<(usize, Held)>>> = Arc::new(Mutex::new(Vec::new()));
    let mut threads: Vec<Box<dyn FnOnce() + Send>> = Vec::new();
    struct SendHeld(Held);
    unsafe impl Send for SendHeld {}
    for prog in &progs {
        let mut items: Vec<(bool, usize, SendHeld)> = Vec::new();
        for (d, b) in prog {
            items.push((*d, *b, SendHeld(w.bufs[*b].take().unwrap())));
        }
        let busy = w.busy.clone();
        let back = back.clone();
        threads.push(Box::new(move || {
            for (d, b, held) in items {
                let mut held = held.0;
                if let Some(bid) = held.bid {
                    busy.lock().unwrap().remove(&bid);
                }
                if d {
                    drop(held);
                } else {
                    held.rb.release();
                    held.expect.clear();
                    held.addr = None;
                    held.bid = None;
                    back.lock().unwrap().push((b, held));
                }
            }
        }));
    }
    w.released += take;
    let results: Arc<Mutex<Vec<PickOut>>> = Arc::new(Mutex::new(Vec::new()));
    {
        let g = w.g;
        let busy = w.busy.clone();
        let results = results.clone();
        let first_comp = w.ncomp;
        w.ncomp += script.len() as u64;
        let script2: Vec<(usize, u32, bool)> = script.iter().map(|(o, len)| (*o, *len, w.ops[*o].dropped)).collect();
        threads.push(Box::new(move || {
            for (k, (o, len, abandoned)) in script2.into_iter().enumerate() {
                sched::yield_point(KPOINT);
                let out = kernel_pick(&g, fake_fd(o), len, first_comp + k as u64, &busy, abandoned);
                results.lock().unwrap().push(out);
            }
        }));
    }
    let out = sched::run(threads, prefix);

    // Spawn: observed as executed; no snapshot while the threads run.
    rec.events.push(Event::E(Bev::Spawn(progs.clone())));
    rec.obs.push(1);
    let mut results: VecDeque<PickOut> = std::mem::take(&mut *results.lock().unwrap()).into();
    let mut script_it = script.iter();
    for (tid, point) in &out.exec {
        if *tid == kt {
            let Some((o, len)) = script_it.next() else { continue };
            let Some(res) = results.pop_front() else { continue };
            let o_ = w.integrate_pick(*o, res);
            rec.obs.extend(o_);
            rec.events.push(Event::E(Bev::KPick(*o, *len)));
        } else {
            rec.obs.push(*point as i128);
            rec.events.push(Event::E(Bev::T(*tid)));
        }
    }
    if let Some(p) = &out.panicked {
        let msg = w.silent.lock().unwrap().take().unwrap_or_default();
        w.fail(format!("a releasing thread panicked: {p} {msg}"));
    }
    if out.stuck {
        w.fail("a releasing thread blocked forever".into());
    }
    for (b, held) in back.lock().unwrap().drain(..) {
        w.bufs[b] = Some(held);
    }
    rec.events.push(Event::E(Bev::Join));
    rec.obs.extend(w.snapshot());
    w.check_all();
}

pub fn one_case(idx: usize, long_every: usize, r: &mut Rng, silent: &Arc<Mutex<Option<String>>>) -> Case {
    let corpus_h26 = idx == 0;
    let long = idx % long_every == 1;
    let k: u32 = if long || corpus_h26 { 1 } else { *r.pick(&[0u32, 1, 1, 2, 2, 3]) };
    let n = 1usize << k;
    let size: usize = if corpus_h26 {
        8
    } else if r.chance(1, 3) {
        *r.pick(&[1usize, 2, 64])
    } else {
        r.range(1, 64) as usize
    };
    // One case in 25: a pool that spans more than 4 GiB (8 buffers of 1 GiB; virtual memory only,
    // the kernel and the edits touch at most 64 bytes of a buffer): buffer ids and offsets beyond
    // 32 bits.
    let huge = !long && !corpus_h26 && idx % 25 == 7;
    let (k, n, size) = if huge { (3u32, 8usize, 1usize << 30) } else { (k, n, size) };
    let _ = k;
    let nbufs = n + 3;

    simk::configure(simk::SetupConfig { sq_start: r.next() as u32, cq_start: r.next() as u32, ..Default::default() });
    let ring = a10::Ring::config()
        .with_submission_queue_size(64)
        .with_completion_queue_size(256)
        .build()
        .expect("ring on the simulated kernel");
    let ring_fd = simk::with(|s| s.fd);
    let sq = ring.sq();
    let (pool, n, size, huge) = match ReadBufPool::new(sq.clone(), n as u16, size as u32) {
        Ok(p) => (p, n, size, huge),
        // No address space for the large pool on this machine: an ordinary one instead.
        Err(_) if huge => (ReadBufPool::new(sq.clone(), 8, 64).expect("ReadBufPool::new on the simulated kernel"), 8, 64, false),
        Err(e) => panic!("ReadBufPool::new on the simulated kernel: {e}"),
    };
    // What lengths and edits are drawn from: the whole buffer, except for the 1 GiB buffers.
    let gsize = size.min(64);
    let bgid = simk::with_fd(ring_fd, |s| s.pbufs.keys().copied().next()).flatten().expect("a registered buffer ring");
    let first = simk::with_fd(ring_fd, |s| s.pbuf_available(bgid)).unwrap();
    let base = first.iter().find(|e| e.0 == 0).map(|e| e.1 as usize).unwrap_or(0);
    let g = Geom { ring_fd, bgid, base, n, size };
    // One case in 150: the process creates (and drops) other pools on the same ring until the
    // 16-bit buffer-group counter comes round to this pool's id; that creation is refused by the
    // kernel (EEXIST) and must leave this pool alone: still registered, nothing offered changed.
    let mut id_wrap: Option<String> = None;
    let mut wrapped_ids = false;
    if !huge && idx % 150 == 11 {
        wrapped_ids = true;
        let mut refused = 0u32;
        for _ in 0..70_000u32 {
            match ReadBufPool::new(sq.clone(), 1, 1) {
                Ok(p) => drop(p),
                Err(e) if e.raw_os_error() == Some(libc::EEXIST) => {
                    refused += 1;
                    break;
                }
                Err(e) => {
                    id_wrap = Some(format!("creating a short-lived pool failed with {e}"));
                    break;
                }
            }
        }
        let _ = simk::with_fd(ring_fd, |s| s.take_log());
        let still = simk::with_fd(ring_fd, |s| s.pbufs.contains_key(&bgid)).unwrap_or(false);
        let now = simk::with_fd(ring_fd, |s| s.pbuf_available(bgid)).unwrap_or_default();
        if refused != 1 && id_wrap.is_none() {
            id_wrap = Some("65536 further pools were created on the ring and none collided with this pool's buffer group id".into());
        } else if !still {
            id_wrap = Some(format!("after another ReadBufPool::new was refused with EEXIST (its buffer group id, {bgid}, is this pool's) this pool's buffer group is no longer registered: every read from it fails with ENOBUFS"));
        } else if now != first {
            id_wrap = Some("a refused ReadBufPool::new changed what this pool offers to the kernel".into());
        }
    }
    // One case in 40: a second ring with a pool of its own. A read on a descriptor of THAT ring with
    // a buffer of THIS pool names this pool's buffer group, which the other ring does not have: it
    // must fail (ENOBUFS) and leave both pools alone — buffer group ids are unique in the process.
    let mut two_rings: Option<String> = None;
    let mut tried_two_rings = false;
    if !huge && idx % 40 == 17 {
        tried_two_rings = true;
        simk::configure(simk::SetupConfig { sq_start: r.next() as u32, cq_start: r.next() as u32, ..Default::default() });
        let mut ring_b = a10::Ring::config().with_submission_queue_size(8).build().expect("second ring on the simulated kernel");
        let fd_b = simk::with(|s| s.fd);
        let sq_b = ring_b.sq();
        let pool_b = ReadBufPool::new(sq_b.clone(), 2, size as u32).expect("pool of the second ring");
        simk::add_fake_fd(fake_fd(90));
        let afd = ManuallyDrop::new(unsafe { a10::AsyncFd::from_raw_fd(fake_fd(90), sq_b.clone()) });
        {
            let waker = std::task::Waker::noop();
            let mut ctx = std::task::Context::from_waker(waker);
            let mut fut = Box::pin(afd.read(pool.get()));
            let _ = fut.as_mut().poll(&mut ctx);
            let _ = ring_b.poll(Some(std::time::Duration::ZERO));
            let served = simk::with_fd(fd_b, |s| {
                let Some(q) = s.inflight.iter().find(|q| q.sqe.fd == fake_fd(90)).map(|q| (q.req, q.sqe.buf_index)) else { return None };
                match s.pbuf_pick(q.1) {
                    Some((bid, addr, len)) => {
                        for k in 0..3usize.min(len as usize) {
                            unsafe { (addr as *mut u8).add(k).write(0xB0 + k as u8) };
                        }
                        s.complete(q.0, 3.min(len as i32), abi::CQE_F_BUFFER | ((bid as u32) << abi::CQE_BUFFER_SHIFT));
                        Some((true, q.1, bid))
                    }
                    None => {
                        s.complete(q.0, -libc::ENOBUFS, 0);
                        Some((false, q.1, 0))
                    }
                }
            })
            .flatten();
            let _ = ring_b.poll(Some(std::time::Duration::ZERO));
            let res = fut.as_mut().poll(&mut ctx);
            match (served, res) {
                (Some((true, group, bid)), std::task::Poll::Ready(Ok(buf))) => {
                    two_rings = Some(format!(
                        "a read on a descriptor of a second ring with a buffer of this pool was served from the second ring's own pool (both pools have buffer group id {group}): the ReadBuf handed out claims buffer {bid} of THIS pool, which the kernel of this ring still offers or another ReadBuf owns ({} bytes)",
                        buf.len()
                    ));
                    std::mem::forget(buf);
                }
                (Some((true, group, _)), _) => two_rings = Some(format!("two live pools of the process share buffer group id {group}")),
                (Some((false, _, _)), std::task::Poll::Ready(Err(_))) => {}
                (s, other) => two_rings = Some(format!("read across rings: kernel side {s:?}, future {:?}", other.map(|x| x.map(|b| b.len())))),
            }
        }
        drop(pool_b);
        drop(sq_b);
        drop(ring_b);
        simk::retire(fd_b);
        let _ = simk::with_fd(ring_fd, |s| s.take_log());
    }
    let mut ops = Vec::new();
    for o in 0..NOPS {
        simk::add_fake_fd(fake_fd(o));
        let fd = Box::new(ManuallyDrop::new(unsafe { a10::AsyncFd::from_raw_fd(fake_fd(o), sq.clone()) }));
        ops.push(OpSlot { fd, fut: None, kind: Kind::Read, used: false, dropped: false, posted: VecDeque::new() });
    }
    drop(sq);
    let _ = simk::with_fd(ring_fd, |s| s.take_log());
    let mut w = World {
        ring: Some(ring),
        g,
        pool: Some(pool),
        ops,
        bufs: (0..nbufs).map(|_| None).collect(),
        wakes: WakeLog::default(),
        oracle: None,
        known: None,
        silent: silent.clone(),
        ncomp: 1,
        busy: Arc::new(Mutex::new(BTreeSet::new())),
        abandoned_ids: Vec::new(),
        delivered: 0,
        released: 0,
        tail_wrapped: false,
    };
    let mut rec = Recorder { events: Vec::new(), obs: Vec::new() };
    // Initial state: every buffer offered, in order.
    rec.obs.extend(w.snapshot());
    if let Some(m) = id_wrap {
        w.fail(m);
    }
    if let Some(m) = two_rings {
        w.fail(m);
    }
    if first.len() != n || first.iter().enumerate().any(|(i, e)| e.0 as usize != i || e.1 as usize != base + i * size || e.2 as usize != size) {
        w.fail(format!("a new pool of {n} x {size} bytes offers {:?}", first));
    }
    w.check_all();

    let mut tags: Vec<String> = vec![format!("pool_size:{n}"), format!("buf_size:{}", if size == 1 { "1".into() } else if size < 8 { "2-7".to_string() } else if size < 64 { "8-63".into() } else if size == 64 { "64".to_string() } else { "1GiB(pool>4GiB)".to_string() })];
    let mut threaded = false;
    if wrapped_ids {
        tags.push("buffer-group-ids-wrapped(65536 other pools)".into());
    }
    if tried_two_rings {
        tags.push("second-ring-with-its-own-pool".into());
    }

    if corpus_h26 {
        // Regression corpus for H26: both buffers picked and delivered; one thread drops the ReadBuf
        // of buffer 1 (its entry goes to ring slot 0, whose last two bytes are the ring tail); the
        // kernel selects twice between the entry write and the tail store. It must find nothing
        // offered; before the repair it read tail 0 and took the new entry and then a stale one.
        for e in [Bev::Start(0, Kind::MultiRead, true), Bev::KPick(0, 8), Bev::KPick(0, 8), Bev::Deliver(0, 0), Bev::Deliver(0, 1)] {
            rec.step(&mut w, e);
        }
        if w.oracle.is_none() {
            par_run(&mut w, &mut rec, vec![vec![(true, 1)]], vec![(0, 8), (0, 8)], &[0, 1, 0, 0]);
            threaded = true;
        }
        for e in [Bev::Deliver(0, 1), Bev::Deliver(0, 2)] {
            rec.step(&mut w, e);
        }
        tags.push("corpus:h26".into());
    }
    if !long && !corpus_h26 && idx % 20 == 3 {
        // The operation holds the last handle of the pool: the user's handle is dropped while a
        // multishot read/recv is running, then the stream is dropped (its cancellation is only
        // queued) and the kernel selects once more before the cancellation lands. The pool has to
        // stay registered and allocated until the request's final completion (C01: pool buffers).
        let kind = if r.chance(1, 2) { Kind::MultiRead } else { Kind::MultiRecv };
        let mut evs = vec![Bev::Start(0, kind, r.chance(1, 2))];
        if r.chance(1, 2) {
            evs.extend([Bev::KPick(0, r.range(1, gsize as u64) as u32), Bev::Deliver(0, 0), Bev::DropBuf(0)]);
        }
        evs.extend([Bev::PoolDrop, Bev::DropOp(0), Bev::KPick(0, r.range(1, gsize as u64) as u32), Bev::RingPoll]);
        for e in evs {
            if w.oracle.is_none() {
                rec.step(&mut w, e);
            }
        }
        tags.push("scripted:last-handle-held-by-abandoned-multishot".into());
    }
    if long {
        // More than 2^16 releases on a pool of two: the ring tail (starting at 2) wraps.
        let rounds = 70_000 + r.below(2_000);
        let len = r.range(1, gsize as u64) as u32;
        if r.chance(1, 2) {
            let kind = if r.chance(1, 2) { Kind::MultiRead } else { Kind::MultiRecv };
            rec.step(&mut w, Bev::Start(0, kind, true));
            rec.rep(&mut w, rounds, vec![Bev::KPick(0, len), Bev::Deliver(0, 0), Bev::DropBuf(0)]);
            tags.push("long:multishot".into());
        } else {
            let kind = if r.chance(1, 2) { Kind::Read } else { Kind::Recv };
            let rel = if r.chance(1, 2) { vec![Bev::DropBuf(0)] } else { vec![Bev::Release(0), Bev::DropBuf(0)] };
            let mut body = vec![Bev::Start(0, kind, true), Bev::KPick(0, len), Bev::Deliver(0, 0)];
            body.extend(rel);
            rec.rep(&mut w, rounds, body);
            tags.push("long:single-shot".into());
        }
        w.tail_wrapped = true;
    }

    let n_events = if long || corpus_h26 { r.range(4, 12) } else { r.range(8, 44) } as usize;
    let allow_abandon = r.chance(1, 3);
    let want_threads = n >= 2 && r.chance(2, 5);
    let thread_at = r.below(n_events as u64) as usize;
    let pool_drop_at = if r.chance(1, 4) { Some(n_events / 2 + r.below(n_events as u64 / 2 + 1) as usize) } else { None };
    // With the user's handle gone an operation holds the last one: abandon operations more often then.
    let allow_abandon = allow_abandon || (pool_drop_at.is_some() && r.chance(2, 3));
    for step in 0..n_events {
        if w.oracle.is_some() || !w.registered() {
            break;
        }
        if want_threads && !threaded && step >= thread_at && w.pool.is_some() {
            if par_block(&mut w, &mut rec, r) {
                threaded = true;
                continue;
            }
        }
        if Some(step) == pool_drop_at && w.pool.is_some() && (threaded || !want_threads) {
            rec.step(&mut w, Bev::PoolDrop);
            continue;
        }
        let live_ops: Vec<usize> = (0..NOPS).filter(|&o| w.ops[o].fut.is_some()).collect();
        let flying: Vec<usize> = (0..NOPS).filter(|&o| w.ops[o].used && w.in_flight(o)).collect();
        let held: Vec<usize> = (0..nbufs).filter(|&b| w.bufs[b].is_some()).collect();
        let owning: Vec<usize> = held.iter().copied().filter(|&b| World::owning(&w.bufs[b].as_ref().unwrap().rb).is_some()).collect();
        let mut ev = None;
        for _ in 0..6 {
            let c = r.below(100);
            ev = match c {
                0..=13 => match (w.free_op(), w.pool.is_some()) {
                    (Some(o), true) => {
                        let kind = *r.pick(&[Kind::Read, Kind::Recv, Kind::MultiRead, Kind::MultiRead, Kind::MultiRecv]);
                        Some(Bev::Start(o, kind, r.chance(1, 2)))
                    }
                    _ => None,
                },
                14..=37 if !flying.is_empty() => {
                    let o = *r.pick(&flying);
                    let len = match r.below(4) {
                        0 => gsize as u32,
                        1 => gsize as u32 + 1 + r.below(5) as u32,
                        2 => r.below(2) as u32,
                        _ => r.range(0, gsize as u64) as u32,
                    };
                    Some(Bev::KPick(o, len))
                }
                38..=40 if !flying.is_empty() => Some(Bev::KEof(*r.pick(&flying))),
                41..=44 => Some(Bev::RingPoll),
                45..=64 if !live_ops.is_empty() => w.free_buf().map(|b| Bev::Deliver(*r.pick(&live_ops), b)),
                65..=69 if allow_abandon && !live_ops.is_empty() => Some(Bev::DropOp(*r.pick(&live_ops))),
                70..=77 if !held.is_empty() => {
                    let b = *r.pick(&held);
                    Some(Bev::Edit(b, r.range(0, gsize as u64) as usize))
                }
                78..=85 if !held.is_empty() => Some(Bev::Release(*r.pick(&held))),
                86..=99 if !held.is_empty() => {
                    let any = owning.is_empty() || r.chance(1, 4);
                    Some(Bev::DropBuf(*r.pick(if any { &held } else { &owning })))
                }
                _ => None,
            };
            if ev.is_some() {
                break;
            }
        }
        let ev = ev.unwrap_or(Bev::RingPoll);
        rec.step(&mut w, ev);
    }

    // ---- epilogue: deliver everything, end every request, drop every ReadBuf -------------------------
    let abandoned_any = w.ops.iter().any(|o| o.dropped);
    if w.oracle.is_none() && w.registered() {
        for o in 0..NOPS {
            if w.oracle.is_some() {
                break;
            }
            if w.ops[o].used && w.in_flight(o) {
                rec.step(&mut w, Bev::KEof(o));
            }
            let mut guard = 0;
            while w.ops[o].fut.is_some() && w.oracle.is_none() && guard < 40 {
                guard += 1;
                let b = match w.free_buf() {
                    Some(b) => b,
                    None => {
                        let b = (0..nbufs).find(|&b| w.bufs[b].is_some()).unwrap();
                        rec.step(&mut w, Bev::DropBuf(b));
                        b
                    }
                };
                rec.step(&mut w, Bev::Deliver(o, b));
            }
        }
        if w.oracle.is_none() {
            rec.step(&mut w, Bev::RingPoll);
        }
        for b in 0..nbufs {
            if w.bufs[b].is_some() && w.oracle.is_none() {
                let e = if r.chance(1, 3) { Bev::Release(b) } else { Bev::DropBuf(b) };
                let again = matches!(e, Bev::Release(_));
                rec.step(&mut w, e);
                if again && w.oracle.is_none() {
                    rec.step(&mut w, Bev::DropBuf(b));
                }
            }
        }
    }
    // Quiescent: no live ReadBuf, nothing in flight, every completion delivered.
    if w.oracle.is_none() && w.registered() {
        let in_flight = simk::with_fd(ring_fd, |s| s.inflight.len()).unwrap_or(0);
        let avail = simk::with_fd(ring_fd, |s| s.pbuf_available(bgid)).unwrap_or_default();
        let offered: BTreeSet<u16> = avail.iter().map(|e| e.0).collect();
        let missing: Vec<u16> = (0..n as u16).filter(|i| !offered.contains(i)).collect();
        if in_flight != 0 {
            w.fail(format!("harness error: {in_flight} requests still in flight at the end"));
        } else if !missing.is_empty() {
            let explained = missing.iter().all(|m| w.abandoned_ids.contains(m));
            let what = format!(
                "no ReadBuf is alive and nothing is in flight, but buffers {missing:?} of {n} are not offered to the kernel any more{}",
                if explained { ": each was picked for an operation whose future was dropped before the completion was turned into a ReadBuf" } else { "" }
            );
            w.fail(what);
            if explained {
                w.known = Some(KNOWN_H11.into());
            }
        }
    }
    if !w.abandoned_ids.is_empty() {
        tags.push("buffer-picked-for-abandoned-op".into());
    }
    if abandoned_any {
        tags.push("future-dropped".into());
    }
    if threaded {
        tags.push("threaded-release".into());
    }
    if w.tail_wrapped {
        tags.push("tail_wraps:true".into());
    }
    if !w.registered() {
        tags.push("pool-unregistered".into());
    }
    for o in &w.ops {
        if o.used {
            tags.push(format!("kind:{}", o.kind.name()));
        }
    }
    let delivered = w.delivered;
    let released = w.released;

    // ---- teardown ---------------------------------------------------------------------------------
    let World { ring, pool, ops, bufs, oracle, known, .. } = w;
    let _ = std::panic::catch_unwind(std::panic::AssertUnwindSafe(move || {
        drop(bufs);
        drop(pool);
    }));
    let mut fds = Vec::new();
    for o in ops {
        let OpSlot { fd, fut, .. } = o;
        let _ = std::panic::catch_unwind(std::panic::AssertUnwindSafe(move || drop(fut)));
        fds.push(fd);
    }
    let _ = std::panic::catch_unwind(std::panic::AssertUnwindSafe(move || drop(ring)));
    for fd in fds {
        drop(ManuallyDrop::into_inner(*fd));
    }
    simk::retire(ring_fd);

    let mut coq = format!("{{| bp_k := {k}%N; bp_size := {size}%N; bp_nops := {NOPS}%nat; bp_nbufs := {nbufs}%nat; bp_events := [");
    let mut json = format!("{{\"pool_size\":{n},\"buf_size\":{size},\"events\":[");
    for (i, e) in rec.events.iter().enumerate() {
        if i > 0 {
            coq.push_str("; ");
            json.push(',');
        }
        match e {
            Event::E(b) => {
                let _ = write!(coq, "E ({})", coq_bev(b));
                json.push_str(&json_bev(b));
            }
            Event::Rep(k, body) => {
                let _ = write!(coq, "Rep {k}%N [{}]", body.iter().map(coq_bev).collect::<Vec<_>>().join("; "));
                let _ = write!(json, "{{\"repeat\":{k},\"body\":[{}]}}", body.iter().map(json_bev).collect::<Vec<_>>().join(","));
            }
        }
    }
    coq.push_str("] |}");
    json.push_str("]}");
    tags.sort();
    tags.dedup();
    let nontrivial = delivered >= 1 && released >= 1;
    Case { coq, obs: rec.obs, json, oracle, known, tags, nontrivial }
}

pub fn run(args: &Args) -> i32 {
    simk::install();
    let silent: Arc<Mutex<Option<String>>> = Arc::new(Mutex::new(None));
    let s2 = silent.clone();
    std::panic::set_hook(Box::new(move |info| {
        *s2.lock().unwrap() = Some(info.to_string());
    }));
    let n = args.n.unwrap_or(if args.thorough { 20_000 } else { 1_200 });
    let root = Rng::new(args.seed ^ 0xC08);
    let cases = out::run_forked(&args.out, n, 12, &|i| {
        let mut r = root.fork(i as u64);
        one_case(i, if args.thorough { 2_000 } else { 500 }, &mut r, &silent)
    });
    let _ = std::panic::take_hook();
    let spec = Spec { prop: "C08", imports: &["Model.BufPool"], run_fn: "run_bpcase", case_ty: "bpcase", shard: 100 };
    out::write_all(&args.out, &spec, &cases, &[]);
    0
}
